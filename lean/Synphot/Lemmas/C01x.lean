/-
  Synphot.Lemmas.C01x — helper lemmas for the deepened C01 theorems: every flux unit as a positive
  factor times (a power of ten of) the value (`unitFactor`, `convertOne_factor`), magnitude laws,
  reversal and positivity of the count factors, arrays (`convertAll`, `mkSamples`, their reversal), the
  flux-unit names of `validate_unit`, and concrete data for the non-vacuity examples.
-/
import Mathlib.Tactic.Ring
import Mathlib.Tactic.FieldSimp
import Mathlib.Tactic.Linarith
import Mathlib.Tactic.Positivity
import Synphot.Lemmas.Units
import Synphot.Lemmas.Binning
import Synphot.Lemmas.Specio
import Synphot.Lemmas.TranscReal
import Mathlib.Tactic.NormNum
import Mathlib.Data.List.Forall2

set_option linter.unusedSectionVars false
set_option linter.unusedSimpArgs false
set_option linter.unusedVariables false

namespace Synphot.C01x
open Synphot
variable {K : Type} [Field K] [LinearOrder K] [IsStrictOrderedRing K]

/-! ### every unit is a positive factor times (a power of ten of) the value -/

/-- PHOTLAM per unit of the *linear* value of a flux in unit `u` at this sample (for a magnitude
unit the linear value is `10^(-0.4 m)`); `none` when the count factor / Vega flux is missing -/
def unitFactor (P : PhysConst K) (s : Samp K) : FluxUnit K → Option K
  | .photlam => some 1
  | .photnu => some (P.c / s.lam ^ 2)
  | .flam => some (s.lam / (P.h * P.c))
  | .fnu => some (P.c / s.lam ^ 2 * s.lam / (P.h * P.c))
  | .jy k => some (k * P.jyFnu * P.c / s.lam ^ 2 * s.lam / (P.h * P.c))
  | .stmag => some (P.stZero * s.lam / (P.h * P.c))
  | .abmag => some (P.abZero * P.c / s.lam ^ 2 * s.lam / (P.h * P.c))
  | .count => s.countFactor.map (fun w => 1 / w)
  | .obmag => s.countFactor.map (fun w => 1 / w)
  | .vegamag => s.vega

/-- the linear value of a flux given in unit `u` -/
def linVal (T : Transc K) (u : FluxUnit K) (f : K) : K := if u.isMag then ofMag T f else f

variable {P : PhysConst K} {T : Transc K} {s : Samp K}

theorem unitFactor_pos (hP : P.Pos) (hs : s.Pos) (u : FluxUnit K) (hu : u.Pos) {k : K}
    (h : unitFactor P s u = some k) : 0 < k := by
  have hh := hP.h; have hc := hP.c; have hst := hP.st; have hab := hP.ab; have hjy := hP.jy
  have hl := hs.lam
  cases u with
  | photlam => simp only [unitFactor, Option.some.injEq] at h; subst h; exact one_pos
  | photnu => simp only [unitFactor, Option.some.injEq] at h; subst h; positivity
  | flam => simp only [unitFactor, Option.some.injEq] at h; subst h; positivity
  | fnu => simp only [unitFactor, Option.some.injEq] at h; subst h; positivity
  | jy k0 =>
    have hk : 0 < k0 := hu
    simp only [unitFactor, Option.some.injEq] at h; subst h; positivity
  | stmag => simp only [unitFactor, Option.some.injEq] at h; subst h; positivity
  | abmag => simp only [unitFactor, Option.some.injEq] at h; subst h; positivity
  | count =>
    simp only [unitFactor] at h
    cases hcf : s.countFactor with
    | none => rw [hcf] at h; cases h
    | some w =>
      rw [hcf] at h; simp only [Option.map_some, Option.some.injEq] at h; subst h
      have := hs.cf w hcf; positivity
  | obmag =>
    simp only [unitFactor] at h
    cases hcf : s.countFactor with
    | none => rw [hcf] at h; cases h
    | some w =>
      rw [hcf] at h; simp only [Option.map_some, Option.some.injEq] at h; subst h
      have := hs.cf w hcf; positivity
  | vegamag => exact hs.vega k h

/-- a missing factor is a missing area / Vega spectrum: both directions raise `SynphotError` -/
theorem unitFactor_none (u : FluxUnit K) (h : unitFactor P s u = none) (f : K) :
    toPhotlam P T s u f = .error .synphotError ∧ ofPhotlam P T s u f = .error .synphotError := by
  cases u <;> simp only [unitFactor, Option.map_eq_none_iff] at h <;> first
    | (cases h)
    | (simp [toPhotlam, ofPhotlam, h])

theorem unitFactor_none_iff (u : FluxUnit K) :
    unitFactor P s u = none ↔
      ((u.needsArea = true ∧ s.countFactor = none) ∨ (u.needsVega = true ∧ s.vega = none)) := by
  cases u <;> simp [unitFactor, FluxUnit.needsArea, FluxUnit.needsVega]

theorem toPhotlam_factor (u : FluxUnit K) {k : K} (h : unitFactor P s u = some k) (f : K) :
    toPhotlam P T s u f = .ok (linVal T u f * k) := by
  cases u with
  | photlam => simp only [unitFactor, Option.some.injEq] at h; subst h; simp [toPhotlam, linVal, FluxUnit.isMag]
  | photnu =>
    simp only [unitFactor, Option.some.injEq] at h; subst h
    simp only [toPhotlam, linVal, FluxUnit.isMag]; congr 1; simp; ring
  | flam =>
    simp only [unitFactor, Option.some.injEq] at h; subst h
    simp only [toPhotlam, linVal, FluxUnit.isMag]; congr 1; simp; ring
  | fnu =>
    simp only [unitFactor, Option.some.injEq] at h; subst h
    simp only [toPhotlam, linVal, FluxUnit.isMag]; congr 1; simp; ring
  | jy k0 =>
    simp only [unitFactor, Option.some.injEq] at h; subst h
    simp only [toPhotlam, linVal, FluxUnit.isMag]; congr 1; simp; ring
  | stmag =>
    simp only [unitFactor, Option.some.injEq] at h; subst h
    simp only [toPhotlam, linVal, FluxUnit.isMag]; congr 1; simp; ring
  | abmag =>
    simp only [unitFactor, Option.some.injEq] at h; subst h
    simp only [toPhotlam, linVal, FluxUnit.isMag]; congr 1; simp; ring
  | count =>
    simp only [unitFactor] at h
    cases hcf : s.countFactor with
    | none => rw [hcf] at h; cases h
    | some w =>
      rw [hcf] at h; simp only [Option.map_some, Option.some.injEq] at h; subst h
      simp only [toPhotlam, hcf, linVal, FluxUnit.isMag]; congr 1; simp; ring
  | obmag =>
    simp only [unitFactor] at h
    cases hcf : s.countFactor with
    | none => rw [hcf] at h; cases h
    | some w =>
      rw [hcf] at h; simp only [Option.map_some, Option.some.injEq] at h; subst h
      simp only [toPhotlam, hcf, linVal, FluxUnit.isMag]; congr 1; simp; ring
  | vegamag =>
    simp only [unitFactor] at h
    simp only [toPhotlam, h, linVal, FluxUnit.isMag]; congr 1

theorem ofPhotlam_factor (hP : P.Pos) (hs : s.Pos) (u : FluxUnit K) (hu : u.Pos) {k : K}
    (h : unitFactor P s u = some k) (p : K) :
    ofPhotlam P T s u p = if u.isMag then toMag T (p / k) else .ok (p / k) := by
  have hh := hP.h; have hc := hP.c; have hst := hP.st; have hab := hP.ab; have hjy := hP.jy
  have hl := hs.lam
  have hhne := ne_of_gt hh; have hcne := ne_of_gt hc; have hlne := ne_of_gt hl
  have hstne := ne_of_gt hst; have habne := ne_of_gt hab; have hjyne := ne_of_gt hjy
  cases u with
  | photlam => simp only [unitFactor, Option.some.injEq] at h; subst h; simp [ofPhotlam, FluxUnit.isMag]
  | photnu =>
    simp only [unitFactor, Option.some.injEq] at h; subst h
    simp only [ofPhotlam, FluxUnit.isMag]; simp only [Bool.false_eq_true, if_false]; congr 1; field_simp
  | flam =>
    simp only [unitFactor, Option.some.injEq] at h; subst h
    simp only [ofPhotlam, FluxUnit.isMag]; simp only [Bool.false_eq_true, if_false]; congr 1; field_simp
  | fnu =>
    simp only [unitFactor, Option.some.injEq] at h; subst h
    simp only [ofPhotlam, FluxUnit.isMag]; simp only [Bool.false_eq_true, if_false]; congr 1; field_simp
  | jy k0 =>
    have hk : 0 < k0 := hu
    have hkne := ne_of_gt hk
    simp only [unitFactor, Option.some.injEq] at h; subst h
    simp only [ofPhotlam, FluxUnit.isMag]; simp only [Bool.false_eq_true, if_false]; congr 1; field_simp
  | stmag =>
    simp only [unitFactor, Option.some.injEq] at h; subst h
    simp only [ofPhotlam, FluxUnit.isMag, if_true]; apply toMag_congr; field_simp
  | abmag =>
    simp only [unitFactor, Option.some.injEq] at h; subst h
    simp only [ofPhotlam, FluxUnit.isMag, if_true]; apply toMag_congr; field_simp
  | count =>
    simp only [unitFactor] at h
    cases hcf : s.countFactor with
    | none => rw [hcf] at h; cases h
    | some w =>
      rw [hcf] at h; simp only [Option.map_some, Option.some.injEq] at h; subst h
      have := ne_of_gt (hs.cf w hcf)
      simp only [ofPhotlam, hcf, FluxUnit.isMag]; simp only [Bool.false_eq_true, if_false]; congr 1; field_simp
  | obmag =>
    simp only [unitFactor] at h
    cases hcf : s.countFactor with
    | none => rw [hcf] at h; cases h
    | some w =>
      rw [hcf] at h; simp only [Option.map_some, Option.some.injEq] at h; subst h
      have := ne_of_gt (hs.cf w hcf)
      simp only [ofPhotlam, hcf, FluxUnit.isMag, if_true]; apply toMag_congr; field_simp
  | vegamag =>
    simp only [unitFactor] at h
    simp only [ofPhotlam, h, FluxUnit.isMag, if_true]

/-- `convert_flux` at one sample in terms of the two unit factors (same-unit shortcut included) -/
theorem convertOne_factor (hP : P.Pos) (hT : T.Lawful) (hs : s.Pos) (a b : FluxUnit K)
    (ha : a.Pos) (hb : b.Pos) {ka kb : K} (hka : unitFactor P s a = some ka)
    (hkb : unitFactor P s b = some kb) (f : K) :
    convertOne P T s a b f =
      if b.isMag then toMag T (linVal T a f * (ka / kb)) else .ok (linVal T a f * (ka / kb)) := by
  have hkap := unitFactor_pos hP hs a ha hka
  have hkbp := unitFactor_pos hP hs b hb hkb
  by_cases hab : a = b
  · subst hab
    rw [hka] at hkb; injection hkb with hkb; subst hkb
    have e : ka / ka = 1 := div_self (ne_of_gt hkap)
    unfold convertOne; rw [if_pos rfl, e, mul_one]
    unfold linVal
    by_cases hm : a.isMag = true
    · simp only [hm, if_true]; exact (toMag_ofMag hT f).symm
    · simp only [hm, Bool.false_eq_true, if_false]
  · unfold convertOne; rw [if_neg hab, toPhotlam_factor a hka f]
    show ofPhotlam P T s b (linVal T a f * ka) = _
    rw [ofPhotlam_factor hP hs b hb hkb, mul_div_assoc]


/-! ### magnitudes -/

theorem toMag_pos {T : Transc K} {x : K} (hx : 0 < x) : toMag T x = .ok (-(5/2) * T.log10 x) := by
  unfold toMag; rw [if_neg (not_le.mpr hx)]

theorem toMag_err {T : Transc K} {x : K} (hx : x ≤ 0) : toMag T x = .error .nan := by
  unfold toMag; rw [if_pos hx]

/-- a magnitude re-expressed against another reference: the value shifts by a constant -/
theorem toMag_ofMag_mul {T : Transc K} (hT : T.Lawful) (m r : K) (hr : 0 < r) :
    toMag T (ofMag T m * r) = .ok (m + -(5/2) * T.log10 r) := by
  have hp := ofMag_pos hT m
  rw [toMag_pos (mul_pos hp hr), hT.log10_mul _ _ hp hr]
  unfold ofMag; rw [hT.log10_pow10]; congr 1; ring

/-- scaling a flux by `k > 0` shifts its magnitude by `-2.5 log10 k` -/
theorem toMag_mul {T : Transc K} (hT : T.Lawful) {x k m : K} (hk : 0 < k) (h : toMag T x = .ok m) :
    toMag T (k * x) = .ok (m + -(5/2) * T.log10 k) := by
  obtain ⟨hx, rfl⟩ := toMag_ok h
  rw [toMag_pos (mul_pos hk hx), hT.log10_mul _ _ hk hx]; congr 1; ring

/-- `log10` strictly increasing on the positive numbers (a consequence of `Transc.Lawful` through
`pow10_strictMono`: `logMono_of_lawful`) -/
def LogMono (T : Transc K) : Prop := ∀ x y : K, 0 < x → x < y → T.log10 x < T.log10 y

/-- with `pow10_strictMono` among the laws, `LogMono` follows from `Transc.Lawful` -/
theorem logMono_of_lawful {T : Transc K} (hT : T.Lawful) : LogMono T := by
  intro x y hx hxy
  by_contra hc
  have hy : 0 < y := lt_trans hx hxy
  have hle : T.pow10 (T.log10 y) ≤ T.pow10 (T.log10 x) := by
    rcases lt_or_eq_of_le (not_lt.mp hc) with h1 | h1
    · exact le_of_lt (hT.pow10_strictMono _ _ h1)
    · rw [h1]
  rw [hT.pow10_log10 _ hx, hT.pow10_log10 _ hy] at hle
  exact absurd hxy (not_lt.mpr hle)

theorem pow10_strictMono {T : Transc K} (hT : T.Lawful) (hm : LogMono T) {x y : K} (h : x < y) :
    T.pow10 x < T.pow10 y := by
  by_contra hc
  rcases lt_or_eq_of_le (not_lt.mp hc) with h1 | h1
  · have := hm _ _ (hT.pow10_pos y) h1
    rw [hT.log10_pow10, hT.log10_pow10] at this
    exact absurd h (not_lt.mpr (le_of_lt this))
  · have : T.log10 (T.pow10 y) = T.log10 (T.pow10 x) := by rw [h1]
    rw [hT.log10_pow10, hT.log10_pow10] at this
    exact absurd h (by rw [this]; exact lt_irrefl _)

theorem ofMag_strictAnti {T : Transc K} (hT : T.Lawful) (hm : LogMono T) {m1 m2 : K} (h : m1 < m2) :
    ofMag T m2 < ofMag T m1 := by
  unfold ofMag; apply pow10_strictMono hT hm; linarith

theorem toMag_strictAnti {T : Transc K} (hm : LogMono T) {x y m1 m2 : K} (h : x < y)
    (h1 : toMag T x = .ok m1) (h2 : toMag T y = .ok m2) : m2 < m1 := by
  obtain ⟨hx, rfl⟩ := toMag_ok h1
  obtain ⟨hy, rfl⟩ := toMag_ok h2
  have := hm x y hx h
  linarith

/-- a conversion between two different units that returns a value had both factors at hand -/
theorem convertOne_ok_factors {a b : FluxUnit K} (hab : a ≠ b) {f y : K}
    (h : convertOne P T s a b f = .ok y) :
    ∃ ka kb, unitFactor P s a = some ka ∧ unitFactor P s b = some kb := by
  unfold convertOne at h; rw [if_neg hab] at h
  cases hka : unitFactor P s a with
  | none => rw [(unitFactor_none (T := T) a hka f).1] at h; cases h
  | some ka =>
    cases hkb : unitFactor P s b with
    | none =>
      rw [toPhotlam_factor a hka f] at h
      have := (unitFactor_none (T := T) b hkb (linVal T a f * ka)).2
      rw [show (Except.ok (linVal T a f * ka) >>= ofPhotlam P T s b) = ofPhotlam P T s b (linVal T a f * ka) from rfl,
        this] at h
      cases h
    | some kb => exact ⟨ka, kb, rfl, rfl⟩


/-! ### count factors -/

/-- `f l[i] l[i+1]` over neighbouring pairs (`mids`, `absDiffs` are of this shape) -/
def adj (f : K → K → K) : List K → List K
  | a :: b :: t => f a b :: adj f (b :: t)
  | _ => []

theorem mids_eq_adj (l : List K) : mids l = adj (fun a b => (b + a) * (1/2)) l := by
  induction l with
  | nil => rfl
  | cons a t ih => cases t with
    | nil => rfl
    | cons b t => simp only [mids, adj, ih]

theorem absDiffs_eq_adj (l : List K) : absDiffs l = adj (fun a b => |b - a|) l := by
  induction l with
  | nil => rfl
  | cons a t ih => cases t with
    | nil => rfl
    | cons b t => simp only [absDiffs, adj, ih]

theorem adj_append_two (f : K → K → K) : ∀ (l : List K) (x y : K),
    adj f (l ++ [x, y]) = adj f (l ++ [x]) ++ [f x y] := by
  intro l
  induction l with
  | nil => intro x y; simp [adj]
  | cons a l ih =>
    intro x y
    cases l with
    | nil => simp [adj]
    | cons b l =>
      have := ih x y
      simp only [List.cons_append, adj] at this ⊢
      rw [this]

theorem adj_reverse (f : K → K → K) (hf : ∀ a b, f a b = f b a) (l : List K) :
    adj f l.reverse = (adj f l).reverse := by
  induction l with
  | nil => rfl
  | cons a t ih =>
    cases t with
    | nil => rfl
    | cons b t =>
      simp only [List.reverse_cons, List.append_assoc, List.cons_append, List.nil_append, adj] at ih ⊢
      rw [adj_append_two, ih, hf b a]

theorem adj_length (f : K → K → K) (l : List K) : (adj f l).length = l.length - 1 := by
  induction l with
  | nil => rfl
  | cons a t ih => cases t with
    | nil => rfl
    | cons b t => simp only [adj, List.length_cons, ih]; omega

theorem mids_reverse (l : List K) : mids l.reverse = (mids l).reverse := by
  rw [mids_eq_adj, mids_eq_adj]; exact adj_reverse _ (fun a b => by ring) l

theorem absDiffs_reverse (l : List K) : absDiffs l.reverse = (absDiffs l).reverse := by
  rw [absDiffs_eq_adj, absDiffs_eq_adj]; exact adj_reverse _ (fun a b => abs_sub_comm b a) l

theorem binEdges_eq (c : List K) (h : 2 ≤ c.length) :
    binEdges c = .ok ((2 * c.headD 0 - (mids c).headD 0) :: mids c ++
      [2 * c.getLastD 0 - (mids c).getLastD 0]) := by
  rcases c with _ | ⟨a, _ | ⟨b, t⟩⟩
  · simp at h
  · simp at h
  · simp only [binEdges, mids, List.headD_cons, List.getLastD_cons]

/-- the edges of the reversed centres are the reversed edges: the same bins -/
theorem binEdges_reverse (c : List K) : binEdges c.reverse = (binEdges c).map List.reverse := by
  by_cases h : 2 ≤ c.length
  · rw [binEdges_eq c h, binEdges_eq c.reverse (by simpa using h), mids_reverse]
    simp only [Except.map, List.reverse_cons, List.reverse_append, List.reverse_nil, List.nil_append,
      List.cons_append, List.append_assoc]
    have e1 : c.reverse.headD 0 = c.getLastD 0 := by
      rw [List.headD_eq_head?_getD, List.head?_reverse, List.getLastD_eq_getLast?]
    have e2 : c.reverse.getLastD 0 = c.headD 0 := by
      rw [List.headD_eq_head?_getD, List.getLastD_eq_getLast?, List.getLast?_reverse]
    have e3 : (mids c).reverse.headD 0 = (mids c).getLastD 0 := by
      rw [List.headD_eq_head?_getD, List.head?_reverse, List.getLastD_eq_getLast?]
    have e4 : (mids c).reverse.getLastD 0 = (mids c).headD 0 := by
      rw [List.headD_eq_head?_getD, List.getLastD_eq_getLast?, List.getLast?_reverse]
    rw [e1, e2, e3, e4]
  · rw [binEdges_short c (by omega), binEdges_short c.reverse (by simp; omega)]
    rfl

theorem binWidths_reverse (e : List K) : binWidths e.reverse = (binWidths e).map List.reverse := by
  unfold binWidths
  rw [List.length_reverse, absDiffs_reverse]
  split_ifs <;> rfl

theorem calcBinEdges_reverse (c : List K) : calcBinEdges c.reverse = (calcBinEdges c).map List.reverse := by
  unfold calcBinEdges
  rw [List.length_reverse, validate_reverse, binEdges_reverse]
  split_ifs
  · rfl
  · cases validateWavelengths c with
    | error e => rfl
    | ok u => cases binEdges c <;> rfl

theorem binEdges_length (c e : List K) (h : binEdges c = .ok e) : e.length = c.length + 1 := by
  have h2 := (binEdges_ok_iff c).mp ⟨e, h⟩
  rw [binEdges_eq c h2] at h
  injection h with h; subst h
  simp only [List.length_cons, List.length_append, List.length_nil, mids_eq_adj, adj_length]; omega

/-- what `countFactors` is when it returns a value -/
theorem countFactors_ok {w cf : List K} {area : K} (h : countFactors w area = .ok cf) :
    2 ≤ w.length ∧ validateWavelengths w = .ok () ∧
      ∃ e, binEdges w = .ok e ∧ cf = (absDiffs e).map (· * area) := by
  unfold countFactors calcBinEdges at h
  by_cases h2 : w.length < 2
  · rw [if_pos h2] at h; cases h
  · rw [if_neg h2] at h
    cases hv : validateWavelengths w with
    | error e => rw [hv] at h; cases h
    | ok u =>
      cases he : binEdges w with
      | error e => rw [hv, he] at h; cases h
      | ok e =>
        rw [hv, he] at h
        have hl := binEdges_length w e he
        have hbw : binWidths e = .ok (absDiffs e) := by
          unfold binWidths; rw [if_neg (by omega)]
        simp only [bind, Except.bind, hbw, pure, Except.pure] at h
        injection h with h
        exact ⟨by omega, rfl, e, rfl, h.symm⟩


/-! ### arrays -/

theorem head?_mem {α : Type} {l : List α} {x : α} (h : l.head? = some x) : x ∈ l := by
  cases l with
  | nil => cases h
  | cons a t => simp at h; subst h; simp

/-- every sample context built from positive wavelengths, count factors and Vega fluxes is positive -/
theorem mkSamples_pos : ∀ (w : List K) (cf vg : Option (List K)), (∀ x ∈ w, 0 < x) →
    (∀ l, cf = some l → ∀ x ∈ l, 0 < x) → (∀ l, vg = some l → ∀ x ∈ l, 0 < x) →
    ∀ s ∈ mkSamples w cf vg, s.Pos := by
  intro w
  induction w with
  | nil => intro cf vg _ _ _ s hs; simp [mkSamples] at hs
  | cons l ws ih =>
    intro cf vg hw hcf hvg s hs
    simp only [mkSamples, List.mem_cons] at hs
    rcases hs with rfl | hs
    · refine ⟨hw l (by simp), ?_, ?_⟩
      · intro x hx
        cases cf with
        | none => simp at hx
        | some c => exact hcf c rfl x (head?_mem (by simpa using hx))
      · intro x hx
        cases vg with
        | none => simp at hx
        | some c => exact hvg c rfl x (head?_mem (by simpa using hx))
    · refine ih (cf.map List.tail) (vg.map List.tail) (fun x hx => hw x (by simp [hx])) ?_ ?_ s hs
      · intro l' hl' x hx
        cases cf with
        | none => simp at hl'
        | some c =>
          simp only [Option.map_some, Option.some.injEq] at hl'; subst hl'
          exact hcf c rfl x (List.mem_of_mem_tail hx)
      · intro l' hl' x hx
        cases vg with
        | none => simp at hl'
        | some c =>
          simp only [Option.map_some, Option.some.injEq] at hl'; subst hl'
          exact hvg c rfl x (List.mem_of_mem_tail hx)

theorem mkSamples_length (w : List K) : ∀ (cf vg : Option (List K)), (mkSamples w cf vg).length = w.length := by
  induction w with
  | nil => intro cf vg; rfl
  | cons l ws ih => intro cf vg; simp only [mkSamples, List.length_cons, ih]

variable {P : PhysConst K} {T : Transc K}

theorem convertAll_cons_ok {a b : FluxUnit K} {s : Samp K} {ss : List (Samp K)} {x : K} {xs g : List K}
    (h : convertAll P T a b (s :: ss) (x :: xs) = .ok g) :
    ∃ y ys, convertOne P T s a b x = .ok y ∧ convertAll P T a b ss xs = .ok ys ∧ g = y :: ys := by
  simp only [convertAll] at h
  cases hy : convertOne P T s a b x with
  | error e => rw [hy] at h; cases h
  | ok y =>
    cases hys : convertAll P T a b ss xs with
    | error e => rw [hy, hys] at h; cases h
    | ok ys =>
      rw [hy, hys] at h
      exact ⟨y, ys, rfl, rfl, by injection h with h; exact h.symm⟩

theorem convertAll_cons_of {a b : FluxUnit K} {s : Samp K} {ss : List (Samp K)} {x y : K} {xs ys : List K}
    (h1 : convertOne P T s a b x = .ok y) (h2 : convertAll P T a b ss xs = .ok ys) :
    convertAll P T a b (s :: ss) (x :: xs) = .ok (y :: ys) := by
  simp only [convertAll, h1, h2, bind, Except.bind, pure, Except.pure]

theorem convertAll_nil_right (a b : FluxUnit K) (ss : List (Samp K)) :
    convertAll P T a b ss [] = .ok [] := by
  cases ss <;> rfl

theorem convertAll_nil_left (a b : FluxUnit K) (f : List K) :
    convertAll P T a b [] f = .ok [] := by
  cases f <;> rfl

/-- the result has one value per input value (the wavelengths covering them) -/
theorem convertAll_length {a b : FluxUnit K} : ∀ (ss : List (Samp K)) (f g : List K),
    f.length ≤ ss.length → convertAll P T a b ss f = .ok g → g.length = f.length := by
  intro ss
  induction ss with
  | nil =>
    intro f g hl h
    have : f = [] := List.length_eq_zero_iff.mp (by simpa using hl)
    subst this; rw [convertAll_nil_left] at h; injection h with h; subst h; rfl
  | cons s ss ih =>
    intro f g hl h
    cases f with
    | nil => rw [convertAll_nil_right] at h; injection h with h; subst h; rfl
    | cons x xs =>
      obtain ⟨y, ys, _, h2, rfl⟩ := convertAll_cons_ok h
      simp only [List.length_cons] at hl ⊢
      rw [ih xs ys (by omega) h2]

/-- element-wise statements lift to arrays: if `R x y` relates an input to its converted value at
every sample, the relation holds along the arrays -/
theorem convertAll_forall₂ {a b : FluxUnit K} (R : Samp K → K → K → Prop)
    (hR : ∀ s x y, convertOne P T s a b x = .ok y → R s x y) :
    ∀ (ss : List (Samp K)) (f g : List K), f.length ≤ ss.length → convertAll P T a b ss f = .ok g →
      List.Forall₂ (fun x y => ∃ s ∈ ss, R s x y) f g := by
  intro ss
  induction ss with
  | nil =>
    intro f g hl h
    have : f = [] := List.length_eq_zero_iff.mp (by simpa using hl)
    subst this; rw [convertAll_nil_left] at h; injection h with h; subst h; exact .nil
  | cons s ss ih =>
    intro f g hl h
    cases f with
    | nil => rw [convertAll_nil_right] at h; injection h with h; subst h; exact .nil
    | cons x xs =>
      obtain ⟨y, ys, h1, h2, rfl⟩ := convertAll_cons_ok h
      refine .cons ⟨s, by simp, hR s x y h1⟩ ?_
      have := ih xs ys (by simpa using hl) h2
      exact this.imp (fun _ _ ⟨s', hs', hr⟩ => ⟨s', by simp [hs'], hr⟩)

/-- a two-step statement lifted to arrays: if at every admissible sample `a→b` followed by `c→d`
is `e→f'`, the same holds along the arrays (used for the round trip and for path independence) -/
theorem convertAll_chain {a b c d e f' : FluxUnit K} (Q : Samp K → Prop)
    (step : ∀ s x y z, Q s → convertOne P T s a b x = .ok y → convertOne P T s c d y = .ok z →
      convertOne P T s e f' x = .ok z) :
    ∀ (ss : List (Samp K)) (f y z : List K), (∀ s ∈ ss, Q s) → convertAll P T a b ss f = .ok y →
      convertAll P T c d ss y = .ok z → convertAll P T e f' ss f = .ok z := by
  intro ss
  induction ss with
  | nil =>
    intro f y z _ h1 h2
    rw [convertAll_nil_left] at h1 h2 ⊢
    injection h2 with h2; subst h2; rfl
  | cons s ss ih =>
    intro f y z hQ h1 h2
    cases f with
    | nil =>
      rw [convertAll_nil_right] at h1; injection h1 with h1; subst h1
      rw [convertAll_nil_right] at h2 ⊢; exact h2
    | cons x xs =>
      obtain ⟨y0, ys, hy, hys, rfl⟩ := convertAll_cons_ok h1
      obtain ⟨z0, zs, hz, hzs, rfl⟩ := convertAll_cons_ok h2
      exact convertAll_cons_of (step s x y0 z0 (hQ s (by simp)) hy hz)
        (ih xs ys zs (fun s' hs' => hQ s' (by simp [hs'])) hys hzs)

/-- converting to the same unit element by element returns the values -/
theorem convertAll_same (a : FluxUnit K) : ∀ (ss : List (Samp K)) (f : List K), f.length ≤ ss.length →
    convertAll P T a a ss f = .ok f := by
  intro ss
  induction ss with
  | nil =>
    intro f hl
    have : f = [] := List.length_eq_zero_iff.mp (by simpa using hl)
    subst this; rfl
  | cons s ss ih =>
    intro f hl
    cases f with
    | nil => rfl
    | cons x xs =>
      exact convertAll_cons_of (by unfold convertOne; rw [if_pos rfl]) (ih xs (by simpa using hl))

/-- units that need no area never look at the count factor -/
theorem convertOne_cf_irrel (a b : FluxUnit K) (ha : a.needsArea = false) (hb : b.needsArea = false)
    (l : K) (c c' v : Option K) (f : K) :
    convertOne P T { lam := l, countFactor := c, vega := v } a b f =
      convertOne P T { lam := l, countFactor := c', vega := v } a b f := by
  unfold convertOne
  split_ifs
  · rfl
  · have h1 : toPhotlam P T { lam := l, countFactor := c, vega := v } a f =
        toPhotlam P T { lam := l, countFactor := c', vega := v } a f := by
      cases a <;> first | rfl | (simp [FluxUnit.needsArea] at ha)
    have h2 : ∀ p, ofPhotlam P T { lam := l, countFactor := c, vega := v } b p =
        ofPhotlam P T { lam := l, countFactor := c', vega := v } b p := by
      intro p
      cases b <;> first | rfl | (simp [FluxUnit.needsArea] at hb)
    rw [h1]
    cases toPhotlam P T { lam := l, countFactor := c', vega := v } a f with
    | error e => rfl
    | ok p => exact h2 p

theorem convertAll_cf_irrel (a b : FluxUnit K) (ha : a.needsArea = false) (hb : b.needsArea = false) :
    ∀ (w : List K) (cf cf' vg : Option (List K)) (f : List K),
      convertAll P T a b (mkSamples w cf vg) f = convertAll P T a b (mkSamples w cf' vg) f := by
  intro w
  induction w with
  | nil => intro cf cf' vg f; rfl
  | cons l ws ih =>
    intro cf cf' vg f
    cases f with
    | nil => simp only [mkSamples]; rw [convertAll_nil_right, convertAll_nil_right]
    | cons x xs =>
      simp only [mkSamples, convertAll]
      rw [convertOne_cf_irrel a b ha hb l (cf.bind List.head?) (cf'.bind List.head?) (vg.bind List.head?) x,
        ih (cf.map List.tail) (cf'.map List.tail) (vg.map List.tail) xs]

/-- the count factors `convert_flux` has at hand, case by case -/
theorem countFactorsFor_ok {w : List K} {a b : FluxUnit K} {area : Option K} {cf : Option (List K)}
    (h : countFactorsFor w a b area = .ok cf) :
    (cf = none ∧ ((a.needsArea = false ∧ b.needsArea = false) ∨ area = none)) ∨
    (∃ A l, area = some A ∧ (a.needsArea = true ∨ b.needsArea = true) ∧
      countFactors w A = .ok l ∧ cf = some l) := by
  unfold countFactorsFor at h
  by_cases hn : (a.needsArea || b.needsArea) = true
  · rw [if_pos hn] at h
    cases area with
    | none => left; injection h with h; exact ⟨h.symm, Or.inr rfl⟩
    | some A =>
      right
      replace h : Except.map some (countFactors w A) = Except.ok cf := h
      cases hc : countFactors w A with
      | error e => rw [hc] at h; cases h
      | ok l =>
        rw [hc] at h; injection h with h
        exact ⟨A, l, rfl, by simpa using hn, hc, h.symm⟩
  · rw [if_neg hn] at h
    left; injection h with h
    simp only [Bool.or_eq_true, not_or, Bool.not_eq_true] at hn
    exact ⟨h.symm, Or.inl hn⟩

theorem countFactorsFor_comm (w : List K) (a b : FluxUnit K) (area : Option K) :
    countFactorsFor w a b area = countFactorsFor w b a area := by
  unfold countFactorsFor; rw [Bool.or_comm]


/-! ### reversal of whole arrays -/

/-- element-wise characterisation of `convertAll` when there is one value per sample -/
theorem convertAll_iff_forall₂ (a b : FluxUnit K) : ∀ (ss : List (Samp K)) (f g : List K),
    f.length = ss.length →
    (convertAll P T a b ss f = .ok g ↔
      List.Forall₂ (fun (p : Samp K × K) y => convertOne P T p.1 a b p.2 = .ok y) (ss.zip f) g) := by
  intro ss
  induction ss with
  | nil =>
    intro f g hl
    have : f = [] := List.length_eq_zero_iff.mp (by simpa using hl)
    subst this
    simp only [List.zip_nil_right, List.forall₂_nil_left_iff, convertAll_nil_left]
    constructor
    · intro h; injection h with h; exact h.symm
    · intro h; rw [h]
  | cons s ss ih =>
    intro f g hl
    cases f with
    | nil => simp at hl
    | cons x xs =>
      simp only [List.length_cons, Nat.add_right_cancel_iff] at hl
      simp only [List.zip_cons_cons]
      constructor
      · intro h
        obtain ⟨y, ys, h1, h2, rfl⟩ := convertAll_cons_ok h
        exact .cons h1 ((ih xs ys hl).mp h2)
      · intro h
        cases h with
        | cons h1 h2 => exact convertAll_cons_of h1 ((ih xs _ hl).mpr h2)

/-- a column of per-sample optional data -/
def optCol (c : Option (List K)) (n : Nat) : List (Option K) :=
  match c with
  | none => List.replicate n none
  | some l => l.map some

theorem optCol_length (c : Option (List K)) (n : Nat) (h : ∀ l, c = some l → l.length = n) :
    (optCol c n).length = n := by
  cases c with
  | none => simp [optCol]
  | some l => simp [optCol, h l rfl]

theorem optCol_reverse (c : Option (List K)) (n : Nat) :
    optCol (c.map List.reverse) n = (optCol c n).reverse := by
  cases c with
  | none => simp [optCol]
  | some l => simp [optCol]

theorem mkSamples_eq_zipWith : ∀ (w : List K) (cf vg : Option (List K)),
    (∀ l, cf = some l → l.length = w.length) → (∀ l, vg = some l → l.length = w.length) →
    mkSamples w cf vg = List.zipWith (fun l (cv : Option K × Option K) =>
      ({ lam := l, countFactor := cv.1, vega := cv.2 } : Samp K)) w
        ((optCol cf w.length).zip (optCol vg w.length)) := by
  intro w
  induction w with
  | nil => intro cf vg _ _; rfl
  | cons x ws ih =>
    intro cf vg hcf hvg
    have hc : optCol cf (ws.length + 1) = cf.bind List.head? :: optCol (cf.map List.tail) ws.length ∧
        (∀ l, cf.map List.tail = some l → l.length = ws.length) := by
      cases cf with
      | none => exact ⟨by simp [optCol, List.replicate_succ], by intro l hl; simp at hl⟩
      | some c =>
        have := hcf c rfl
        cases c with
        | nil => simp at this
        | cons c0 cs =>
          refine ⟨by simp [optCol], ?_⟩
          intro l hl; simp at hl; subst hl; simpa using this
    have hv : optCol vg (ws.length + 1) = vg.bind List.head? :: optCol (vg.map List.tail) ws.length ∧
        (∀ l, vg.map List.tail = some l → l.length = ws.length) := by
      cases vg with
      | none => exact ⟨by simp [optCol, List.replicate_succ], by intro l hl; simp at hl⟩
      | some c =>
        have := hvg c rfl
        cases c with
        | nil => simp at this
        | cons c0 cs =>
          refine ⟨by simp [optCol], ?_⟩
          intro l hl; simp at hl; subst hl; simpa using this
    simp only [mkSamples, List.length_cons, hc.1, hv.1, List.zip_cons_cons, List.zipWith_cons_cons]
    rw [ih _ _ hc.2 hv.2]

/-- reversed wavelengths with reversed per-sample data: the reversed samples -/
theorem mkSamples_reverse (w : List K) (cf vg : Option (List K))
    (hcf : ∀ l, cf = some l → l.length = w.length) (hvg : ∀ l, vg = some l → l.length = w.length) :
    mkSamples w.reverse (cf.map List.reverse) (vg.map List.reverse) = (mkSamples w cf vg).reverse := by
  rw [mkSamples_eq_zipWith w cf vg hcf hvg, mkSamples_eq_zipWith w.reverse _ _
    (by intro l hl; cases cf with
        | none => simp at hl
        | some c => simp at hl; subst hl; simpa using hcf c rfl)
    (by intro l hl; cases vg with
        | none => simp at hl
        | some c => simp at hl; subst hl; simpa using hvg c rfl)]
  have l1 := optCol_length cf w.length hcf
  have l2 := optCol_length vg w.length hvg
  rw [List.length_reverse, optCol_reverse, optCol_reverse, List.zip_eq_zipWith, List.zip_eq_zipWith,
    ← List.reverse_zipWith (by rw [l1, l2]), ← List.reverse_zipWith (by simp [l1, l2])]

/-- order-equivariance of the count factors: reversed wavelengths, reversed factors (same bins),
and the same exception when there is one -/
theorem countFactors_rev (w : List K) (area : K) :
    countFactors w.reverse area = (countFactors w area).map List.reverse := by
  unfold countFactors
  rw [calcBinEdges_reverse]
  cases calcBinEdges w with
  | error e => rfl
  | ok e =>
    simp only [Except.map, bind, Except.bind]
    rw [binWidths_reverse]
    cases binWidths e with
    | error e' => rfl
    | ok bw => simp only [Except.map, pure, Except.pure, List.map_reverse]

theorem countFactorsFor_reverse (w : List K) (a b : FluxUnit K) (area : Option K) :
    countFactorsFor w.reverse a b area = (countFactorsFor w a b area).map (Option.map List.reverse) := by
  unfold countFactorsFor
  split_ifs
  · cases area with
    | none => rfl
    | some A =>
      show Except.map some (countFactors w.reverse A) =
        Except.map (Option.map List.reverse) (Except.map some (countFactors w A))
      rw [countFactors_rev]
      cases countFactors w A <;> rfl
  · rfl

/-! ### unit names -/

/-- the flux unit behind astropy's generic unit string (`validate_unit(..).to_string()`) -/
def fluxUnitOfId : String → Option (FluxUnit K)
  | "PHOTLAM" => some .photlam
  | "PHOTNU" => some .photnu
  | "FLAM" => some .flam
  | "FNU" => some .fnu
  | "Jy" => some (.jy 1)
  | "mag(ST)" => some .stmag
  | "mag(AB)" => some .abmag
  | "ct" => some .count
  | "mag(OB)" => some .obmag
  | "mag(VEGA)" => some .vegamag
  | _ => none

/-- the flux-unit names of the property text (and their `mag(..)` spellings) with the unit each denotes -/
def fluxNameTable : List (String × FluxUnit K) := [
  ("photlam", .photlam), ("photnu", .photnu), ("flam", .flam), ("fnu", .fnu), ("jy", .jy 1),
  ("stmag", .stmag), ("abmag", .abmag), ("obmag", .obmag), ("vegamag", .vegamag),
  ("mag(st)", .stmag), ("mag(ab)", .abmag), ("mag(ob)", .obmag), ("mag(vega)", .vegamag)]

/-- every key of the regenerated table maps to its own entry (no key is shadowed by an earlier one) -/
theorem unitNameTable_lookup_self :
    ∀ p ∈ Generated.unitNameTable, Generated.unitNameTable.lookup p.1 = some p.2 := by decide


/-! ### concrete data for the non-vacuity examples -/

/-- between two magnitude systems every magnitude converts -/
theorem mag_to_mag_defined {P : PhysConst K} {T : Transc K} {s : Samp K} (hP : P.Pos) (hT : T.Lawful)
    (hs : s.Pos) (a b : FluxUnit K) (ha : a.Pos) (hb : b.Pos) (ham : a.isMag = true)
    (hbm : b.isMag = true) {ka kb : K} (hka : unitFactor P s a = some ka)
    (hkb : unitFactor P s b = some kb) (m : K) : ∃ y, convertOne P T s a b m = .ok y := by
  have hr : 0 < ka / kb := div_pos (unitFactor_pos hP hs a ha hka) (unitFactor_pos hP hs b hb hkb)
  rw [convertOne_factor hP hT hs a b ha hb hka hkb m]
  simp only [hbm, if_true, linVal, ham]
  exact ⟨_, toMag_ofMag_mul hT m _ hr⟩

/-- the real `log10` is strictly increasing on the positive numbers -/
theorem logMono_real : LogMono Transc.real := by
  intro x y hx hxy
  exact Real.logb_lt_logb (by norm_num) hx hxy

/-- constants with simple values (`h = 1`, `c = 2`, zero points `1 = 10^0`, 1 Jy = 1/10 FNU) -/
noncomputable def exP : PhysConst ℝ := { h := 1, c := 2, stZero := 1, abZero := 1, jyFnu := 1/10 }
/-- a sample at wavelength 2 with count factor 3 and Vega flux 5 -/
noncomputable def exS : Samp ℝ := { lam := 2, countFactor := some 3, vega := some 5 }
/-- the same wavelength without area and Vega spectrum -/
noncomputable def exS0 : Samp ℝ := { lam := 2, countFactor := none, vega := none }

theorem exP_pos : exP.Pos := by constructor <;> norm_num [exP]

theorem exS_pos : exS.Pos := by
  refine ⟨by norm_num [exS], ?_, ?_⟩
  · intro w h; simp only [exS, Option.some.injEq] at h; subst h; norm_num
  · intro w h; simp only [exS, Option.some.injEq] at h; subst h; norm_num

theorem exP_stZero : exP.stZero = Transc.real.pow10 (-(2/5) * 0) := by
  simp [exP]

theorem exP_abZero : exP.abZero = Transc.real.pow10 (-(2/5) * 0) := by
  simp [exP]

/-- wavelengths 1, 2, 4 and area 2: edges 1/2, 3/2, 3, 5, widths 1, 3/2, 2, factors 2, 3, 4 -/
theorem exValid : validateWavelengths ([1, 2, 4] : List K) = .ok () := by
  rw [validate_ok_iff]
  refine ⟨by intro x hx; simp at hx; rcases hx with rfl | rfl | rfl <;> norm_num, Or.inl ?_⟩
  simp only [StrictAsc, and_true]; constructor <;> norm_num

theorem exCF : countFactors ([1, 2, 4] : List K) 2 = .ok [2, 3, 4] := by
  have he : binEdges ([1, 2, 4] : List K) = .ok [1/2, 3/2, 3, 5] := by
    simp only [binEdges, mids, List.getLastD_cons, List.cons_append, List.nil_append, List.getLastD_nil]
    norm_num
  have hw : binWidths ([1/2, 3/2, 3, 5] : List K) = .ok [1, 3/2, 2] := by
    simp only [binWidths, List.length_cons, List.length_nil, absDiffs]
    norm_num [abs_of_pos]
  unfold countFactors
  rw [calcBinEdges_eq _ _ exValid he]
  simp only [bind, Except.bind, hw, pure, Except.pure, List.map_cons, List.map_nil]
  norm_num

end Synphot.C01x
