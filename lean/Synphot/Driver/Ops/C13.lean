import Synphot.Driver.Objects
import Synphot.Core.GenWave

open Lean Synphot

namespace Synphot.Driver

def dispatchC13M (op : String) (j : Json) : M Json := do
  match op with
  | "expr_waveset" => do
      -- the `waveset` property of the object an expression program evaluates to
      let thr ← fRat j "thr"
      let r ← getField j "expr" >>= evalExpr
      match r with
      | .error e => pure (Json.mkObj [("err", Json.str e.name)])
      | .ok (.spec s) =>
          let w : Except Err (Option (List Rat)) := do
            let m ← s.model
            m.waveset thr
          pure (match w with
            | .error e => Json.mkObj [("err", Json.str e.name)]
            | .ok none => Json.mkObj [("ok", Json.null)]
            | .ok (some l) => Json.mkObj [("ok", jRats l)])
      | .ok _ => pure (Json.mkObj [("err", Json.str "TypeError")])
  | "gen_waves" => do
      let minw ← fRat j "min"
      let maxw ← fRat j "max"
      let num ← fNat j "num"
      let delta ← match fOpt j "delta" with
        | some v => (asRat v).map some
        | none => pure none
      let log ← fBool j "log"
      pure (Json.mkObj [("ok", jRats (generateWavelengths transcQ minw maxw num delta log))])
  | "arange" => do
      let a ← fRat j "start"
      let b ← fRat j "stop"
      let d ← fRat j "step"
      -- the exact quotient is reported so that the harness can recognise the rounding-dependent case
      pure (Json.mkObj [("ok", Json.mkObj [("pts", jRats (arange a b d)), ("quot", jRat ((b - a) / d))])])
  | "default_grid" => do
      -- the rule generating an analytic model's default sampling set; the exact quotient of the arange is
      -- reported so that the harness recognises the rounding-dependent length (DESIGN §1.2a)
      let kind ← fStr j "kind"
      let x0 ← fRat j "x0"
      let w ← fRat j "w"
      let (pts, quot) ← match kind with
        | "gaussian" => pure (gaussianGrid x0 w, (100 : Rat))
        | "lorentz" => pure (lorentzGrid x0 w, (1000 : Rat))
        | "ricker" => pure (rickerGrid x0 w, (200 : Rat))
        | "box" => do
            let st ← fRat j "step"
            pure (boxGrid x0 w st, (w + 3 * st) / st)
        | "trapezoid" => do
            let amp ← fRat j "amp"
            let sl ← fRat j "slope"
            pure (trapezoidGrid amp x0 w sl, (0 : Rat))
        | s => throw s!"unknown profile {s}"
      pure (Json.mkObj [("ok", Json.mkObj [("pts", jRats pts), ("quot", jRat quot)])])
  | _ => .error s!"unknown op {op}"

def dispatchC13 (op : String) (j : Json) : Option (M Json) :=
  if op ∈ ["expr_waveset", "gen_waves", "arange", "default_grid"] then some (dispatchC13M op j) else none

end Synphot.Driver
