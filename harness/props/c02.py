"""C02  Spectrum arithmetic is pointwise and typed exactly as documented."""
import itertools
import json
import math
from fractions import Fraction as F

from ..core import NP as np

from .. import core, objects as O
from ..core import q, qs, guarded, same, unq

OPS = ['add', 'sub', 'mul', 'div']
UNITLESS = {'unitless', 'bandpass', 'reddening', 'extcurve', 'thermal'}


# ------------------------------------------------------------------ implementation
def eval_nodes(d, xs, acc):
    """evaluate an expression bottom-up on the real objects; records (op, left samples, right samples,
    result samples) for every internal node so the pointwise oracle can look at all of them"""
    if 'prim' in d:
        obj = build_any(d)
        _LEAVES.append(obj)
        return obj
    if 'scalar' in d:
        return O.build_scalar(d)
    left = eval_nodes(d['l'], xs, acc)
    right = eval_nodes(d['r'], xs, acc)
    op = d['op']
    res = {'add': lambda: left + right, 'sub': lambda: left - right, 'mul': lambda: left * right,
           'div': lambda: left / right}[op]()
    acc.append((op, sample_any(left, xs), sample_any(right, xs), sample_any(res, xs)))
    return res


_LEAVES = []


def build_any(d):
    if d['prim'] == 'observation':
        from synphot import Observation
        kw = {'force': d['force']} if d.get('force') else {}
        return Observation(O.build_prim(d['src']), O.build_prim(d['band']),
                           binset=np.array([O.fl(x) for x in d['binset']]), **kw)
    return O.build_prim(d)


def sample_any(obj, xs):
    if hasattr(obj, 'model') and callable(obj):
        try:
            return np.asarray(obj(xs).value, dtype=float)
        except Exception as e:  # noqa
            return ('err', core.exc_name(e))
    import astropy.units as u
    if isinstance(obj, u.Quantity):
        return np.full(len(xs), float(obj.value)) if np.isscalar(obj.value) else None
    if isinstance(obj, (int, float, np.floating, np.integer, bool)):
        return np.full(len(xs), float(obj))
    return None


def impl_call(case):
    xs = np.array([O.fl(x) for x in case['xs']])
    acc = []

    after = {}

    def f():
        del _LEAVES[:]
        obj = eval_nodes(case['expr'], xs, acc)
        kind = O.kind_of(obj)
        out = {'kind': kind}
        if kind != 'scalar':
            v = sample_any(obj, xs)
            if isinstance(v, tuple):
                out['sample_err'] = v[1]
            else:
                out['vals'] = v
                # the result is an object of its own: moving an operand to another redshift afterwards must not move it
                moved = 0
                for leaf in (_LEAVES if 'op' in case['expr'] else []):
                    if type(leaf).__name__ == 'SourceSpectrum':
                        try:
                            leaf.z = float(leaf.z) * 2 + 1
                            moved += 1
                        except Exception:   # noqa
                            pass
                if moved:
                    w = sample_any(obj, xs)
                    after['moved'] = moved
                    after['same'] = (not isinstance(w, tuple)) and w is not None and np.array_equal(np.asarray(w), np.asarray(v), equal_nan=True)
        return out
    out = guarded(f)
    out['_after_operand_z'] = after
    # pointwise bookkeeping for the oracle (kept out of the comparison)
    nodes = []
    for op, a, b, r in acc:
        if any(isinstance(t, tuple) or t is None for t in (a, b, r)):
            continue
        nodes.append((op, a.tolist(), b.tolist(), r.tolist()))
    out['_nodes'] = nodes
    if case.get('commute'):
        def g():
            e = case['expr']
            obj = eval_nodes({'op': 'mul', 'l': e['r'], 'r': e['l']}, xs, [])
            return {'kind': O.kind_of(obj), 'vals': sample_any(obj, xs)}
        out['_swapped'] = guarded(g)
    return out


def model_view(e):
    """the expression as the model sees it: an observation built with force='taper' observes the tapered source
    (`src_model`, the table with its two tapering points), and is admitted without further ado"""
    if isinstance(e, dict):
        if e.get('prim') == 'observation' and 'src_model' in e:
            return {'prim': 'observation', 'src': e['src_model'], 'band': e['band'], 'binset': e['binset']}
        return {k: model_view(v) for k, v in e.items()}
    if isinstance(e, list):
        return [model_view(v) for v in e]
    return e


def model_case(case):
    return {'op': 'expr', 'const': case['const'], 'expr': model_view(case['expr']), 'xs': case['xs']}


def compare(case, o, m):
    o2 = {k: v for k, v in o.items() if not k.startswith('_')}
    if 'err' in o2 and o2['err'] == 'NaN' and 'ok' in m and 'sample_err' in m['ok']:
        return None
    if 'ok' in o2 and 'ok' in m and 'sample_err' in m['ok']:
        # the model refuses to sample (division by zero at a sampled wavelength): implementation yields inf/nan
        return None
    if o2.get('err') in ('PartialOverlap', 'DisjointError', 'ZeroWavelength') and 'observation' in json.dumps(case['expr']):
        return None     # admission of the rebuilt observation is C06's subject, not modelled here
    if o2.get('err') == 'ZeroDivisionError' and '"taper"' in json.dumps(case['expr']) and '"div"' in json.dumps(case['expr']):
        return None     # a sampled division by zero while tapering (the model refuses to sample there, too)
    # absolute floor: cancellation between operands of very different size is legitimate rounding
    mags = [abs(x) for x in (o2.get('ok', {}).get('vals') or []) if isinstance(x, float)]
    for _, a, b, r in o.get('_nodes', []):
        mags += [abs(x) for x in a + b if math.isfinite(x)]
    return same(o2, m, rtol=1e-9, atol=1e-12 * max(mags + [0.0]))


# ------------------------------------------------------------------ the documented table (oracle)
def operand_class(d):
    """class of an operand as the documentation words it"""
    if 'prim' in d:
        k = d['prim']
        return 'source' if k == 'source' else 'observation' if k == 'observation' else 'unitless:' + k
    if 'scalar' in d:
        c = d['scalar']
        if c in ('int', 'float', 'npfloat', 'npint', 'bool'):
            return 'number'
        if c == 'quantity':
            return 'quantity'
        return 'invalid:' + c
    return None


def static_kind(d):
    """result class of an expression according to the documented table; None = must raise"""
    if 'op' not in d:
        return operand_class(d)
    lk, rk = static_kind(d['l']), static_kind(d['r'])
    if lk is None or rk is None:
        return None
    op = d['op']
    scalar_r = rk in ('number', 'quantity')
    if lk == 'source':
        if op in ('add', 'sub'):
            return 'source' if rk == 'source' else None
        if op == 'mul':
            return 'source' if (rk.startswith('unitless') or scalar_r) else None
        if op == 'div':
            if rk == 'source':
                return 'unitless:unitless'
            return 'source' if (rk.startswith('unitless') or scalar_r) else None
    if lk.startswith('unitless'):
        if op in ('add', 'sub'):
            return None
        if op == 'mul':
            if rk == 'source':
                return 'source'
            return lk if (rk.startswith('unitless') or scalar_r) else None
        if op == 'div':
            return lk if (rk.startswith('unitless') or scalar_r) else None
    if lk == 'observation':
        if op == 'mul' and (rk.startswith('unitless') or scalar_r):
            return 'observation'
        return None
    if lk == 'number' and op == 'mul' and (rk == 'source' or rk.startswith('unitless') or rk == 'observation'):
        return rk       # a plain real number may stand on either side of x
    return 'undetermined' if lk in ('number', 'quantity') or lk.startswith('invalid') else None


def root_classes(d):
    if 'op' not in d:
        return None
    return static_kind(d['l']), d['op'], static_kind(d['r'])


def oracle(rep, case, out):
    e = case['expr']
    exp = static_kind(e)
    rc = root_classes(e)
    sig_cls = '%s %s %s' % (rc[0], rc[1], rc[2]) if rc else 'leaf'
    if exp == 'undetermined':
        return
    if exp is None:
        # an unlisted combination somewhere in the tree: must raise, never yield a spectrum
        if 'ok' in out and out['ok']['kind'] != 'scalar':
            rep.oracle_fail('typing:unlisted_yields_spectrum:%s' % sig_cls,
                            'unlisted combination returned a %s' % out['ok']['kind'], case, out)
        return
    want = exp.split(':')[-1]
    if 'err' in out:
        if out['err'] == 'NaN':
            return      # a sampled division by zero, not a typing matter
        if out['err'] in ('PartialOverlap', 'DisjointError', 'ZeroWavelength') and '"observation"' in json.dumps(case['expr']):
            return      # the (re)built observation is subject to the admission rules of C06 / the sampling-set rule of C13
        if out['err'] == 'ZeroDivisionError' and '"taper"' in json.dumps(case['expr']) and '"div"' in json.dumps(case['expr']):
            return      # tapering samples the product at its end points: a quotient by a spectrum that is zero there
        rep.oracle_fail('typing:listed_raises:%s:%s' % (sig_cls, out['err']),
                        'documented combination raised %s: %s' % (out['err'], out.get('msg', '')), case, out)
        return
    if out['ok']['kind'] != want:
        rep.oracle_fail('typing:wrong_kind:%s' % sig_cls, 'result is %s, table says %s' % (out['ok']['kind'], want), case, out)
    # pointwise semantics at every internal node
    for op, a, b, r in out.get('_nodes', []):
        for ai, bi, ri in zip(a, b, r):
            if not all(map(math.isfinite, (ai, bi, ri))):
                continue
            if op == 'div' and bi == 0:
                continue
            ex = {'add': ai + bi, 'sub': ai - bi, 'mul': ai * bi, 'div': ai / bi if bi else 0}[op]
            if abs(ri - ex) > 1e-9 * max(abs(ex), abs(ai), abs(bi) if op != 'div' else 0) + 1e-300:
                rep.oracle_fail('pointwise:%s' % op, '%r %s %r gave %r' % (ai, op, bi, ri), case, out)
                return
    af = out.get('_after_operand_z') or {}
    if af.get('moved') and not af.get('same'):
        rep.oracle_fail('frame:result_moved_with_operand_z:%s' % sig_cls,
                        'the result samples differently after %d of its source operands were assigned another redshift' % af['moved'], case, out)
    sw = out.get('_swapped')
    if sw is not None:
        if 'err' in sw or sw['ok']['kind'] != out['ok']['kind']:
            rep.oracle_fail('commute:%s' % sig_cls, 'swapped product: %s' % (sw.get('err') or sw['ok']['kind']), case, out)
        elif out['ok'].get('vals') is not None:
            for x, y in zip(out['ok']['vals'], sw['ok']['vals']):
                if abs(x - y) > 1e-12 * max(abs(x), abs(y)):
                    rep.oracle_fail('commute:value:%s' % sig_cls, 'a*b=%r, b*a=%r' % (x, y), case, out)
                    break


# ------------------------------------------------------------------ generators
def operand_pool(rng):
    """one representative of every operand kind the quantifier names"""
    src_emp = {'prim': 'source', 'leaf': O.gen_table_leaf(rng)}
    src_ana = {'prim': 'source', 'leaf': {'leaf': 'constflux', 'amp': '3/2', 'unit_name': 'flam'}}
    src_z = {'prim': 'source', 'leaf': O.gen_table_leaf(rng), 'z': '1/2'}
    src_zc = {'prim': 'source', 'leaf': O.gen_table_leaf(rng), 'z': '1', 'ztype': 'conserve_flux'}
    src_zc2 = {'prim': 'source', 'leaf': O.gen_table_leaf(rng), 'z': '1/2', 'ztype': 'conserve_flux'}
    src_comp = {'op': 'add', 'l': {'prim': 'source', 'leaf': O.gen_table_leaf(rng)}, 'r': dict(src_ana)}
    bp_box = {'prim': 'bandpass', 'leaf': {'leaf': 'box', 'amp': '1/2', 'x0': '5000', 'width': '1000', 'step': '125/2'}}
    bp_emp = {'prim': 'bandpass', 'leaf': O.gen_table_leaf(rng, nonneg=True, keep_neg=True)}
    red = O.gen_prim(rng, 'reddening')
    ext = O.gen_prim(rng, 'extcurve')
    th = O.gen_prim(rng, 'thermal')
    ul = {'op': 'div', 'l': dict(src_ana), 'r': {'prim': 'source', 'leaf': {'leaf': 'constflux', 'amp': '2', 'unit_name': 'photlam'}}}
    obs = {'prim': 'observation', 'src': dict(src_ana), 'band': dict(bp_box),
           'binset': qs([F(4400) + 50 * i for i in range(25)])}
    specs = [src_emp, src_ana, src_z, src_zc, src_zc2, src_comp, bp_box, bp_emp, red, ext, th, ul, obs]
    scalars = [{'scalar': c, 'v': v} for c, v in (('int', '2'), ('float', '3/2'), ('npfloat', '5/4'), ('npint', '3'),
                                                 ('bool', '1'), ('quantity', '3/2'))]
    scalars += [{'scalar': c} for c in O.INVALID_SCALARS]
    return specs, scalars


def gen_tree(rng, depth, want='source'):
    """a random well-typed-or-not expression"""
    if depth == 0 or rng.random() < 0.25:
        if want == 'source':
            return O.gen_prim(rng, 'source')
        if want == 'unitless':
            return O.gen_prim(rng, rng.choice(['bandpass', 'bandpass', 'reddening', 'extcurve']))
        if want == 'observation':
            return gen_obs_leaf(rng)
        return O.gen_scalar(rng, valid=rng.random() < 0.9)
    r = rng.random()
    if want == 'source':
        if r < 0.3:
            e = {'op': rng.choice(['add', 'sub']), 'l': gen_tree(rng, depth - 1, 'source'), 'r': gen_tree(rng, depth - 1, 'source')}
            if 'prim' in e['l'] and 'prim' in e['r'] and rng.random() < 0.5:
                # two operands at the same non-zero redshift, redshift types drawn independently
                z = rng.choice(['1/2', '1', '3', '1/8'])
                for side in ('l', 'r'):
                    e[side]['z'] = z
                    e[side]['ztype'] = rng.choice(['wavelength_only', 'conserve_flux'])
            return e
        if r < 0.6:
            return {'op': rng.choice(['mul', 'div']), 'l': gen_tree(rng, depth - 1, 'source'), 'r': gen_tree(rng, depth - 1, 'unitless')}
        if r < 0.85:
            return {'op': rng.choice(['mul', 'div']), 'l': gen_tree(rng, depth - 1, 'source'), 'r': gen_tree(rng, 0, 'scalar')}
        if r < 0.92:
            return {'op': 'mul', 'l': gen_tree(rng, depth - 1, 'unitless'), 'r': gen_tree(rng, depth - 1, 'source')}
        # ill-typed on purpose
        return {'op': rng.choice(OPS), 'l': gen_tree(rng, depth - 1, rng.choice(['source', 'unitless'])),
                'r': gen_tree(rng, depth - 1, rng.choice(['source', 'unitless', 'scalar']))}
    if want == 'unitless':
        if r < 0.4:
            return {'op': rng.choice(['mul', 'div']), 'l': gen_tree(rng, depth - 1, 'unitless'), 'r': gen_tree(rng, depth - 1, 'unitless')}
        if r < 0.7:
            return {'op': rng.choice(['mul', 'div']), 'l': gen_tree(rng, depth - 1, 'unitless'), 'r': gen_tree(rng, 0, 'scalar')}
        if r < 0.85:
            return {'op': 'div', 'l': gen_tree(rng, depth - 1, 'source'), 'r': gen_tree(rng, depth - 1, 'source')}
        return {'op': rng.choice(['add', 'sub']), 'l': gen_tree(rng, depth - 1, 'unitless'), 'r': gen_tree(rng, depth - 1, rng.choice(['unitless', 'source']))}
    if want == 'observation':
        if depth == 0 or r < 0.25:
            return gen_obs_leaf(rng)
        if r < 0.5:
            return {'op': 'mul', 'l': gen_tree(rng, depth - 1, 'observation'), 'r': gen_tree(rng, depth - 1, 'unitless')}
        if r < 0.8:
            return {'op': 'mul', 'l': gen_tree(rng, depth - 1, 'observation'), 'r': gen_tree(rng, 0, 'scalar')}
        if r < 0.92:
            num = O.gen_scalar(rng, valid=True)
            while num['scalar'] == 'quantity':      # a Quantity on the left is outside the statement
                num = O.gen_scalar(rng, valid=True)
            return {'op': 'mul', 'l': num, 'r': gen_tree(rng, depth - 1, 'observation')}
        return {'op': rng.choice(OPS), 'l': gen_tree(rng, depth - 1, 'observation'),
                'r': gen_tree(rng, depth - 1, rng.choice(['source', 'unitless', 'scalar', 'observation']))}
    return O.gen_scalar(rng)


def gen_obs_leaf(rng):
    """an observation operand: a source that covers its bandpass, on a uniform binset"""
    from . import c07
    if rng.random() < 0.35:
        # a table source covering only the middle of its bandpass, observed with force='taper': what is multiplied
        # later is the tapered source (zero beyond its two tapering points), sampled out there as well
        a1, width = O.dy(rng, 2000, 4000, 0), O.dy(rng, 2000, 5000, 0)
        band = {'prim': 'bandpass', 'leaf': {'leaf': 'box', 'amp': q(O.dy(rng, 0.125, 1, 3)), 'x0': q(a1 + width / 2), 'width': q(width),
                                             'step': q(width / 8)}}
        n = rng.randint(3, 6)
        pts = sorted({a1 + width * F(rng.randint(12, 52), 64) for _ in range(n)})
        if len(pts) >= 2:
            vals = [O.dy(rng, 0.25, 8, 3) for _ in pts]
            t1, t2 = F(float(pts[0]) ** 2 / float(pts[1])), F(float(pts[-1]) ** 2 / float(pts[-2]))
            src = {'prim': 'source', 'leaf': {'leaf': 'empirical', 'pts': qs(pts), 'vals': qs(vals), 'keep_neg': False}}
            src_model = {'prim': 'source', 'leaf': {'leaf': 'empirical', 'pts': qs([t1] + pts + [t2]), 'vals': qs([F(0)] + vals + [F(0)]),
                                                    'keep_neg': False}}
            step = width / 32
            return {'prim': 'observation', 'src': src, 'src_model': src_model, 'band': band, 'force': 'taper',
                    'binset': qs([a1 + width / 8 + i * step for i in range(25)])}
    src, band = c07.gen_pair(rng)
    if src['leaf']['leaf'] == 'empirical':     # tables must span the band to be admitted without force
        src = {'prim': 'source', 'leaf': {'leaf': 'constflux', 'amp': q(O.dy(rng, 0.25, 8, 3)), 'unit_name': rng.choice(['photlam', 'flam'])}}
    if band['leaf']['leaf'] == 'empirical' and all(unq(v) == 0 for v in band['leaf']['vals']):
        band['leaf']['vals'][0] = '1/2'        # an all-zero bandpass has no wavelength range to observe through (C06)
    lo, step = O.dy(rng, 3000, 5000, 1), O.dy(rng, 10, 100, 2)
    return {'prim': 'observation', 'src': src, 'band': band, 'binset': qs([lo + i * step for i in range(25)])}


def mk_case(rng, expr, K, n=8):
    expr = O.fill_ss(expr, with_ss=False)      # sampling sets play no role in arithmetic
    c = {'op': 'expr', 'const': K, 'expr': expr, 'xs': qs(O.sample_grid(rng, n))}
    if expr.get('op') == 'mul' and static_kind(expr) not in (None, 'undetermined') and 'observation' not in str(static_kind(expr)):
        lk, rk = static_kind(expr['l']), static_kind(expr['r'])
        if rk == 'number' or (lk == 'source' and rk.startswith('unitless')) or (lk.startswith('unitless') and rk.startswith('unitless')
                                                                                    and lk == rk):
            c['commute'] = True
    return c


def run(rep):
    thorough = rep.tier == 'thorough'
    rng = rep.rng('c02')
    K = O.consts()
    cases = [dict(c, const=K) for c in core.load_corpus('C02')]
    specs, scalars = operand_pool(rng)
    import copy
    for l in specs:
        for r in specs + scalars:
            for op in OPS:
                cases.append(mk_case(rng, {'op': op, 'l': copy.deepcopy(l), 'r': copy.deepcopy(r)}, K))
    for s in scalars[:5]:        # plain numbers only: a Quantity on the left is outside the statement
        for r in specs:
            cases.append(mk_case(rng, {'op': 'mul', 'l': copy.deepcopy(s), 'r': copy.deepcopy(r)}, K))
    # depth-2 products rooted in the observation: every (scalar, unitless) pair in every nesting
    obs = [x for x in specs if x.get('prim') == 'observation'][0]
    unitless = [x for x in specs if x.get('prim') in ('bandpass', 'reddening', 'extcurve')]
    for sc in scalars[:6]:
        for ul in unitless:
            o, s_, u_ = (copy.deepcopy(x) for x in (obs, sc, ul))
            cases.append(mk_case(rng, {'op': 'mul', 'l': {'op': 'mul', 'l': o, 'r': s_}, 'r': u_}, K))
            cases.append(mk_case(rng, {'op': 'mul', 'l': {'op': 'mul', 'l': copy.deepcopy(obs), 'r': copy.deepcopy(ul)}, 'r': copy.deepcopy(sc)}, K))
            if sc['scalar'] != 'quantity':
                cases.append(mk_case(rng, {'op': 'mul', 'l': {'op': 'mul', 'l': copy.deepcopy(sc), 'r': copy.deepcopy(obs)}, 'r': copy.deepcopy(ul)}, K))
    nmatrix = len(cases)
    depth = 6 if thorough else 4
    for _ in range(40000 if thorough else 1500):
        cases.append(mk_case(rng, gen_tree(rng, rng.randint(1, depth), rng.choice(['source', 'source', 'unitless', 'observation'])), K,
                             n=32 if thorough else 8))
    rep.extra['matrix_cases'] = nmatrix
    rep.rule = ('exhaustive matrix: 13 spectrum operands (empirical / analytic / redshifted / flux-conserving redshifted (two redshifts, one shared with the wavelength-only operand) / composite '
                'source; box and empirical bandpass; reddening law; extinction curve; thermal element; unitless ratio; observation) '
                'x (those + int, float, NumPy float/int, bool, dimensionless Quantity + 9 invalid operand classes) x 4 operators, '
                'plus plain numbers on the left of x; then random expression trees (rooted in a source, a unitless spectrum or an observation) of depth <= 4 (6), 8% ill-typed on purpose, '
                'sampled at 8 (32) wavelengths. Non-trivial: the expression has at least one operator and is not rejected for an invalid scalar.')

    def tags(c, o):
        rc = root_classes(c['expr'])
        return ['outcome:' + (o.get('err') or 'ok'), 'root_op:' + (rc[1] if rc else 'leaf')]

    def nontrivial(c, o):
        return 'op' in c['expr'] and 'invalid' not in str(root_classes(c['expr']))
    core.run_cases(rep, cases, impl_call, model_case, oracle, tags_fn=tags, nontrivial_fn=nontrivial, compare_fn=compare)
    rep.samples = [s if not isinstance(s, dict) else {k: v for k, v in s.items() if k != 'const'} for s in rep.samples]


def search(rep, mismatches):
    sub = core.Report(rep.pid, 'thorough', rep.seed + 1)
    rng = sub.rng('c02-search')
    K = O.consts()
    cases = [mk_case(rng, gen_tree(rng, rng.randint(1, 4), rng.choice(['source', 'unitless', 'observation'])), K) for _ in range(4000)]
    impl = core.pmap(impl_call, cases)
    for c, o in zip(cases, impl):
        oracle(sub, c, o)
    rep.notes.append('directed search after mismatch: %d cases, %d oracle failures' % (len(cases), len(sub.oracle_failures)))
    return sub.oracle_failures


def replay(rep, payload):
    core.run_cases(rep, [payload['case']], impl_call, model_case, oracle, compare_fn=compare)
