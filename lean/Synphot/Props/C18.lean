/-
  C18 — Bin geometry helpers are mutually inverse and fail only with OverlapError.
  Property theorems only; helper lemmas live in `Synphot/Lemmas/`.
-/
import Synphot.Lemmas.Binning

namespace Synphot.C18
open Synphot
variable {K : Type} [Field K] [LinearOrder K] [IsStrictOrderedRing K]

/-- centres recomputed from the edges reproduce the input (every length ≥ 2, any order, any values) -/
theorem centers_edges_inverse (c e : List K) (h : binEdges c = .ok e) : binCenters e = .ok c :=
  binCenters_binEdges c e h

end Synphot.C18
