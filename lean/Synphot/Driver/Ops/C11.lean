import Synphot.Driver.Objects
import Synphot.Core.Bandpar

open Lean Synphot Synphot.Bandpar

namespace Synphot.Driver

/-- all 14 bandpass parameters of the object an expression program evaluates to, sampled on an
explicit grid (Angstrom, caller's order) or on its own `waveset` -/
def dispatchC11M (op : String) (j : Json) : M Json := do
  match op with
  | "bandpar" => do
      let E ← envOf j
      let thr ← fRat j "thr"
      let r ← getField j "expr" >>= evalExpr
      let grid ← optRatsF j "grid"
      let threshold ← match fOpt j "threshold" with
        | some v => (asRat v).map some
        | none => pure none
      let area ← fRat j "area"
      let au ← match ← fStr j "area_unit" with
        | "cm2" => pure AreaUnit.cm2
        | "m2" => pure AreaUnit.m2
        | s => throw s!"unknown area unit {s}"
      match r with
      | .error e => pure (Json.mkObj [("err", Json.str e.name)])
      | .ok (.spec s) =>
          let samp : Except Err (Tree Rat × List (Rat × Rat)) := do
            let m ← s.model
            let xs ← match grid with
              | some g => do
                  validateWavelengths g
                  pure g
              | none => do
                  match ← m.waveset thr with
                  | none => .error .synphotError
                  | some w => pure w
            let l ← sampleTree E m xs
            pure (m, l)
          match samp with
          | .error e => pure (Json.mkObj [("err", Json.str e.name)])
          | .ok (m, l) =>
              let T := E.T
              let hc := E.P.h * E.P.c
              let a := au.toCm2 area
              let f := m.eval E
              let num (v : Rat) : Json := Json.mkObj [("ok", jRat v)]
              let tp := tpeak l
              -- samples whose value is within 1e-12 of the peak / exactly on the threshold: the
              -- harness uses them to recognise decisions that binary64 rounding may take differently
              let ties := (l.filter fun p => decide (|p.2 - tp| ≤ |tp| / 1000000000000)).map (·.1)
              let thrTie : Bool := match threshold with
                | some t => l.any fun p => decide (p.2 = t)
                | none => false
              let thrMargin : Json := match threshold with
                | some t =>
                    match (l.filter fun p => decide (p.2 ≠ t)).map (fun p => |p.2 - t|) with
                    | [] => Json.null
                    | d :: ds => jRat (ds.foldl min d)
                | none => Json.null
              -- variation of the bandpass over a 1e-13 (relative) neighbourhood of the exact average
              -- wavelength: binary64 places avgwave anywhere in there, so at a jump of the bandpass
              -- (box edge, end of a table) `tlambda` is not determined by the real-number model
              let av := avgwave l
              let eps : Rat := 1 / 10000000000000
              let tlSpread : Json :=
                match f (av * (1 - eps)), f av, f (av * (1 + eps)) with
                | .ok a, .ok b, .ok c => jRat (max a (max b c) - min a (min b c))
                | _, _, _ => Json.null
              let rw := rmswidth T l none
              let pb := photbw T l none
              let pbThr := match threshold with
                | none => pb
                | some _ => photbw T l threshold
              pure (Json.mkObj [("ok", Json.mkObj [
                ("n", Json.num (l.length : Nat)),
                ("tl_spread", tlSpread),
                ("avgwave", num (avgwave l)),
                ("barlam", num (barlam T l)),
                ("pivot", num (pivot T l)),
                ("unit_response", outcome jRat (unitResponse hc a l)),
                ("rmswidth", num rw),
                ("rmswidth_thr", num (match threshold with
                  | none => rw
                  | some _ => rmswidth T l threshold)),
                ("photbw", num pb),
                ("photbw_thr", num pbThr),
                -- `fwhm T l thr = T.sqrt (8 * T.ln 2) * photbw T l thr` by definition (C11.fwhm_photbw)
                ("fwhm", num (T.sqrt (8 * T.ln 2) * pb)),
                ("fwhm_thr", num (T.sqrt (8 * T.ln 2) * pbThr)),
                ("tlambda", outcome jRat (tlambda f l)),
                ("tpeak", outcome jRat (checked .valueError l tp)),
                ("wpeak", outcome jRat (checked .valueError l (wpeak l))),
                ("equivwidth", num (equivwidth l)),
                ("rectwidth", outcome jRat (checked .valueError l (rectwidth l))),
                ("efficiency", num (efficiency l)),
                ("emflx", outcome jRat (emflx f hc a l)),
                ("wpeak_ties", jRats ties),
                ("thr_tie", Json.bool thrTie),
                ("thr_margin", thrMargin)])])
      | .ok _ => pure (Json.mkObj [("err", Json.str "TypeError")])
  | _ => .error s!"unknown op {op}"

def dispatchC11 (op : String) (j : Json) : Option (M Json) :=
  if op ∈ ["bandpar"] then some (dispatchC11M op j) else none

end Synphot.Driver
