"""C17  Extinction curves are 10^(-0.4 R E) and compose additively in E(B-V); the Madau curve."""
import math
import warnings
from fractions import Fraction as F

from ..core import NP as np

from .. import core
from ..core import q, qs, guarded, same, unq

THR = F(1, 10 ** 12)          # merge_wavelengths default threshold

# the published prescription (Madau 1995, footnote 3, as used by BPZ), retyped here for the oracle
LY_LINES = [(1216.0, 3.6e-3), (1026.0, 1.7e-3), (973.0, 1.2e-3), (950.0, 9.3e-4)]
LY_LIMIT = 912.0


def fl(x):
    return float(unq(x))


# ------------------------------------------------------------------ building the Python objects
class Owned:
    """the caller-owned containers handed to the implementation in one case.  After the measured call has returned
    the harness overwrites every one of them in place (`scramble`), as a caller reusing its buffers would; only then
    is the returned object read, at wavelengths kept in separate copies.  (The arrays a SourceSpectrum / ReddeningLaw
    was *constructed* from are the operand itself on the current code - Empirical1D keeps them - so the source's
    table arrays are not scrambled; the law's are, because the law is not read again.)"""

    def __init__(self):
        self.items = []

    def ndarray(self, vals):
        a = np.array(vals, dtype=float)
        self.items.append(a)
        return a

    def quantity(self, vals, unit):
        import astropy.units as u
        a = np.array(vals, dtype=float)
        self.items.append(a)
        return u.Quantity(a, unit, copy=False)      # a view of `a`: scrambling `a` scrambles the Quantity

    def list(self, vals):
        lst = list(vals)
        self.items.append(lst)
        return lst

    def keep(self, obj):
        self.items.append(obj)
        return obj

    def scramble(self, how='scale'):
        import astropy.units as u
        for it in self.items:
            try:
                if isinstance(it, u.Quantity):          # scalar E(B-V) Quantity
                    it *= 2.0
                elif isinstance(it, np.ndarray):
                    if how == 'reverse' and it.size > 1:
                        it[:] = it[::-1].copy()
                    elif how == 'shift':
                        it += 7.25
                    else:
                        it *= 1.5
                elif isinstance(it, list):
                    if how == 'reverse' and len(it) > 1:
                        it[:] = it[::-1]
                    elif how == 'shift':
                        it[:] = [x + 7.25 for x in it]
                    else:
                        it[:] = [x * 1.5 for x in it]
            except Exception:   # noqa  (an object that refuses in-place change is simply left alone)
                pass


def mut_of(case):
    for k in ('wave',):
        w = case.get(k)
        if isinstance(w, dict) and w.get('mut'):
            return w['mut']
    return 'scale'


def law_kwargs(d):
    """non-default Empirical1D options a law may be built with"""
    o = d.get('opts') or {}
    kw = {}
    if o.get('method'):
        kw['method'] = o['method']
    if o.get('fill') is not None:
        kw['fill_value'] = None if o['fill'] == 'none' else float('nan') if o['fill'] == 'nan' else fl(o['fill'])
    if o.get('bounds_error'):
        kw['bounds_error'] = True
    return kw


def make_law(d, own=None):
    from synphot.models import Empirical1D
    from synphot.reddening import ReddeningLaw
    own = own if own is not None else Owned()
    return ReddeningLaw(Empirical1D, points=own.ndarray([fl(x) for x in d['pts']]),
                        lookup_table=own.ndarray([fl(x) for x in d['vals']]), keep_neg=d['keep_neg'],
                        **law_kwargs(d))


def law_values(law, at):
    """R(lambda) as the law object itself returns it (None if it cannot be sampled there)"""
    try:
        with warnings.catch_warnings():
            warnings.simplefilter('ignore')
            r = law(np.array(at, dtype=float)).value
        r = np.atleast_1d(r).astype(float).tolist()
        return r if all(math.isfinite(x) for x in r) else None
    except Exception:   # noqa
        return None


def make_ebv(d, own=None):
    import astropy.units as u
    own = own if own is not None else Owned()
    py = d['py']
    v = fl(d['v']) if d.get('v') is not None else None
    if py == 'float':
        return v
    if py == 'int':
        return int(v)
    if py == 'np.float64':
        return np.float64(v)
    if py == 'np.float32':
        return np.float32(v)
    if py == 'mag':
        return own.keep(v * u.mag)
    if py == 'Magnitude':
        return own.keep(u.Magnitude(v))
    if py == 'str':
        return '0.3'
    if py == 'None':
        return None
    if py == 'complex':
        return complex(0.3, 0.0)
    if py == 'list':
        return [0.3]
    if py == 'ndarray0':
        return np.array(0.3)
    if py == 'AA':
        return 0.3 * u.AA
    if py == 'dimensionless':
        return 0.3 * u.dimensionless_unscaled
    if py == 'mmag':
        return 300.0 * u.mmag
    if py == 'ABmag':
        return 0.3 * u.ABmag
    raise KeyError(py)


WAVE_UNITS = {'AA': 1.0, 'nm': 10.0, 'micron': 1.0e4}


def make_wave(d, own=None):
    """wavelengths argument of extinction_curve"""
    own = own if own is not None else Owned()
    if d is None:
        return None
    if 'scalar' in d:
        return fl(d['scalar'])
    c = d.get('py', 'ndarray')
    v = [fl(x) for x in (d['raw'] if c in ('nm', 'micron') else d['arr'])]
    if c == 'list':
        return own.list(v)
    if c in WAVE_UNITS:
        return own.quantity(v, c)
    return own.ndarray(v)


def make_prim_source(d, with_z=True):
    from synphot import SourceSpectrum
    from synphot.models import Empirical1D, ConstFlux1D, GaussianFlux1D, PowerLawFlux1D, BlackBodyNorm1D
    kw = {}
    if with_z and d.get('z') is not None and d.get('zhow', 'ctor') == 'ctor':
        kw = {'z': fl(d['z']), 'z_type': d.get('ztype', 'wavelength_only')}
    k = d['kind']
    if k == 'table':
        return SourceSpectrum(Empirical1D, points=np.array([fl(x) for x in d['pts']]),
                              lookup_table=np.array([fl(x) for x in d['vals']]), keep_neg=d['keep_neg'], **kw)
    if k == 'const':
        return SourceSpectrum(ConstFlux1D, amplitude=fl(d['amp']), **kw)
    if k == 'gauss':
        return SourceSpectrum(GaussianFlux1D, mean=fl(d['mean']), fwhm=fl(d['fwhm']), total_flux=fl(d['total']), **kw)
    if k == 'powerlaw':
        return SourceSpectrum(PowerLawFlux1D, amplitude=fl(d['amp']), x_0=fl(d['x0']), alpha=fl(d['alpha']), **kw)
    if k == 'blackbody':
        return SourceSpectrum(BlackBodyNorm1D, temperature=fl(d['temp']), **kw)
    raise KeyError(k)


def make_source(d, with_z=True):
    """everything a caller can hand in as a source: primitives (z in the constructor or assigned afterwards, either
    z_type), a scaled source, a sum; a composite may be given a redshift of its own (assignment)"""
    k = d['kind']
    if k == 'scaled':
        sp = make_source(d['base'], with_z) * fl(d['k'])
    elif k == 'sum':
        sp = make_source(d['a'], with_z) + make_source(d['b'], with_z)
    else:
        sp = make_prim_source(d, with_z)
    if with_z and d.get('z') is not None and (k in ('scaled', 'sum') or d.get('zhow') != 'ctor'):
        zt = d.get('ztype', 'wavelength_only')
        if d.get('zhow') == 'assign_z_first':
            sp.z = fl(d['z'])
            sp.z_type = zt
        else:
            sp.z_type = zt
            sp.z = fl(d['z'])
    return sp


def make_madau_wave(d, own=None):
    import astropy.units as u
    own = own if own is not None else Owned()
    k = d['py']
    if k == 'scalar':
        return 1000.0
    if k == 'zero_dim':
        return np.array(1000.0)
    if k == 'scalar_quantity':
        return 1000.0 * u.AA
    if k == 'Hz':
        return np.linspace(1.0, 2.0, d['n']) * 1e15 * u.Hz
    if k == 'sec':
        return np.linspace(1.0, 2.0, d['n']) * u.s
    v = [fl(x) for x in d['raw']]
    if k == 'list':
        return own.list(v)
    if k == 'tuple':
        return tuple(v)
    if k == 'ndarray':
        return own.ndarray(v)
    if k in ('AA', 'nm'):
        return own.quantity(v, k)
    raise KeyError(k)


def make_z(d):
    import astropy.units as u
    py = d['py']
    if py == 'float':
        return fl(d['v'])
    if py == 'int':
        return int(fl(d['v']))
    if py == 'np.float64':
        return np.float64(fl(d['v']))
    if py == 'np.int32':
        return np.int32(int(fl(d['v'])))
    if py == 'str':
        return '1'
    if py == 'None':
        return None
    if py == 'complex':
        return 1j
    if py == 'quantity':
        return 1.0 * u.dimensionless_unscaled
    if py == 'ndarray0':
        return np.array(1.0)
    if py == 'list':
        return [1]
    raise KeyError(py)


# ------------------------------------------------------------------ implementation calls
def curve_outcome(curve, at):
    out = {'pts': np.squeeze(curve.model.points).tolist(), 'vals': np.asarray(curve.model.lookup_table).tolist()}
    if at:
        out['at'] = curve(np.array(at)).value.tolist()
    else:
        out['at'] = []
    return out


def impl_call(case):
    op = case['op']
    own = Owned()
    how = mut_of(case)
    if op == 'ext_curve':
        def f():
            law = make_law(case['law'], own)
            for pr in case.get('prior', []):
                # what the same law object was used for before must not matter: results discarded
                try:
                    law.extinction_curve(make_ebv(pr['ebv'], own), wavelengths=make_wave(pr['wave'], own))
                except Exception:   # noqa
                    pass
            c = law.extinction_curve(make_ebv(case['ebv'], own), wavelengths=make_wave(case['wave'], own))
            law_at = law_values(law, [fl(x) for x in case['at']]) if case['at'] else None
            own.scramble(how)       # the caller reuses its buffers; the curve is read only now
            out = curve_outcome(c, [fl(x) for x in case['at']])
            out['law_at'] = law_at
            out['cls'] = type(c).__name__
            out['sampleset_none'] = c.model.sampleset() is None
            return out
        return guarded(f)
    if op == 'ext_pair':
        def f():
            import astropy.units as u
            law = make_law(case['law'], own)
            a, b = fl(case['a']), fl(case['b'])
            w = make_wave(case['wave'], own)
            at = np.array([fl(x) for x in case['at']])
            ea, eb, eab, ena = a, b, a + b, -a
            if case.get('as_mag'):
                ea, eb, eab, ena = [own.keep(e * u.mag) for e in (ea, eb, eab, ena)]
            ca = law.extinction_curve(ea, wavelengths=w)
            cb = law.extinction_curve(eb, wavelengths=w)
            cab = law.extinction_curve(eab, wavelengths=w)
            cna = law.extinction_curve(ena, wavelengths=w)
            own.scramble(how)
            return {'prod': (ca * cb)(at).value.tolist(), 'sum': cab(at).value.tolist(),
                    'undo': (ca * cna)(at).value.tolist()}
        return guarded(f)
    if op == 'ext_apply':
        def f():
            src = make_source(case['src'])
            if case.get('madau') is not None:
                from synphot.reddening import etau_madau
                c = etau_madau(make_madau_wave(case['madau']['wave'], own), make_z(case['madau']['z']))
            else:
                law = make_law(case['law'], own)
                c = law.extinction_curve(make_ebv(case['ebv'], own), wavelengths=make_wave(case['wave'], own))
            sp = c * src if case.get('curve_first') else src * c
            own.scramble(how)
            at = np.array([fl(x) for x in case['at']])
            ws, ws0 = sp.waveset, src.waveset
            out = {'vals': sp(at).value.tolist(), 'src': src(at).value.tolist(), 'curve': c(at).value.tolist(),
                   'waveset': None if ws is None else ws.value.tolist(),
                   'src_waveset': None if ws0 is None else ws0.value.tolist(),
                   'cls': type(sp).__name__}
            if case['src'].get('z') is not None and case['src']['kind'] not in ('scaled', 'sum'):
                rest = make_source(case['src'], with_z=False).waveset       # the same source without redshift
                out['rest_waveset'] = None if rest is None else rest.value.tolist()
            return out
        return guarded(f)
    if op == 'madau':
        def f():
            from synphot.reddening import etau_madau
            c = etau_madau(make_madau_wave(case['wave'], own), make_z(case['z']))
            own.scramble(how)
            tab = np.asarray(c.model.lookup_table)
            if np.iscomplexobj(tab):
                return float('nan')       # not a real-valued curve (negative Python float ** fractional)
            out = curve_outcome(c, [fl(x) for x in case['at']])
            out['cls'] = type(c).__name__
            out['sampleset_none'] = c.model.sampleset() is None
            return out
        return guarded(f)
    raise KeyError(op)


# ------------------------------------------------------------------ model lines
def model_law(case):
    """the law description for the model.  A law built with non-default Empirical1D options (other interpolation
    method, fill value, bounds_error) is not a `Core/Interp` table: the model is then given, as data, the R values the
    law object returns at the sampling grid (a table whose knots are the grid itself); requests that fail before the
    law is sampled use the plain description."""
    law = case['law']
    if not law.get('opts'):
        return law
    w = case.get('wave')
    if case.get('madau') is not None:
        return {k: v for k, v in law.items() if k != 'opts'}
    grid = grid_of(case)
    ebv_ok = case.get('ebv', {'kind': 'real'})['kind'] in ('real', 'mag')
    if not ebv_ok or wave_error_class(grid) is not None or len(grid) < 2 or (w is not None and 'scalar' in w):
        return {k: v for k, v in law.items() if k != 'opts'}
    r = case.get('_law_R')
    if r is None:
        return None
    return {'pts': qs(grid), 'vals': r, 'keep_neg': True}


def attach_law_values(cases):
    """data for the model: R at the sampling grid from the implementation's own law object"""
    for c in cases:
        if isinstance(c, dict) and c.get('op') in ('ext_curve', 'ext_pair', 'ext_apply') and \
                (c.get('law') or {}).get('opts') and c.get('madau') is None:
            c.pop('_law_R', None)
            grid = grid_of(c)
            if wave_error_class(grid) is None and len(grid) >= 2:
                try:
                    r = law_values(make_law(c['law']), grid)
                except Exception:   # noqa
                    r = None
                # (a spline law may overshoot wildly between its knots: beyond |R| = 60 the curve leaves the binary64
                # range for |E| <= 5, and nothing is claimed)
                if r is not None and max(abs(x) for x in r) <= 60:
                    c['_law_R'] = qs(r)


def model_case(case):
    op = case['op']
    if op in ('ext_curve', 'ext_pair', 'ext_apply'):
        ml = model_law(case)
        if ml is None:
            return None
    if op == 'ext_curve':
        return {'op': op, 'law': ml, 'ebv': {'kind': case['ebv']['kind'], 'v': case['ebv'].get('v')},
                'wave': model_wave(case['wave']), 'at': case['at']}
    if op == 'ext_pair':
        return {'op': op, 'law': ml, 'a': case['a'], 'b': case['b'], 'wave': model_wave(case['wave']),
                'at': case['at']}
    if op == 'ext_apply':
        src = case['src']
        if src['kind'] not in ('table', 'const') or case.get('madau') is not None:
            return None         # analytic / composite sources and the Madau application: oracle only
        ms = {k: v for k, v in src.items() if k not in ('zhow',)}
        return {'op': op, 'src': ms, 'law': ml,
                'ebv': {'kind': case['ebv']['kind'], 'v': case['ebv'].get('v')},
                'wave': model_wave(case['wave']), 'thr': q(THR), 'at': case['at']}
    if op == 'madau':
        w = case['wave']
        mw = {'kind': w['kind']}
        if w['kind'] == 'bad_unit':
            mw['n'] = w['n']
        if w['kind'] == 'arr':
            mw['w'] = w['aa']
        z = case['z']
        return {'op': op, 'wave': mw, 'z': {'kind': z['kind'], 'v': z.get('v')}, 'at': case['at']}
    raise KeyError(op)


def model_wave(d):
    if d is None:
        return None
    if 'scalar' in d:
        return {'scalar': d['scalar']}
    return {'arr': d['arr']}


# ------------------------------------------------------------------ independent references (oracle side)
def law_reference(law, w):
    """R(lambda) of an Empirical1D law, computed with np.interp: ascending order, negative entries zeroed unless
    keep_neg, nearest-end extrapolation unless both end values are zero"""
    x = np.array([fl(v) for v in law['pts']])
    y = np.array([fl(v) for v in law['vals']])
    if x[-1] < x[0]:
        x, y = x[::-1], y[::-1]
    if not law['keep_neg']:
        y = np.where(y < 0, 0.0, y)
    w = np.asarray(w, dtype=float)
    r = np.interp(w, x, y)
    if y[0] == 0 and y[-1] == 0:
        r = np.where((w < x[0]) | (w > x[-1]), 0.0, r)
    if not law['keep_neg']:
        r = np.where(r < 0, 0.0, r)
    return r


def wave_error_class(v):
    """what validate_wavelengths must raise on the numbers v (None: valid)"""
    if any(x <= 0 for x in v):
        return 'ZeroWavelength'
    asc = all(v[i] <= v[i + 1] for i in range(len(v) - 1))
    desc = all(v[i] >= v[i + 1] for i in range(len(v) - 1))
    if not (asc or desc):
        return 'UnsortedWavelength'
    if any(v[i] == v[i + 1] for i in range(len(v) - 1)):
        return 'DuplicateWavelength'
    return None


def grid_of(case):
    w = case['wave']
    if w is None:
        x = [fl(v) for v in case['law']['pts']]
        return x
    if 'scalar' in w:
        return [fl(w['scalar'])]
    return [fl(v) for v in w['arr']]


def tau_reference(w, z):
    """the published optical depth; every edge test `lambda <= line (1+z)` is decided in exact arithmetic on the
    binary64 values of lambda and z (the statement is one about real numbers)"""
    xe = 1.0 + z
    xq = 1 + F(z)
    wq = F(w)
    tau = 0.0
    for el, c in LY_LINES:
        if wq <= F(el) * xq:
            tau += c * math.pow(w / el, 3.46)
    if wq <= F(LY_LIMIT) * xq:
        xc = w / LY_LIMIT
        tau += (0.25 * xc ** 3 * (math.pow(xe, 0.46) - math.pow(xc, 0.46))
                + 9.4 * math.pow(xc, 1.5) * (math.pow(xe, 0.18) - math.pow(xc, 0.18))
                - 0.7 * xc ** 3 * (math.pow(xc, -1.32) - math.pow(xe, -1.32))
                - 0.023 * (math.pow(xe, 1.68) - math.pow(xc, 1.68)))
    return tau


def edge_points(zv):
    """for every series line and the Lyman limit: the binary64 numbers 1, 2, 3, 8 steps above e = fl(line x fl(1+z))
    that are also strictly above the exact product line x (1+z), and 1, 2, 3, 8 steps below e that are also strictly
    below it.  On these points the verdict of `lambda <= line (1+z)` does not depend on how the product was rounded."""
    out = []
    xe = 1.0 + zv
    if xe <= 0:
        return out
    for el in (1216.0, 1026.0, 973.0, 950.0, 912.0):
        e = el * xe
        exact = F(el) * (1 + F(zv))
        for n in (1, 2, 3, 8):
            up = math.nextafter(e, math.inf, steps=n)
            dn = math.nextafter(e, -math.inf, steps=n)
            if F(up) > exact:
                out.append(up)
            if F(dn) < exact:
                out.append(dn)
    return out


# ------------------------------------------------------------------ oracles (implementation alone)
def law_class(law):
    o = law.get('opts') or {}
    if not o:
        return 'default'
    return 'method=%s,fill=%s,bounds_error=%s' % (o.get('method') or 'linear',
                                                   'number' if o.get('fill') not in (None, 'nan', 'none') else o.get('fill'),
                                                   bool(o.get('bounds_error')))


def oracle_ext_curve(rep, case, out):
    ebv = case['ebv']
    if ebv['kind'] in ('other_quantity', 'not_real'):
        if out.get('err') != 'SynphotError':
            rep.oracle_fail('ext_curve:invalid_ebv(%s):%s' % (ebv['py'], out.get('err', 'returned')),
                            'an E(B-V) that is neither a real number nor a mag Quantity must raise SynphotError',
                            case, out)
        return
    grid = grid_of(case)
    werr = wave_error_class(grid)
    if werr is not None:
        if out.get('err') != werr:
            rep.oracle_fail('ext_curve:invalid_grid(%s):%s' % (werr, out.get('err', 'returned')),
                            'invalid sampling grid must raise %s' % werr, case, out)
        return
    if len(grid) < 2 or (case['wave'] is not None and 'scalar' in case['wave']):
        return                      # the statement does not speak about grids of fewer than two points
    if case['law'].get('opts') and '_law_R' not in case:
        return              # the law object itself cannot be sampled on this grid (bounds_error, extrapolation mode)
    if 'err' in out:
        rep.oracle_fail('ext_curve:valid:%s' % out['err'], 'valid request raised %s: %s' % (out['err'], out.get('msg')),
                        case, out)
        return
    res = out['ok']
    e = fl(ebv['v'])
    if ebv['py'] == 'int':
        e = float(int(e))
    got = np.array(res['at'])
    if not case['law'].get('opts'):
        # default options: R from an independent np.interp reference
        r = law_reference(case['law'], grid)
        expect = np.power(10.0, -0.4 * r * e)
        if got.shape != expect.shape or not np.all(np.abs(got - expect) <= 1e-9 * np.abs(expect)):
            rep.oracle_fail('ext_curve:value', 'curve differs from 10^(-0.4 R E) at a sampled wavelength: got %s, expected %s'
                            % (got.tolist()[:6], expect.tolist()[:6]), case, out)
            return
    # every law: R(lambda) is what the law object itself returns at the sampled wavelengths
    if res.get('law_at') is not None:
        expect = np.power(10.0, -0.4 * np.array(res['law_at']) * e)
        if got.shape != expect.shape or not np.all(np.abs(got - expect) <= 1e-9 * np.abs(expect)):
            rep.oracle_fail('ext_curve:value_vs_law(%s)' % law_class(case['law']),
                            'curve differs from 10^(-0.4 law(lambda) E) with law(lambda) sampled from the law object '
                            'itself: got %s, expected %s' % (got.tolist()[:6], expect.tolist()[:6]), case, out)
            return
    if e == 0 and not np.all(got == 1.0):
        rep.oracle_fail('ext_curve:E=0:not_unity', 'E(B-V) = 0 must give exactly 1', case, out)
    if res.get('cls') != 'ExtinctionCurve':
        rep.oracle_fail('ext_curve:class:%s' % res.get('cls'), 'result is not an ExtinctionCurve', case, out)
    # the table holds the same samples on the ascending grid
    order = sorted(range(len(grid)), key=lambda i: grid[i])
    if res['pts'] != [grid[i] for i in order] or res['vals'] != [res['at'][i] for i in order]:
        rep.oracle_fail('ext_curve:table', 'the curve table is not the sampled values on the ascending grid', case, out)
    if not res.get('sampleset_none'):
        rep.oracle_fail('ext_curve:sampleset_not_none', 'ExtinctionModel1D exposes a sampleset', case, out)


def oracle_ext_pair(rep, case, out):
    grid = grid_of(case)
    if wave_error_class(grid) is not None or len(grid) < 2:
        return
    if case['law'].get('opts') and '_law_R' not in case:
        return
    if 'err' in out:
        rep.oracle_fail('ext_pair:valid:%s' % out['err'], 'valid request raised %s: %s' % (out['err'], out.get('msg')),
                        case, out)
        return
    res = out['ok']
    prod, s, undo = np.array(res['prod']), np.array(res['sum']), np.array(res['undo'])
    if not np.all(np.abs(prod - s) <= 1e-9 * np.abs(s)):
        rep.oracle_fail('ext_pair:product_law', 'curve(a) x curve(b) != curve(a+b): %s vs %s'
                        % (prod.tolist()[:6], s.tolist()[:6]), case, out)
    if not np.all(np.abs(undo - 1.0) <= 1e-9):
        rep.oracle_fail('ext_pair:inverse_law', 'curve(a) x curve(-a) != 1: %s' % undo.tolist()[:6], case, out)


def src_class(src):
    k = src['kind']
    z = 'z=0' if src.get('z') is None or unq(src['z']) == 0 else 'z!=0'
    return '%s,%s' % ('composite' if k in ('scaled', 'sum') else 'table' if k == 'table' else 'analytic', z)


def oracle_ext_apply(rep, case, out):
    if case.get('madau') is None:
        grid = grid_of(case)
        if wave_error_class(grid) is not None or len(grid) < 2 or case['ebv']['kind'] not in ('real', 'mag'):
            return
    cls = src_class(case['src'])
    if case['law'].get('opts') and '_law_R' not in case and case.get('madau') is None:
        return
    if 'err' in out:
        rep.oracle_fail('ext_apply:valid:%s' % out['err'], 'valid request raised %s: %s' % (out['err'], out.get('msg')),
                        case, out)
        return
    res = out['ok']
    vals, src, cur = np.array(res['vals']), np.array(res['src']), np.array(res['curve'])
    expect = src * cur
    if not np.all(np.abs(vals - expect) <= 1e-12 * np.abs(expect)):
        rep.oracle_fail('ext_apply:pointwise:%s' % cls, 'source x curve is not the pointwise product of the source and '
                        'the curve sampled at the same wavelengths: %s vs %s' % (vals.tolist()[:6], expect.tolist()[:6]),
                        case, out)
    if res['waveset'] != res['src_waveset']:
        rep.oracle_fail('ext_apply:waveset_changed:%s' % cls, "the product's waveset differs from the source's",
                        case, out)
    if 'rest_waveset' in res:
        z = fl(case['src']['z'])
        rest, got = res['rest_waveset'], res['src_waveset']
        if (rest is None) != (got is None) or (rest is not None and (
                len(rest) != len(got) or not np.allclose(np.array(rest) * (1 + z), got, rtol=1e-12, atol=0))):
            rep.oracle_fail('ext_apply:redshifted_waveset:%s' % cls,
                            'the sampling set of the redshifted source is not the rest set x (1+z)', case, out)
    if res.get('cls') != 'SourceSpectrum':
        rep.oracle_fail('ext_apply:class:%s' % res.get('cls'), 'source x curve is not a SourceSpectrum', case, out)


def oracle_madau(rep, case, out):
    z, w = case['z'], case['wave']
    if z['kind'] == 'not_real':
        if out.get('err') != 'SynphotError':
            rep.oracle_fail('madau:invalid_z(%s):%s' % (z['py'], out.get('err', 'returned')),
                            'a redshift that is not a real number must raise SynphotError', case, out)
        return
    if w['kind'] == 'scalar' or (w['kind'] == 'arr' and len(w['aa']) <= 1) or \
            (w['kind'] == 'bad_unit' and w['n'] <= 1):
        if out.get('err') != 'SynphotError':
            rep.oracle_fail('madau:too_short:%s' % out.get('err', 'returned'),
                            'a wavelength array with fewer than two points must raise SynphotError', case, out)
        return
    if w['kind'] != 'arr':
        return          # 0-d arrays / wrong units: the statement does not say which error
    zv = fl(z['v'])
    aa = [fl(x) for x in w['aa']]
    if zv <= -1 or wave_error_class(aa) is not None:
        return
    if 'err' in out:
        rep.oracle_fail('madau:valid:%s' % out['err'], 'valid request raised %s: %s' % (out['err'], out.get('msg')),
                        case, out)
        return
    res = out['ok']
    got = res['at']
    xe = 1.0 + zv
    reported = set()
    for wi, v in zip(aa, got):
        tau = tau_reference(wi, zv)
        if F(wi) > 1216 * (1 + F(zv)):          # strictly redward of Lyman-alpha x (1+z), exact comparison
            if v != 1.0:
                rep.oracle_fail('madau:redward:not_unity', 'lambda = %r > 1216 (1+z) = %r but curve = %r' % (wi, 1216 * xe, v),
                                case, out)
                return
            continue
        expect = 0.0 if tau > 700 else math.exp(-tau)
        # "= exp(-tau)" is demanded wherever the published optical depth is non-negative (where it is negative the
        # two halves of the statement contradict each other; there only "in [0, 1]" is demanded)
        if tau >= 0 and abs(tau - 700) > 1e-6 and not abs(v - expect) <= 1e-9 * abs(expect):
            rep.oracle_fail('madau:value', 'lambda = %r: curve = %r, exp(-tau) of the published series = %r' % (wi, v, expect),
                            case, out)
            return
        if not (0.0 <= v <= 1.0):
            cls = 'published_tau_negative' if (tau <= 1e-12 and wi <= LY_LIMIT * xe) else 'published_tau_nonneg'
            side = 'above_one' if v > 1 else 'below_zero'
            sig = 'madau:%s:%s' % (cls, side)
            if sig not in reported:         # one report per class and case
                reported.add(sig)
                rep.oracle_fail(sig, 'z = %r, lambda = %r: curve = %r outside [0, 1] (tau = %r)' % (zv, wi, v, tau),
                                case, out)
    if res.get('cls') != 'ExtinctionCurve':
        rep.oracle_fail('madau:class:%s' % res.get('cls'), 'result is not an ExtinctionCurve', case, out)
    if not res.get('sampleset_none'):
        rep.oracle_fail('madau:sampleset_not_none', 'ExtinctionModel1D exposes a sampleset', case, out)


def oracle(rep, case, out):
    {'ext_curve': oracle_ext_curve, 'ext_pair': oracle_ext_pair, 'ext_apply': oracle_ext_apply,
     'madau': oracle_madau}[case['op']](rep, case, out)


# ------------------------------------------------------------------ generators
def dy(rng, lo, hi, bits):
    """a dyadic rational k/2^bits in [lo, hi]"""
    s = 1 << bits
    return F(rng.randint(int(math.ceil(lo * s)), int(math.floor(hi * s))), s)


def gen_law(rng, nmax):
    n = rng.randint(2, nmax)
    lo = 10 ** rng.uniform(2.5, 3.8)
    pts = [lo]
    for _ in range(n - 1):
        pts.append(pts[-1] * (1 + 10 ** rng.uniform(-2.5, -0.2)))
    shape = rng.random()
    if shape < 0.6:      # falling like a real law
        vals = sorted((10 ** rng.uniform(-1.5, 1.75) for _ in range(n)), reverse=True)
    else:
        vals = [10 ** rng.uniform(-2, 1.75) for _ in range(n)]
    keep = rng.random() < 0.3
    r = rng.random()
    if r < 0.03:        # a few non-positive entries (outside the quantifier: model validation only)
        for _ in range(rng.randint(1, 2)):
            vals[rng.randrange(n)] = rng.choice([0.0, -rng.uniform(0.1, 3)])
    elif r < 0.05:      # tapered table
        vals[0] = vals[-1] = 0.0
    if rng.random() < 0.25:
        pts, vals = pts[::-1], vals[::-1]
    law = {'pts': qs(pts), 'vals': qs(vals), 'keep_neg': keep}
    if rng.random() < 0.2:
        # non-default Empirical1D options: interpolation method, fill value, bounds_error
        o = {}
        m = rng.choice(['nearest', 'nearest', 'nearest', 'cubic', 'pchip', 'slinear', None])
        if m in ('cubic', 'pchip') and n < 4:
            m = 'nearest'
        if m:
            o['method'] = m
        f = rng.random()
        if f < 0.2:
            o['fill'] = q(dy(rng, 0.25, 8, 2))
        elif f < 0.3 and m in (None, 'nearest', 'slinear'):
            o['fill'] = 'none'
        elif f < 0.35:
            o['fill'] = 'nan'
        if rng.random() < 0.08:
            o['bounds_error'] = True
        if o:
            law['opts'] = o
    return law


def law_is_positive(law):
    return all(unq(v) > 0 for v in law['vals'])


def finish_grid(rng, v):
    """how the grid `v` (Angstrom) is handed over: container, unit, and what the caller does to it afterwards"""
    py = rng.choice(['ndarray', 'ndarray', 'list', 'AA', 'AA', 'nm', 'micron'])
    d = {'py': py, 'mut': rng.choice(['scale', 'scale', 'reverse', 'shift'])}
    if py in ('nm', 'micron'):
        import astropy.units as u
        raw = [x / WAVE_UNITS[py] for x in v]
        d['raw'] = qs(raw)
        # the Angstrom values are data for the model: exactly what astropy's conversion yields
        v = np.atleast_1d(u.Quantity(np.array(raw, dtype=float), py).to_value(u.AA, u.spectral())).tolist() if raw else []
    d['arr'] = qs(v)
    return d


def gen_grid(rng, law, nmax, allow_bad=True):
    """the wavelengths argument"""
    r = rng.random()
    lp = sorted(fl(x) for x in law['pts'])
    if r < 0.3:
        return None
    if allow_bad and r < 0.31:
        return {'scalar': q(rng.uniform(lp[0], lp[-1]))}
    n = rng.randint(2, nmax)
    if allow_bad and r < 0.325:
        n = rng.choice([0, 1, 1])
    lo, hi = lp[0] * rng.choice([0.5, 0.9, 1.0, 1.1]), lp[-1] * rng.choice([0.9, 1.0, 1.2, 2.0])
    if hi <= lo:
        hi = lo * 2
    v = set()
    while len(v) < n:
        if rng.random() < 0.2:
            v.add(rng.choice(lp))            # exactly on a knot of the law
        else:
            v.add(math.exp(rng.uniform(math.log(lo), math.log(hi))))
    v = sorted(v)
    if allow_bad and n >= 2:
        b = rng.random()
        if b < 0.02:
            v[rng.randrange(n)] = rng.choice([0.0, -100.0])
        elif b < 0.04 and n >= 3:
            i = rng.randrange(n - 2)
            v[i], v[i + 2] = v[i + 2], v[i]
        elif b < 0.06:
            i = rng.randrange(n - 1)
            v[i + 1] = v[i]
    if rng.random() < 0.3:
        v = v[::-1]
    return finish_grid(rng, v)


def gen_ebv(rng, allow_bad=True):
    r = rng.random()
    if allow_bad and r < 0.06:
        py = rng.choice(['str', 'None', 'complex', 'list', 'ndarray0', 'AA', 'dimensionless', 'mmag', 'ABmag'])
        kind = 'other_quantity' if py in ('AA', 'dimensionless', 'mmag', 'ABmag') else 'not_real'
        return {'kind': kind, 'py': py, 'v': None}
    if r < 0.12:
        v = F(0)
    elif r < 0.5:
        v = dy(rng, -5, 5, 6)
    else:
        v = F(rng.uniform(-5, 5))
    py = rng.choice(['float', 'float', 'np.float64', 'mag', 'mag', 'Magnitude'])
    if v.denominator == 1 and rng.random() < 0.5:
        py = 'int'
    if py == 'np.float32':
        v = F(float(np.float32(float(v))))
    return {'kind': 'mag' if py in ('mag', 'Magnitude') else 'real', 'py': py, 'v': q(v)}


def related_grid(rng, wave, law, nmax):
    """a sampling grid related to `wave` the way a stale memo would confuse them: same length and end points with
    other interior points, the same points in the other order, the same length elsewhere, or an unrelated grid"""
    if wave is None or 'arr' not in wave or len(wave['arr']) < 3:
        return gen_grid(rng, law, nmax, allow_bad=False)
    v = [fl(x) for x in wave['arr']]
    if wave_error_class(v) is not None:
        return gen_grid(rng, law, nmax, allow_bad=False)
    k = rng.random()
    if k < 0.45:
        lo, hi = min(v), max(v)
        inner = set()
        while len(inner) < len(v) - 2:
            inner.add(math.exp(rng.uniform(math.log(lo), math.log(hi))) if rng.random() < 0.7 else rng.uniform(lo, hi))
            inner.discard(lo); inner.discard(hi)
        w = [lo] + sorted(inner) + [hi]
        if v[0] > v[-1]:
            w = w[::-1]
    elif k < 0.6:
        w = v[::-1]
    elif k < 0.8:
        f = rng.choice([0.5, 0.75, 1.5, 2.0])
        w = [x * f for x in v]
    else:
        return gen_grid(rng, law, nmax, allow_bad=False)
    return finish_grid(rng, w)


def case_ext_curve(rng, nmax):
    law = gen_law(rng, nmax)
    wave = gen_grid(rng, law, nmax)
    c = {'op': 'ext_curve', 'law': law, 'ebv': gen_ebv(rng), 'wave': wave}
    g = grid_of(c)
    c['at'] = qs(g) if wave_error_class(g) is None and len(g) >= 1 else []
    if rng.random() < 0.4:
        c['prior'] = [{'ebv': gen_ebv(rng, allow_bad=False), 'wave': related_grid(rng, wave, law, nmax)}
                      for _ in range(rng.randint(1, 3))]
    return c


def case_ext_pair(rng, nmax):
    law = gen_law(rng, nmax)
    while not law_is_positive(law):
        law = gen_law(rng, nmax)
    wave = gen_grid(rng, law, nmax, allow_bad=False)
    a = dy(rng, -5, 5, 6)
    b = dy(rng, max(-5, -5 - a), min(5, 5 - a), 6)
    c = {'op': 'ext_pair', 'law': law, 'a': q(a), 'b': q(b), 'wave': wave, 'as_mag': rng.random() < 0.4}
    c['at'] = qs(grid_of(c))
    return c


def gen_prim_source(rng, nmax, lawpts):
    r = rng.random()
    if r < 0.12:
        return {'kind': 'const', 'amp': q(10 ** rng.uniform(-3, 3))}
    if r < 0.2:
        return {'kind': 'gauss', 'mean': q(rng.uniform(2000, 8000)), 'fwhm': q(rng.uniform(10, 500)),
                'total': q(10 ** rng.uniform(-3, 3))}
    if r < 0.25:
        return {'kind': 'powerlaw', 'amp': q(10 ** rng.uniform(-3, 3)), 'x0': q(rng.uniform(2000, 8000)),
                'alpha': q(dy(rng, -3, 3, 2))}
    if r < 0.3:
        return {'kind': 'blackbody', 'temp': q(rng.uniform(3000, 30000))}
    n = rng.randint(2, nmax)
    lo = lawpts[0] * rng.choice([0.3, 0.8, 1.0, 1.5])
    pts = [lo]
    for _ in range(n - 1):
        pts.append(pts[-1] * (1 + 10 ** rng.uniform(-2.5, -0.3)))
    vals = [10 ** rng.uniform(-3, 3) for _ in range(n)]
    if rng.random() < 0.3:
        vals[0] = vals[-1] = 0.0
    if rng.random() < 0.2:
        pts, vals = pts[::-1], vals[::-1]
    return {'kind': 'table', 'pts': qs(pts), 'vals': qs(vals), 'keep_neg': rng.random() < 0.2}


def add_redshift(rng, src, p=0.55):
    """z = 0 (default) or z != 0, either z_type, given to the constructor or assigned afterwards (both orders)"""
    if rng.random() < p:
        z = dy(rng, 0, 4, 4) if rng.random() < 0.9 else dy(rng, -0.5, 0, 4)
        src['z'] = q(z)
        src['ztype'] = rng.choice(['wavelength_only', 'conserve_flux'])
        src['zhow'] = rng.choice(['ctor', 'assign', 'assign_z_first'])
    return src


def gen_source(rng, nmax, lawpts):
    r = rng.random()
    if r < 0.12:
        base = add_redshift(rng, gen_prim_source(rng, nmax, lawpts))
        return add_redshift(rng, {'kind': 'scaled', 'base': base, 'k': q(dy(rng, 0.125, 8, 3))}, p=0.4)
    if r < 0.24:
        a = add_redshift(rng, gen_prim_source(rng, nmax, lawpts))
        b = add_redshift(rng, gen_prim_source(rng, nmax, lawpts))
        return add_redshift(rng, {'kind': 'sum', 'a': a, 'b': b}, p=0.4)
    return add_redshift(rng, gen_prim_source(rng, nmax, lawpts))


def src_points(src):
    """observed-frame points worth sampling: the table knots of every leaf, redshifted as the tree says"""
    k = src['kind']
    if k == 'scaled':
        p = src_points(src['base'])
    elif k == 'sum':
        p = src_points(src['a']) + src_points(src['b'])
    elif k == 'table':
        p = [fl(x) for x in src['pts']]
    else:
        p = []
    z = fl(src['z']) if src.get('z') is not None else 0.0
    return [x * (1 + z) for x in p]


def case_ext_apply(rng, nmax):
    law = gen_law(rng, nmax)
    while not law_is_positive(law):
        law = gen_law(rng, nmax)
    lp = sorted(fl(x) for x in law['pts'])
    src = gen_source(rng, nmax, lp)
    c = {'op': 'ext_apply', 'law': law, 'src': src, 'curve_first': rng.random() < 0.4}
    if rng.random() < 0.15:
        # the Lyman-forest curve of a source (usually at the source's own redshift) applied to it
        zs = src.get('z') if src.get('z') is not None and unq(src['z']) >= 0 else q(dy(rng, 0, 4, 4))
        xe = 1.0 + fl(zs)
        n = rng.randint(2, nmax)
        v = sorted({math.exp(rng.uniform(math.log(300.0 * xe), math.log(2000.0 * xe))) for _ in range(n + 2)})
        if rng.random() < 0.3:
            v = v[::-1]
        c['madau'] = {'wave': {'kind': 'arr', 'py': rng.choice(['list', 'ndarray', 'AA']), 'raw': qs(v), 'aa': qs(v),
                               'mut': rng.choice(['scale', 'reverse', 'shift'])},
                      'z': {'kind': 'real', 'py': 'float', 'v': zs}}
        c['wave'] = c['madau']['wave']       # (for the post-call scrambling mode)
        at = set(v)
    else:
        c['ebv'] = gen_ebv(rng, allow_bad=False)
        c['wave'] = gen_grid(rng, law, nmax, allow_bad=False)
        at = set(grid_of(c))
    at.update(x for x in src_points(src) if x > 0)
    for _ in range(3):
        at.add(math.exp(rng.uniform(math.log(lp[0] * 0.5), math.log(lp[-1] * 2))))
    c['at'] = qs(sorted(at))
    return c


def case_madau(rng, nmax):
    r = rng.random()
    lattice = True
    # redshift
    if r < 0.04:
        py = rng.choice(['str', 'None', 'complex', 'quantity', 'ndarray0', 'list'])
        z = {'kind': 'not_real', 'py': py, 'v': None}
        zv = 1.0
    else:
        if r < 0.05:
            zf = rng.choice([F(-1), F(-2), dy(rng, -4, -1, 4)])     # Python floats only (see Core/Reddening.lean)
            py = 'float'
        elif r < 0.08:
            zf = dy(rng, -1, 0, 6)
            if zf == -1:
                zf = F(-1, 2)
            py = 'float'
        elif r < 0.11:
            zf = dy(rng, 10, 80, 4)
            py = 'float'
        elif r < 0.45:
            # off the dyadic lattice: line x (1+z) is not representable, the code's product is a rounded number
            k = rng.random()
            zfl = (rng.randint(1, 1000) / 100 if k < 0.4 else rng.randint(1, 70) / 7 if k < 0.6 else
                   rng.choice([0.06, 0.07, 3.57, 3.7, 0.1, 2.3]) if k < 0.7 else rng.uniform(0, 10))
            zf = F(zfl)
            py = rng.choice(['float', 'float', 'np.float64'])
            lattice = False
        else:
            zf = dy(rng, 0, 10, rng.choice([0, 2, 6, 10]))
            py = rng.choice(['float', 'float', 'np.float64'])
            if zf.denominator == 1 and rng.random() < 0.6:
                py = rng.choice(['int', 'np.int32'])
        z = {'kind': 'real', 'py': py, 'v': q(zf)}
        zv = float(zf)
    xe = max(1.0 + zv, 0.05)
    # wavelengths
    r = rng.random()
    if r < 0.02:
        return {'op': 'madau', 'z': z, 'wave': {'kind': 'scalar', 'py': 'scalar'}, 'at': []}
    if r < 0.03:
        return {'op': 'madau', 'z': z, 'wave': {'kind': 'zero_dim', 'py': rng.choice(['zero_dim', 'scalar_quantity'])},
                'at': []}
    if r < 0.04:
        return {'op': 'madau', 'z': z, 'wave': {'kind': 'bad_unit', 'py': rng.choice(['Hz', 'sec']),
                                                'n': rng.choice([1, 2, 5])}, 'at': []}
    n = rng.randint(2, nmax)
    if r < 0.07:
        n = rng.choice([0, 1])
    py = rng.choice(['list', 'tuple', 'ndarray', 'ndarray', 'AA', 'nm'])
    scale = 0.1 if py == 'nm' else 1.0
    v = set()
    top = 1216.0 * xe * rng.choice([0.5, 1.0, 1.3, 2.0])
    bottom = rng.choice([0.5, 5.0, 50.0, 300.0]) * rng.choice([1.0, xe])
    if top <= bottom:
        top = bottom * 10
    edges = edge_points(zv) if (py != 'nm' and zv > -1) else []
    edge_mode = rng.random()
    if edges and n >= 2 and edge_mode < (0.5 if not lattice else 0.1):
        if edge_mode < (0.15 if not lattice else 0.03):
            v.update(edges)                         # the edge points alone
            n = len(v)
        else:
            v.update(rng.sample(edges, min(len(edges), rng.randint(1, 8))))
            n = max(n, len(v))
    while len(v) < n:
        t = rng.random()
        if t < 0.15 and py != 'nm' and lattice:
            # exactly on a region boundary (z is dyadic: the product is exact in binary64)
            v.add(float(F(rng.choice([1216, 1026, 973, 950, 912])) * F(1.0 + zv)))
        else:
            v.add(math.exp(rng.uniform(math.log(bottom), math.log(top))) * scale)
    v = sorted(x for x in v if x > 0)
    while len(v) < n:
        v.append((v[-1] if v else 100.0) * 1.5)
    if rng.random() < 0.3:
        v = v[::-1]
    if n >= 2 and rng.random() < 0.01:
        v[rng.randrange(n)] = rng.choice([0.0, -10.0])
    if py == 'nm':
        import astropy.units as u
        aa = (np.array(v) * u.nm).to_value(u.AA).tolist()
    else:
        aa = list(v)
    ok = wave_error_class(aa) is None and len(aa) >= 2
    return {'op': 'madau', 'z': z, 'wave': {'kind': 'arr', 'py': py, 'raw': qs(v), 'aa': qs(aa),
                                            'mut': rng.choice(['scale', 'scale', 'reverse', 'shift'])},
            'at': qs(aa) if ok else []}


def gen_cases(rng, count, nmax):
    out = []
    for _ in range(count):
        r = rng.random()
        if r < 0.35:
            out.append(case_ext_curve(rng, nmax))
        elif r < 0.5:
            out.append(case_ext_pair(rng, nmax))
        elif r < 0.65:
            out.append(case_ext_apply(rng, nmax))
        else:
            out.append(case_madau(rng, nmax))
    return out


def fixed_cases():
    """hand-picked corners that always run"""
    law = {'pts': qs([1000.0, 2000.0, 4000.0, 8000.0]), 'vals': qs([8.0, 5.0, 3.0, 1.0]), 'keep_neg': False}
    out = []
    for py, kind in [('str', 'not_real'), ('None', 'not_real'), ('complex', 'not_real'), ('list', 'not_real'),
                     ('ndarray0', 'not_real'), ('AA', 'other_quantity'), ('dimensionless', 'other_quantity'),
                     ('mmag', 'other_quantity'), ('ABmag', 'other_quantity')]:
        out.append({'op': 'ext_curve', 'law': law, 'ebv': {'kind': kind, 'py': py, 'v': None}, 'wave': None, 'at': []})
    for py in ('float', 'int', 'np.float64', 'mag', 'Magnitude'):
        for v in (F(0), F(1), F(-5), F(5)):
            out.append({'op': 'ext_curve', 'law': law, 'ebv': {'kind': 'mag' if py in ('mag', 'Magnitude') else 'real',
                                                                 'py': py, 'v': q(v)},
                        'wave': None, 'at': law['pts']})
    for py in ('str', 'None', 'complex', 'quantity', 'ndarray0', 'list'):
        out.append({'op': 'madau', 'z': {'kind': 'not_real', 'py': py, 'v': None},
                    'wave': {'kind': 'arr', 'py': 'list', 'raw': qs([1000.0, 2000.0]), 'aa': qs([1000.0, 2000.0])},
                    'at': []})
    # the F6 region at every integer redshift, and the region boundaries
    for zi in range(0, 11):
        xe = 1 + zi
        w = [1.0 * xe, 10.0 * xe, 100.0, 500.0 * xe, 912.0 * xe, 950.0 * xe, 973.0 * xe, 1026.0 * xe, 1216.0 * xe,
             1216.0 * xe + 0.5, 20000.0]
        w = sorted(set(w))
        out.append({'op': 'madau', 'z': {'kind': 'real', 'py': 'int', 'v': q(zi)},
                    'wave': {'kind': 'arr', 'py': 'ndarray', 'raw': qs(w), 'aa': qs(w)}, 'at': qs(w)})
    for zfl in (0.06, 0.07, 3.57, 3.7, 1 / 7, 9.99):
        w = sorted(set(edge_points(zfl) + [100.0, 20000.0]))
        for order in (w, w[::-1]):
            out.append({'op': 'madau', 'z': {'kind': 'real', 'py': 'float', 'v': q(zfl)},
                        'wave': {'kind': 'arr', 'py': 'ndarray', 'raw': qs(order), 'aa': qs(order), 'mut': 'scale'},
                        'at': qs(order)})
    return out


# ------------------------------------------------------------------ driver of the check
def tags(c, o):
    t = [c['op'], c['op'] + ':outcome:' + (o.get('err') or 'ok')]
    if c['op'] in ('ext_curve', 'ext_apply') and 'ebv' in c:
        t.append('ebv:' + c['ebv']['py'])
    if c['op'] == 'ext_apply':
        t.append('src:' + src_class(c['src']))
        t.append('curve:' + ('madau' if c.get('madau') is not None else 'extinction'))
    if c['op'] == 'ext_curve':
        t.append('prior_calls:%d' % len(c.get('prior', [])))
        t.append('law:' + law_class(c['law']))
    if c['op'] == 'madau':
        t.append('madau_wave:' + c['wave']['py'])
    return t


def nontrivial(c, o):
    return 'ok' in o


def compare(c, o, m):
    if 'ok' in o and 'ok' in m:
        keys = {'ext_curve': ('pts', 'vals', 'at'), 'ext_pair': ('prod', 'sum', 'undo'),
                'ext_apply': ('vals', 'waveset'), 'madau': ('pts', 'vals', 'at')}[c['op']]
        if c['op'] == 'madau' and any(abs(unq(t) - 700) < F(1, 1000) for t in m['ok'].get('tau', [])):
            return None         # the `tau > 700` decision is taken on a rounded number
        if c['op'] == 'ext_apply' and c['src']['kind'] == 'table':
            # a redshifted table is sampled at w/(1+z), a rounded number: next to a knot where the table goes to 0
            # the product legitimately cancels to 0, so the values get an absolute floor of 1e-12 x (largest
            # table value) x (curve value); the waveset is compared as usual
            r = same(o['ok']['waveset'], m['ok']['waveset'], rtol=1e-9, path='.waveset')
            if r:
                return r
            top = max(abs(fl(v)) for v in c['src']['vals'])
            iv, mv, cv = o['ok']['vals'], m['ok']['vals'], o['ok']['curve']
            if len(iv) != len(mv):
                return '.vals: length impl %d vs model %d' % (len(iv), len(mv))
            for i, (a, b, k) in enumerate(zip(iv, mv, cv)):
                if not core.close(a, unq(b), 1e-9, 1e-12 * top * abs(k)):
                    return '.vals[%d]: impl %r vs model %r (=%r)' % (i, a, b, core.unqf(b))
            return None
        return same({k: o['ok'][k] for k in keys}, {k: m['ok'][k] for k in keys}, rtol=1e-9)
    return same(o, m, rtol=1e-9)


def process(rep, cases):
    attach_law_values(cases)
    return core.run_cases(rep, cases, impl_call, model_case, oracle, tags_fn=tags, nontrivial_fn=nontrivial,
                          compare_fn=compare)


def run(rep):
    thorough = rep.tier == 'thorough'
    rng = rep.rng('c17')
    cases = core.load_corpus('C17') + fixed_cases()
    cases += gen_cases(rng, 100000 if thorough else 2000, 40 if thorough else 10)
    rep.rule = ('positive Empirical1D reddening laws (2..N points in 300..30000 A, R in 0.01..56, both orders, keep_neg '
                'either way; 5% with zero/negative entries or tapered ends for model validation; 20% built with non-default '
                'Empirical1D options: method nearest / cubic / pchip / slinear, numeric / None / nan fill_value, '
                'bounds_error - for these the oracle takes R from the law object itself and the model is given those R '
                'values as data) x E(B-V) in [-5, 5] as '
                'float / int / NumPy scalar / mag Quantity / Magnitude (and 6% invalid objects) x sampling grids (None = '
                'own waveset, arrays inside/beyond the law range, on law knots, both orders, list/ndarray/Quantity in AA, nm, micron; 6% '
                'invalid, 2.5% shorter than two points; 40% of the curves are requested after 1..3 earlier requests on the same law object with grids of the same length and end points, the reversed grid, a rescaled or an unrelated grid); pairs (a, b) on the lattice 1/64 with a, b, a+b in [-5, 5]; '
                'sources x curve (extinction curve, 15% the Madau curve) in both operand orders, the source drawn from tables, '
                'constants, Gaussian / power-law / black-body models, scaled sources and sums, each with z = 0 or z != 0 '
                '(lattice 1/16 in [-0.5, 4]) in both z_types given to the constructor or assigned afterwards in either '
                'order, composites with a redshift of their own; Madau: z in [0, 10] on dyadic '
                'lattices (int, float, NumPy; plus a few z in (-1, 0), z <= -1, z in (10, 80], non-numbers) x grids of '
                '2..N wavelengths 0.5 A .. 2 x 1216 (1+z) incl. points exactly on the region boundaries (dyadic z), and for 35% '
                'off-lattice z (k/100, k/7, 0.06, 3.7, uniform floats) the binary64 numbers 1, 2, 3, 8 steps above / below '
                'fl(line x (1+z)) that lie strictly on that side of the exact product, for every series line and the Lyman '
                'limit, alone or mixed into ordinary grids, both orders; as '
                'list/tuple/ndarray/Quantity(AA, nm), plus too-short / 0-d / wrong-unit inputs. History after the call: every '
                'caller-owned container handed in (wavelength grids as ndarray / list / Quantity in AA, nm, micron - also '
                'those of the earlier requests -, the arrays the law was built from, E(B-V) Quantities, Madau wavelength '
                'arrays) is overwritten in place (x1.5, reversed, or +7.25) after the measured call returned; the curve / '
                'product is read only afterwards, at the original wavelengths kept in separate copies. Non-trivial: the '
                'call returned a curve.')
    process(rep, cases)
    rep.samples = rep.samples[:4]


def search(rep, mismatches):
    """directed search after a model/implementation disagreement: the oracles with a larger budget, weighted to the
    operations that disagreed"""
    sub = core.Report(rep.pid, 'thorough', rep.seed + 1)
    rng = sub.rng('c17-search')
    ops = {m[0] for m in mismatches}
    cases = fixed_cases()
    maker = {'ext_curve': case_ext_curve, 'ext_pair': case_ext_pair, 'ext_apply': case_ext_apply, 'madau': case_madau}
    for op in ops:
        if op in maker:
            cases += [maker[op](rng, 12) for _ in range(4000)]
    cases += gen_cases(rng, 4000, 12)
    impl = core.pmap(impl_call, cases)
    for c, o in zip(cases, impl):
        oracle(sub, c, o)
    rep.notes.append('directed search after mismatch: %d cases, %d oracle failures' % (len(cases), len(sub.oracle_failures)))
    return sub.oracle_failures


def replay(rep, payload):
    case = payload['case']
    process(rep, [case] if isinstance(case, dict) else case)
