import Synphot.Driver.Json
import Synphot.Core.Reddening
import Synphot.Driver.FloatTransc

open Lean Synphot

namespace Synphot.Driver

/-- `{"pts": […], "vals": […], "keep_neg": b}` → the `Empirical1D` table -/
def c17Table (j : Json) : M (Table Rat) := do
  let pts ← fRats j "pts"
  let vals ← fRats j "vals"
  let keep ← fBool j "keep_neg"
  pure (mkTable pts vals keep).1

def c17Ebv (j : Json) : M (EbvArg Rat) := do
  match ← fStr j "kind" with
  | "real" => pure (.real (← fRat j "v"))
  | "mag" => pure (.magQuantity (← fRat j "v"))
  | "other_quantity" => pure .otherQuantity
  | "not_real" => pure .notReal
  | s => .error s!"unknown ebv kind {s}"

/-- `null` | `{"scalar": q}` | `{"arr": […]}` -/
def c17Wave (j : Json) (k : String) : M (WaveSel Rat) :=
  match fOpt j k with
  | none => pure .none
  | some v =>
    match fOpt v "scalar" with
    | some s => (asRat s).map .scalar
    | none => (fRats v "arr").map .arr

def c17Source (j : Json) : M (Except Err (Sampled Rat)) := do
  let base ← match ← fStr j "kind" with
    | "table" => pure (← c17Table j).toSampled
    | "const" => pure (constSampled (← fRat j "amp"))
    | s => .error s!"unknown source kind {s}"
  match fOpt j "z" with
  | none => pure (.ok base)
  | some zj => do
      let z ← asRat zj
      let conserve := match fOpt j "ztype" with
        | some (.str "conserve_flux") => true
        | _ => false
      pure (base.redshift z conserve)

def c17MadauWave (j : Json) : M (MadauWave Rat) := do
  match ← fStr j "kind" with
  | "scalar" => pure .scalar
  | "zero_dim" => pure .zeroDim
  | "bad_unit" => pure (.badUnit (← fNat j "n"))
  | "arr" => pure (.arr (← fRats j "w"))
  | s => .error s!"unknown wave kind {s}"

def c17Z (j : Json) : M (ZArg Rat) := do
  match ← fStr j "kind" with
  | "real" => pure (.real (← fRat j "v"))
  | "not_real" => pure .notReal
  | s => .error s!"unknown z kind {s}"

def jOptRats : Option (List Rat) → Json
  | none => Json.null
  | some l => jRats l

def dispatchC17M (op : String) (j : Json) : M Json := do
  match op with
  | "ext_curve" => do
      let law ← getField j "law" >>= c17Table
      let ebv ← getField j "ebv" >>= c17Ebv
      let wave ← c17Wave j "wave"
      let at_ ← fRats j "at"
      let r := extinctionCurve transcQ law ebv wave
      pure (outcome (fun (c : Table Rat) => Json.mkObj [("pts", jRats c.pts), ("vals", jRats c.vals),
        ("at", jRats (at_.map c.eval))]) r)
  | "ext_pair" => do
      -- curves for a, b, a+b and −a on one grid: product law and inverse law at the points `at`
      let law ← getField j "law" >>= c17Table
      let a ← fRat j "a"
      let b ← fRat j "b"
      let wave ← c17Wave j "wave"
      let at_ ← fRats j "at"
      let r : Except Err Json := do
        let ca ← extinctionCurve transcQ law (.real a) wave
        let cb ← extinctionCurve transcQ law (.real b) wave
        let cab ← extinctionCurve transcQ law (.real (a + b)) wave
        let cna ← extinctionCurve transcQ law (.real (-a)) wave
        pure (Json.mkObj [("prod", jRats (at_.map fun w => ca.eval w * cb.eval w)),
          ("sum", jRats (at_.map cab.eval)),
          ("undo", jRats (at_.map fun w => ca.eval w * cna.eval w))])
      pure (outcome id r)
  | "ext_apply" => do
      let src ← getField j "src" >>= c17Source
      let law ← getField j "law" >>= c17Table
      let ebv ← getField j "ebv" >>= c17Ebv
      let wave ← c17Wave j "wave"
      let thr ← fRat j "thr"
      let at_ ← fRats j "at"
      let r : Except Err Json := do
        let src ← src
        let c ← extinctionCurve transcQ law ebv wave
        let sp := applyCurve thr src c
        pure (Json.mkObj [("vals", jRats (at_.map sp.eval)), ("src", jRats (at_.map src.eval)),
          ("curve", jRats (at_.map c.eval)), ("waveset", jOptRats sp.sampleset)])
      pure (outcome id r)
  | "madau" => do
      let wave ← getField j "wave" >>= c17MadauWave
      let z ← getField j "z" >>= c17Z
      let at_ ← fRats j "at"
      let xe : Rat := match z with
        | .real v => 1 + v
        | .notReal => 1
      let r := etauMadau transcQ wave z
      pure (outcome (fun (c : Table Rat) => Json.mkObj [("pts", jRats c.pts), ("vals", jRats c.vals),
        ("at", jRats (at_.map c.eval)), ("tau", jRats (at_.map (madauTau transcQ xe)))]) r)
  | _ => .error s!"unknown op {op}"

/-- ops of C17; `none`: not one of ours -/
def dispatchC17 (op : String) (j : Json) : Option (M Json) :=
  if op ∈ ["ext_curve", "ext_pair", "ext_apply", "madau"] then some (dispatchC17M op j) else none

end Synphot.Driver
