import Mathlib.Tactic.Ring
import Mathlib.Tactic.FieldSimp
import Mathlib.Tactic.Linarith
import Mathlib.Tactic.Positivity
import Synphot.Core.Observation
import Synphot.Lemmas.Trapz
import Synphot.Lemmas.Spectrum

set_option linter.unusedSectionVars false
set_option linter.unusedSimpArgs false
set_option linter.unusedVariables false

namespace Synphot
variable {K : Type} [Field K] [LinearOrder K] [IsStrictOrderedRing K]

/-- `Σ_j avflux_j · deltaw_j` over the index range `[f, l)` -/
def segFlux (avflux deltaw : List K) (f l : Nat) : K :=
  (((avflux.drop f).take (l - f)).zip ((deltaw.drop f).take (l - f)) |>.map fun (a, d) => a * d).sum

/-- `Σ_j deltaw_j` over `[f, l)` -/
def segWidth (deltaw : List K) (f l : Nat) : K := ((deltaw.drop f).take (l - f)).sum

/-- one bin of either integrator -/
def binOne (zeroErr : Err) (avflux deltaw : List K) (p : Nat × Nat) : Except Err (K × K) :=
  if segWidth deltaw p.1 p.2 = 0 then .error zeroErr
  else .ok (segFlux avflux deltaw p.1 p.2 / segWidth deltaw p.1 p.2, segWidth deltaw p.1 p.2)

theorem calcbinfluxC_eq (ibeg iend : List Nat) (avflux deltaw : List K) :
    calcbinfluxC ibeg iend avflux deltaw =
      ((ibeg.zip iend).mapM (binOne .zeroDivision avflux deltaw)).map
        (fun r => (r.map Prod.fst, r.map Prod.snd)) := by
  unfold calcbinfluxC
  have : (fun (x : Nat × Nat) => binOne (K := K) .zeroDivision avflux deltaw x) = fun x =>
      match x with
      | (f, l) =>
        let dw := (deltaw.drop f).take (l - f)
        let av := (avflux.drop f).take (l - f)
        let ds := dw.sum
        let fs := ((av.zip dw).map fun (a, d) => a * d).sum
        if ds = 0 then (.error .zeroDivision : Except Err (K × K)) else .ok (fs / ds, ds) := by
    funext ⟨f, l⟩; rfl
  simp only [bind, Except.bind, pure, Except.pure, Except.map]
  rw [show (binOne (K := K) .zeroDivision avflux deltaw) = _ from this]

theorem calcbinfluxPy_eq (ibeg iend : List Nat) (avflux deltaw : List K) :
    calcbinfluxPy ibeg iend avflux deltaw =
      ((ibeg.zip iend).mapM (binOne .nan avflux deltaw)).map
        (fun r => (r.map Prod.fst, r.map Prod.snd)) := by
  unfold calcbinfluxPy
  have : (fun (x : Nat × Nat) => binOne (K := K) .nan avflux deltaw x) = fun x =>
      match x with
      | (f, l) =>
        let dw := (deltaw.drop f).take (l - f)
        let av := (avflux.drop f).take (l - f)
        let ds := dw.sum
        let fs := ((av.zip dw).map fun (a, d) => a * d).sum
        if ds = 0 then (.error .nan : Except Err (K × K)) else .ok (fs / ds, ds) := by
    funext ⟨f, l⟩; rfl
  simp only [bind, Except.bind, pure, Except.pure, Except.map]
  rw [show (binOne (K := K) .nan avflux deltaw) = _ from this]

/-- `mapM` of two functions that agree whenever the first succeeds -/
theorem mapM_ok_congr {α β : Type} (f g : α → Except Err β) (l : List α) (r : List β)
    (hfg : ∀ a b, f a = .ok b → g a = .ok b) (h : l.mapM f = .ok r) : l.mapM g = .ok r := by
  induction l generalizing r with
  | nil => simpa using h
  | cons a l ih =>
    simp only [List.mapM_cons, bind, Except.bind] at h ⊢
    cases hfa : f a with
    | error e => rw [hfa] at h; cases h
    | ok b =>
      rw [hfa] at h
      rw [hfg a b hfa]
      cases hl : l.mapM f with
      | error e => rw [hl] at h; cases h
      | ok bs =>
        rw [hl] at h
        rw [ih bs hl]
        exact h

theorem binOne_ok_indep (e1 e2 : Err) (avflux deltaw : List K) (p : Nat × Nat) (b : K × K)
    (h : binOne e1 avflux deltaw p = .ok b) : binOne e2 avflux deltaw p = .ok b := by
  unfold binOne at h ⊢
  split_ifs at h ⊢ with hz
  exact h

theorem mapM_ok_mem {α β : Type} (f : α → Except Err β) (l : List α) (r : List β)
    (h : l.mapM f = .ok r) : List.Forall₂ (fun a b => f a = .ok b) l r := by
  induction l generalizing r with
  | nil =>
    simp only [List.mapM_nil, pure, Except.pure] at h
    injection h with h; subst h; exact List.Forall₂.nil
  | cons a l ih =>
    simp only [List.mapM_cons, bind, Except.bind] at h
    cases hfa : f a with
    | error e => rw [hfa] at h; cases h
    | ok b =>
      rw [hfa] at h
      cases hl : l.mapM f with
      | error e => rw [hl] at h; cases h
      | ok bs =>
        rw [hl] at h
        cases h
        exact List.Forall₂.cons hfa (ih bs hl)

/-- a non-negatively weighted mean lies between the smallest and largest of its terms -/
theorem weighted_mean_bounds (m M : K) :
    ∀ (av dw : List K), (∀ a ∈ av, m ≤ a ∧ a ≤ M) → (∀ d ∈ dw, 0 ≤ d) →
      m * (dw.take av.length).sum ≤ ((av.zip dw).map fun (a, d) => a * d).sum ∧
      ((av.zip dw).map fun (a, d) => a * d).sum ≤ M * (dw.take av.length).sum := by
  intro av
  induction av with
  | nil => intro dw _ _; simp
  | cons a av ih =>
    intro dw ha hd
    cases dw with
    | nil => simp
    | cons d dw =>
      have h1 := ha a (by simp)
      have hd0 := hd d (by simp)
      have := ih dw (fun x hx => ha x (List.mem_cons_of_mem _ hx)) (fun x hx => hd x (List.mem_cons_of_mem _ hx))
      simp only [List.zip_cons_cons, List.map_cons, List.sum_cons, List.length_cons, List.take_succ_cons]
      constructor
      · nlinarith [this.1, mul_le_mul_of_nonneg_right h1.1 hd0]
      · nlinarith [this.2, mul_le_mul_of_nonneg_right h1.2 hd0]

/-- the trapezoid sum over a grid is `Σ avflux·deltaw` with `avflux = (f_j + f_{j+1})/2`, `deltaw = x_{j+1} − x_j` -/
theorem trapz_eq_sum_av_dw (x y : List K) (h : x.length = y.length) :
    trapzXY x y = (((pairSums y).zip (pairDiffs x)).map fun (a, d) => a * d).sum := by
  induction x generalizing y with
  | nil => cases y <;> simp [trapzXY, trapz, pairSums, pairDiffs]
  | cons x0 xs ih =>
    cases y with
    | nil => simp at h
    | cons y0 ys =>
      cases xs with
      | nil =>
        cases ys with
        | nil => simp [trapzXY, trapz, pairSums, pairDiffs]
        | cons _ _ => simp at h
      | cons x1 xs =>
        cases ys with
        | nil => simp at h
        | cons y1 ys =>
          have h' : (x1 :: xs).length = (y1 :: ys).length := by simpa using h
          have := ih (y1 :: ys) h'
          simp only [trapzXY, List.zip_cons_cons, trapz_cons_cons, pairSums, pairDiffs, List.map_cons,
            List.sum_cons] at this ⊢
          rw [this]; ring

end Synphot
