/-
  C02 — Spectrum arithmetic is pointwise and typed exactly as documented.

  `specOp` is `left <op> right` with a spectrum on the left (its class is decided by `typing`,
  the transcription of the `isinstance` chains; its model by `resultTree`), `Expr.run` what
  Python does with a nested expression, `Expr.denote` the same expression applied to the
  operands' values at one wavelength.  `Generated.docOpTable` is regenerated on every run from
  docs/synphot/overview.rst.  The second half ("deepening") adds the converse of the pointwise
  theorems, compositional typing, the exact agreement with the documented table, commutativity /
  distributivity of sampled values, the operands that are never accepted, and the frame statement;
  helper lemmas and the concrete objects of the examples are in `Lemmas/C02x.lean`.
-/
import Synphot.Lemmas.Spectrum
import Synphot.Lemmas.C02x
import Synphot.Generated.OpTable

set_option linter.unusedSectionVars false
set_option linter.unusedVariables false

namespace Synphot.C02
open Synphot Synphot.C02x
variable {K : Type} [Field K] [LinearOrder K] [IsStrictOrderedRing K]

/-! ### typing -/

/-- the class of every result is the one `typing` names -/
theorem specOp_kind (op : BinOp) (self : Spec K) (o : Operand K) (r : Spec K)
    (h : specOp op self o = .ok r) : typing op self.kind o.tag = .ok r.kind := by
  obtain ⟨k, t, hk, _, rfl⟩ := specOp_ok h
  exact hk

/-- a combination `typing` rejects raises, and never yields a spectrum -/
theorem rejected_never_spectrum (op : BinOp) (self : Spec K) (o : Operand K) (e : Err)
    (h : typing op self.kind o.tag = .error e) : specOp op self o = .error e := by
  unfold specOp; rw [h]; rfl

/-- documented operand classes → model operand tags -/
def classTags : String → List OTag
  | "Source Spectrum" => [.spec .source]
  | "Unitless Spectrum" =>
      [.spec .unitless, .spec .bandpass, .spec .reddening, .spec .extcurve, .spec .thermal]
  | "Scalar number" => [.real]
  | "Unitless Quantity" => [.quantity]
  | _ => []

def leftKinds : String → List Kind
  | "Source Spectrum" => [.source]
  | "Unitless Spectrum" => [.unitless, .bandpass, .reddening, .extcurve]
  | _ => []

def opOf : String → Option BinOp
  | "+" => some .add | "-" => some .sub | "*" => some .mul | "/" => some .div | _ => none

/-- "Source Spectrum" is a `SourceSpectrum`; "Unitless Spectrum" is the base unitless class for
source/source and the left operand's own unitless class otherwise -/
def resultMatches (res : String) (left k : Kind) : Bool :=
  (res == "Source Spectrum" && k == .source) ||
  (res == "Unitless Spectrum" && (if left == .source then k == .unitless else k == left))

/-- one documented row holds of the code -/
def rowHolds (row : String × String × String × String × Bool) : Bool :=
  match opOf row.2.1 with
  | none => false
  | some op =>
      (leftKinds row.1).all fun L => (classTags row.2.2.1).all fun R =>
        match typing op L R with
        | .ok k => resultMatches row.2.2.2.1 L k
        | .error _ => false

/-- every row of the documented table (regenerated from the docs) is what the code does, for every
unitless class except the thermal element (see `thermal_not_closed`) -/
theorem doc_table_holds : Generated.docOpTable.all rowHolds = true := by decide

/-- is the combination listed in the documented table? -/
def listed (op : BinOp) (L : Kind) (t : OTag) : Bool :=
  Generated.docOpTable.any fun row =>
    opOf row.2.1 == some op && (leftKinds row.1).contains L && (classTags row.2.2.1).contains t

def allOps : List BinOp := [.add, .sub, .mul, .div]
def docLeft : List Kind := [.source, .unitless, .bandpass, .reddening, .extcurve]
def allKinds : List Kind := [.source, .unitless, .bandpass, .reddening, .extcurve, .thermal, .observation]
def allTags : List OTag := allKinds.map .spec ++ [.real, .quantity, .badQuantity, .complex, .other]

theorem allTags_complete (t : OTag) : t ∈ allTags := by
  cases t with
  | spec k => cases k <;> decide
  | _ => decide

/-- every combination with a documented spectrum class on the left that the table does not list
is rejected — with one exception the code makes on purpose: `unitless × source` is delegated to
`source × unitless` (the table lists it through its "commutative" column) -/
theorem unlisted_rejected :
    allOps.all (fun op => docLeft.all fun L => allTags.all fun t =>
      listed op L t ||
      (op == .mul && L.isUnitless && t == .spec .source) ||
      (match typing op L t with | .error _ => true | .ok _ => false)) = true := by decide

/-- the delegated product is a source spectrum, as the commutative row says -/
theorem unitless_mul_source (L : Kind) (h : L ∈ [Kind.unitless, .bandpass, .reddening, .extcurve]) :
    typing .mul L (.spec .source) = .ok .source := by
  simp at h; rcases h with rfl | rfl | rfl | rfl <;> rfl

/-- the thermal element is not closed under the documented operations: multiplying or dividing it
by a scalar, a dimensionless Quantity or a unitless spectrum fails (`__init__` needs a
temperature) — the defect recorded in known_findings.json (F11) -/
theorem thermal_not_closed :
    typing .mul .thermal .real = .error .typeError ∧ typing .div .thermal .quantity = .error .typeError ∧
    typing .mul .thermal (.spec .bandpass) = .error .typeError := by decide

/-- an observation can only be multiplied (by a scalar or a unitless spectrum) -/
theorem observation_ops (op : BinOp) (t : OTag) (k : Kind) (h : typing op .observation t = .ok k) :
    op = .mul ∧ k = .observation ∧ (t = .real ∨ t = .quantity ∨ ∃ u, t = .spec u ∧ u.isUnitless = true) := by
  cases op <;> cases t <;> simp only [typing] at h <;> try (cases h; done)
  · rename_i u
    by_cases hu : u.isUnitless = true
    · rw [if_pos hu] at h; injection h with h
      exact ⟨rfl, h.symm, Or.inr (Or.inr ⟨u, rfl, hu⟩)⟩
    · rw [if_neg hu] at h; cases h
  · injection h with h; exact ⟨rfl, h.symm, Or.inl rfl⟩
  · injection h with h; exact ⟨rfl, h.symm, Or.inr (Or.inl rfl)⟩

/-! ### pointwise semantics -/

/-- a plain real number may stand on either side of `×` -/
theorem rmul_comm (v : K) (s : Spec K) : rmul v s = specOp .mul s (.real v) := rfl

/-- one operator application is pointwise (result at a wavelength = operator applied to the operands'
values there; for `/` only where the divisor is non-zero, which `hv` encodes) -/
theorem op_pointwise (E : Env K) (op : BinOp) (self : Spec K) (o : Operand K) (r : Spec K)
    (x va vb v : K) (h : specOp op self o = .ok r) (ha : self.evalAt E x = .ok va)
    (hb : o.valueAt E x = .ok vb) (hv : op.apply va vb = .ok v) : r.evalAt E x = .ok v :=
  specOp_valueAt E op self o r x va vb v h ha hb hv

/-- every nested expression: if Python's evaluation of the program yields an operand `o`, and the
expression applied to the operands' values at `x` is defined and equals `v`, then `o` sampled at
`x` is `v` (structural induction; redshifted and composite operands included, since an operand is
any spectrum object) -/
theorem program_pointwise (E : Env K) (x : K) (p : Expr K) :
    ∀ (o : Operand K) (v : K), p.run = .ok o → p.denote E x = .ok v → o.valueAt E x = .ok v := by
  induction p with
  | operand o0 =>
    intro o v hr hd
    simp only [Expr.run] at hr; cases hr
    exact hd
  | bin op l r ihl ihr =>
    intro o v hr hd
    simp only [Expr.run] at hr
    obtain ⟨a, hla, hr⟩ := bind_ok hr
    obtain ⟨b, hrb, hr⟩ := bind_ok hr
    simp only [Expr.denote] at hd
    obtain ⟨va, hda, hd⟩ := bind_ok hd
    obtain ⟨vb, hdb, hd⟩ := bind_ok hd
    have hva := ihl a va hla hda
    have hvb := ihr b vb hrb hdb
    cases a with
    | spec s =>
      simp only [] at hr
      cases hs : specOp op s b with
      | error e => rw [hs] at hr; cases hr
      | ok res =>
        rw [hs] at hr; cases hr
        exact specOp_valueAt E op s b res x va vb v hs hva hvb hd
    | real w =>
      cases b with
      | spec s =>
        cases op with
        | mul =>
          simp only [] at hr
          cases hs : rmul w s with
          | error e => rw [hs] at hr; cases hr
          | ok res =>
            rw [hs] at hr; cases hr
            simp only [Operand.valueAt] at hva; cases hva
            have hv' : BinOp.mul.apply vb va = .ok v := by
              simp only [BinOp.apply] at hd ⊢; rw [mul_comm]; exact hd
            exact specOp_valueAt E .mul s (.real va) res x vb va v hs hvb rfl hv'
        | add => cases hr
        | sub => cases hr
        | div => cases hr
      | real _ => cases hr
      | quantity _ => cases hr
      | badQuantity => cases hr
      | complex => cases hr
      | other => cases hr
    | quantity _ => cases hr
    | badQuantity => cases hr
    | complex => cases hr
    | other => cases hr

/-! ## deepening: pointwise semantics, both directions -/

/-- converse of `op_pointwise`: where the result evaluates, both operands evaluate there and the
result's value is the operator applied to theirs (a result never evaluates "by accident") -/
theorem op_pointwise_conv (E : Env K) (op : BinOp) (self : Spec K) (o : Operand K) (r : Spec K)
    (x v : K) (h : specOp op self o = .ok r) (hr : r.evalAt E x = .ok v) :
    ∃ va vb, self.evalAt E x = .ok va ∧ o.valueAt E x = .ok vb ∧ op.apply va vb = .ok v :=
  specOp_valueAt_conv E op self o r x v h hr

/-- converse of `program_pointwise` for whole programs -/
theorem program_pointwise_conv (E : Env K) (x : K) (p : Expr K) :
    ∀ (o : Operand K) (v : K), p.run = .ok o → o.valueAt E x = .ok v → p.denote E x = .ok v := by
  induction p with
  | operand o0 =>
    intro o v hr hv
    simp only [Expr.run] at hr; cases hr
    exact hv
  | bin op l r ihl ihr =>
    intro o v hr hv
    simp only [Expr.run] at hr
    obtain ⟨a, hla, hr⟩ := bind_ok hr
    obtain ⟨b, hrb, hr⟩ := bind_ok hr
    simp only [Expr.denote]
    cases a with
    | spec s =>
      simp only [] at hr
      cases hs : specOp op s b with
      | error e => rw [hs] at hr; cases hr
      | ok res =>
        rw [hs] at hr; cases hr
        obtain ⟨va, vb, hva, hvb, hap⟩ := specOp_valueAt_conv E op s b res x v hs hv
        rw [ihl (.spec s) va hla hva, ihr b vb hrb hvb]
        exact hap
    | real w =>
      cases b with
      | spec s =>
        cases op with
        | mul =>
          simp only [] at hr
          cases hs : rmul w s with
          | error e => rw [hs] at hr; cases hr
          | ok res =>
            rw [hs] at hr; cases hr
            obtain ⟨va, vb, hva, hvb, hap⟩ := specOp_valueAt_conv E .mul s (.real w) res x v hs hv
            simp only [Operand.valueAt] at hvb; cases hvb
            rw [ihl (.real w) w hla rfl, ihr (.spec s) va hrb hva]
            simp only [bind, Except.bind, BinOp.apply] at hap ⊢
            rw [mul_comm]; exact hap
        | add => cases hr
        | sub => cases hr
        | div => cases hr
      | real _ => cases hr
      | quantity _ => cases hr
      | badQuantity => cases hr
      | complex => cases hr
      | other => cases hr
    | quantity _ => cases hr
    | badQuantity => cases hr
    | complex => cases hr
    | other => cases hr

/-- the full pointwise statement: the object a program evaluates to has the value `v` at a
wavelength exactly when the same expression applied to the operands' values there is `v` — for all
programs over sources, unitless spectra, observations, scalars on either side of `×` -/
theorem program_pointwise_iff (E : Env K) (x : K) (p : Expr K) (o : Operand K) (v : K)
    (h : p.run = .ok o) : o.valueAt E x = .ok v ↔ p.denote E x = .ok v :=
  ⟨program_pointwise_conv E x p o v h, program_pointwise E x p o v h⟩

/-- two programs with the same pointwise meaning evaluate to objects with the same sampled values -/
theorem program_equiv (E : Env K) (x : K) (p q : Expr K) (o1 o2 : Operand K)
    (hp : p.run = .ok o1) (hq : q.run = .ok o2)
    (hden : ∀ v, p.denote E x = .ok v ↔ q.denote E x = .ok v) (v : K) :
    o1.valueAt E x = .ok v ↔ o2.valueAt E x = .ok v := by
  rw [program_pointwise_iff E x p o1 v hp, program_pointwise_iff E x q o2 v hq]; exact hden v

/-! ## deepening: compositional typing -/

/-- the class of the result of EVERY program is computed from its operators and the classes of its
leaves alone (`Shape.type` runs `typing` at every node; values, models and redshifts play no part) -/
theorem kind_compositional (p : Expr K) (o : Operand K) (h : p.run = .ok o) :
    (shape p).type = .ok o.tag :=
  run_type p o h

/-- hence two programs of the same shape — same operators, same classes of leaves — yield objects
of the same class whenever both run -/
theorem kind_determined_by_leaves {K' : Type} [Field K'] [LinearOrder K'] [IsStrictOrderedRing K']
    (p : Expr K) (q : Expr K') (o : Operand K) (o' : Operand K') (hs : shape p = shape q)
    (hp : p.run = .ok o) (hq : q.run = .ok o') : o.tag = o'.tag := by
  have h1 := run_type p o hp
  have h2 := run_type q o' hq
  rw [hs, h2] at h1
  injection h1 with h1; exact h1.symm

/-- and an ill-typed shape never runs: a program whose leaves' classes do not type raises, whatever
the values of the operands -/
theorem ill_typed_raises (p : Expr K) (e : Err) (h : (shape p).type = .error e) :
    ∃ e', p.run = .error e' := by
  cases hr : p.run with
  | error e' => exact ⟨e', rfl⟩
  | ok o => rw [run_type p o hr] at h; cases h

/-- the class the documented table assigns to a combination (`none`: not in the table); the
delegated `unitless × source` product is the commutative reading of the `source × unitless` row -/
def docKind (op : BinOp) (L : Kind) (t : OTag) : Option Kind :=
  match Generated.docOpTable.find? (fun row =>
      opOf row.2.1 == some op && (leftKinds row.1).contains L && (classTags row.2.2.1).contains t) with
  | some row =>
      if row.2.2.2.1 == "Source Spectrum" then some .source
      else if row.2.2.2.1 == "Unitless Spectrum" then some (if L == .source then .unitless else L)
      else none
  | none => if op == .mul && L.isUnitless && t == .spec .source then some .source else none

/-- the code's typing IS the documented table: for all 4 operators × the 5 documented left classes ×
all 12 operand classes (240 combinations), `typing` returns the class the regenerated table names
where the table lists the combination, and an error everywhere else -/
theorem doc_table_exact :
    allOps.all (fun op => docLeft.all fun L => allTags.all fun t =>
      (match typing op L t with | .ok k => some k | .error _ => none) == docKind op L t) = true := by
  decide

/-- a row flagged commutative in the docs: the swapped combination types to the documented class
as well (a thermal element on the left excepted, see `thermal_not_closed`; for a scalar on the left
`rmul_comm`) -/
def rowCommutes (row : String × String × String × String × Bool) : Bool :=
  !row.2.2.2.2 ||
  match opOf row.2.1 with
  | none => false
  | some op =>
      (leftKinds row.1).all fun L => (classTags row.2.2.1).all fun R =>
        match R with
        | .spec k =>
            k == .thermal ||
            (match typing op k (.spec L) with
             | .ok k' => if row.2.2.2.1 == "Source Spectrum" then k' == .source else k' == k
             | .error _ => false)
        | .real => true
        | _ => false

theorem doc_commutative_rows : Generated.docOpTable.all rowCommutes = true := by decide

/-! ## deepening: commutativity of sampled values -/

/-- `k * sp` sampled is `k · sp(x)` -/
theorem rmul_sampled (E : Env K) (v : K) (s r : Spec K) (x a : K) (h : rmul v s = .ok r)
    (ha : s.evalAt E x = .ok a) : r.evalAt E x = .ok (v * a) :=
  specOp_valueAt E .mul s (.real v) r x a v (v * a) h ha rfl (by rw [apply_mul, mul_comm])

/-- `unitless × source` IS `source × unitless`: the same object (class, model), not merely the same
values — the unitless operator delegates to the source's -/
theorem unitless_source_mul_comm (u src : Spec K) (hu : u.kind.isUnitless = true)
    (hs : src.kind = .source) : specOp .mul u (.spec src) = specOp .mul src (.spec u) := by
  have h1 : typing .mul u.kind (Operand.spec src).tag = .ok .source := by
    simp only [Operand.tag, hs]; cases hk : u.kind <;> simp [hk, Kind.isUnitless] at hu <;> rfl
  have h2 : typing .mul src.kind (Operand.spec u).tag = .ok .source := by
    simp only [Operand.tag, hs, typing, hu, if_true]
  have hnu : u.kind ≠ .observation := by intro h; rw [h] at hu; cases hu
  have t1 : resultTree .mul u (.spec src) =
      (do let b ← src.model; let a ← u.model; pure (Tree.bin .mul b a)) := by
    unfold resultTree
    split
    · rename_i h _; exact absurd h hnu
    · rename_i h _; exact absurd h hnu
    · simp only [hu, hs, and_self, if_true]
  have t2 : resultTree .mul src (.spec u) =
      (do let a ← src.model; let b ← u.model; pure (Tree.bin .mul a b)) := by
    unfold resultTree
    split
    · rename_i h _; rw [hs] at h; cases h
    · rename_i h _; rw [hs] at h; cases h
    · have : ¬ (src.kind.isUnitless = true ∧ u.kind = .source) := by
        rw [hs]; simp [Kind.isUnitless]
      simp only [this, if_false]
  unfold specOp
  rw [h1, h2, t1, t2]

/-- `+` and `×` between two spectra commute as far as sampled values go: wherever `a ∘ b` has the
value `v`, so has `b ∘ a` (source + source; unitless × unitless; source × unitless) -/
theorem add_mul_comm_sampled (E : Env K) (op : BinOp) (hop : op = .add ∨ op = .mul) (a b r1 r2 : Spec K)
    (x v : K) (h1 : specOp op a (.spec b) = .ok r1) (h2 : specOp op b (.spec a) = .ok r2)
    (hv : r1.evalAt E x = .ok v) : r2.evalAt E x = .ok v := by
  obtain ⟨va, vb, hva, hvb, hap⟩ := specOp_valueAt_conv E op a (.spec b) r1 x v h1 hv
  refine specOp_valueAt E op b (.spec a) r2 x vb va v h2 hvb hva ?_
  rcases hop with rfl | rfl
  · simp only [BinOp.apply] at hap ⊢; rw [add_comm]; exact hap
  · simp only [BinOp.apply] at hap ⊢; rw [mul_comm]; exact hap

/-- and for two unitless spectra of the same class the two products are of the same class -/
theorem same_kind_comm_kind (op : BinOp) (a b r1 r2 : Spec K) (hk : a.kind = b.kind)
    (h1 : specOp op a (.spec b) = .ok r1) (h2 : specOp op b (.spec a) = .ok r2) : r1.kind = r2.kind := by
  have t1 := specOp_kind op a (.spec b) r1 h1
  have t2 := specOp_kind op b (.spec a) r2 h2
  simp only [Operand.tag] at t1 t2
  rw [hk] at t1; rw [← hk] at t2 ; rw [hk] at t2
  rw [t1] at t2; injection t2

/-! ## deepening: distributivity and associativity of sampled values -/

/-- `(A + B) × U` and `A × U + B × U` (any sub-programs) evaluate to objects with the same sampled
values -/
theorem distrib_sampled (E : Env K) (x : K) (A B U : Expr K) (o1 o2 : Operand K)
    (h1 : (Expr.bin .mul (.bin .add A B) U).run = .ok o1)
    (h2 : (Expr.bin .add (.bin .mul A U) (.bin .mul B U)).run = .ok o2) (v : K) :
    o1.valueAt E x = .ok v ↔ o2.valueAt E x = .ok v := by
  apply program_equiv E x _ _ o1 o2 h1 h2
  intro v
  simp only [Expr.denote]
  cases hA : A.denote E x <;> cases hB : B.denote E x <;> cases hU : U.denote E x <;>
    simp [bind, Except.bind, BinOp.apply, add_mul]

/-- `(A × k) × U` and `A × (k × U)` for a real number `k` -/
theorem scalar_assoc_sampled (E : Env K) (x k : K) (A U : Expr K) (o1 o2 : Operand K)
    (h1 : (Expr.bin .mul (.bin .mul A (.operand (.real k))) U).run = .ok o1)
    (h2 : (Expr.bin .mul A (.bin .mul (.operand (.real k)) U)).run = .ok o2) (v : K) :
    o1.valueAt E x = .ok v ↔ o2.valueAt E x = .ok v := by
  apply program_equiv E x _ _ o1 o2 h1 h2
  intro v
  simp only [Expr.denote, Operand.valueAt]
  cases hA : A.denote E x <;> cases hU : U.denote E x <;>
    simp [bind, Except.bind, BinOp.apply, mul_assoc]

/-! ## deepening: operands that are never accepted -/

/-- a complex number is rejected by every operator of every spectrum class, with the exception
`rejectErr` names (`IncompatibleSources` from `_validate_other_mul_div`/`_validate_other_add_sub`,
`NotImplementedError` where the class has no such operator) — never a spectrum -/
theorem complex_operand_raises (op : BinOp) (self : Spec K) :
    specOp op self .complex = .error (rejectErr op self.kind) :=
  rejected_never_spectrum op self .complex _ (typing_invalid op self.kind _ (Or.inl rfl))

/-- a dimensioned, scaled-dimensionless (percent), array-valued or complex `Quantity` likewise -/
theorem bad_quantity_raises (op : BinOp) (self : Spec K) :
    specOp op self .badQuantity = .error (rejectErr op self.kind) :=
  rejected_never_spectrum op self .badQuantity _ (typing_invalid op self.kind _ (Or.inr (Or.inl rfl)))

/-- and so is anything that is neither a spectrum nor a number (ndarray, list, str, None) -/
theorem other_operand_raises (op : BinOp) (self : Spec K) :
    specOp op self .other = .error (rejectErr op self.kind) :=
  rejected_never_spectrum op self .other _ (typing_invalid op self.kind _ (Or.inr (Or.inr rfl)))

/-- for the documented classes and `×`, `/` that exception is `IncompatibleSources` -/
theorem invalid_multiplier_error (op : BinOp) (hop : op = .mul ∨ op = .div) (L : Kind) (hL : L ∈ docLeft) :
    rejectErr op L = .incompatibleSources := by
  simp only [docLeft, List.mem_cons, List.not_mem_nil, or_false] at hL
  rcases hop with rfl | rfl <;> rcases hL with rfl | rfl | rfl | rfl | rfl <;> rfl

/-- source × source -/
theorem source_mul_source_raises (a b : Spec K) (ha : a.kind = .source) (hb : b.kind = .source) :
    specOp .mul a (.spec b) = .error .incompatibleSources :=
  rejected_never_spectrum .mul a (.spec b) _ (by simp only [Operand.tag, ha, hb]; rfl)

/-- adding anything to (subtracting anything from) a unitless spectrum -/
theorem unitless_add_sub_raises (op : BinOp) (hop : op = .add ∨ op = .sub) (u : Spec K)
    (hu : u.kind.isUnitless = true) (o : Operand K) : specOp op u o = .error .notImplemented := by
  apply rejected_never_spectrum
  rcases hop with rfl | rfl <;> cases hk : u.kind <;> simp [hk, Kind.isUnitless] at hu <;> rfl

/-- unitless / source -/
theorem unitless_div_source_raises (u src : Spec K) (hu : u.kind.isUnitless = true)
    (hs : src.kind = .source) : specOp .div u (.spec src) = .error .incompatibleSources := by
  apply rejected_never_spectrum
  simp only [Operand.tag, hs]
  cases hk : u.kind <;> simp [hk, Kind.isUnitless] at hu <;> rfl

/-- inside a program: a failing sub-expression, or an inadmissible right operand of a spectrum,
fails the whole program — no spectrum comes out -/
theorem program_error_propagates (op : BinOp) (l r : Expr K) (e : Err)
    (h : l.run = .error e ∨ (∃ a, l.run = .ok a ∧ r.run = .error e)) :
    (Expr.bin op l r).run = .error e := by
  rcases h with h | ⟨a, ha, hr⟩
  · simp only [Expr.run, h, bind, Except.bind]
  · simp only [Expr.run, ha, hr, bind, Except.bind]

theorem program_invalid_operand_raises (op : BinOp) (l r : Expr K) (s : Spec K) (o : Operand K)
    (hl : l.run = .ok (.spec s)) (hr : r.run = .ok o)
    (ho : o.tag = .complex ∨ o.tag = .badQuantity ∨ o.tag = .other) :
    (Expr.bin op l r).run = .error (rejectErr op s.kind) := by
  simp only [Expr.run, hl, hr, bind, Except.bind]
  rw [rejected_never_spectrum op s o _ (typing_invalid op s.kind o.tag ho)]; rfl

/-! ## deepening: the result is a new object -/

/-- a result is a fresh object: redshift 0, no flux-scale model, and its model is its own tree -/
theorem result_fresh (op : BinOp) (self : Spec K) (o : Operand K) (r : Spec K)
    (h : specOp op self o = .ok r) :
    r.zs = ZState.init 0 .wavelengthOnly ∧ r.model = .ok r.tree := by
  obtain ⟨k, t, _, _, rfl⟩ := specOp_ok h
  exact ⟨rfl, ofTree_model k t⟩

/-- frame, left operand: the result is a function of the operand's class and of its `model` at the
time of the operation — not of its `_model`, `z`, `z_type` separately, and of nothing that is done
to the operand afterwards -/
theorem result_depends_on_model_left (op : BinOp) (s s' : Spec K) (o : Operand K)
    (hk : s.kind = s'.kind) (hm : s.model = s'.model) : specOp op s o = specOp op s' o := by
  unfold specOp; rw [resultTree_congr_left op s s' o hk hm, hk]

/-- frame, right operand -/
theorem result_depends_on_model_right (op : BinOp) (self s s' : Spec K)
    (hk : s.kind = s'.kind) (hm : s.model = s'.model) :
    specOp op self (.spec s) = specOp op self (.spec s') := by
  unfold specOp; rw [resultTree_congr_right op self s s' hk hm]; simp only [Operand.tag, hk]

/-- the result keeps the values its operands had when it was built: re-assigning the left operand's
redshift afterwards (`s.zs.setZ z'` is `sp.z = z'`) changes the operand, the result still samples to
the operator applied to the OLD values -/
theorem result_keeps_snapshot (E : Env K) (op : BinOp) (s : Spec K) (o : Operand K) (r : Spec K)
    (x va vb v z' : K) (h : specOp op s o = .ok r) (ha : s.evalAt E x = .ok va)
    (hb : o.valueAt E x = .ok vb) (hv : op.apply va vb = .ok v) :
    let s' : Spec K := { s with zs := s.zs.setZ z' }
    r.evalAt E x = .ok v ∧ (∀ r', specOp op s' o = .ok r' → ∀ va', s'.evalAt E x = .ok va' →
      ∀ v', op.apply va' vb = .ok v' → r'.evalAt E x = .ok v') :=
  ⟨specOp_valueAt E op s o r x va vb v h ha hb hv,
   fun r' h' va' ha' v' hv' => specOp_valueAt E op _ o r' x va' vb v' h' ha' hb hv'⟩

/-! ## non-vacuity of the deepened theorems (ℚ; `srcA` = 6, `srcB` = 4 flat sources, `band` = 1/2,
`redd` = 1/4, `obsA` the observation of `srcA` through `band`, `boxZ` a box source at z = 1) -/
section examples

example : ∃ va vb, srcA.evalAt exE 5 = .ok va ∧ (Operand.spec band).valueAt exE 5 = .ok vb ∧
    BinOp.mul.apply va vb = .ok (6 * (1/2)) :=
  op_pointwise_conv exE .mul srcA (.spec band) _ 5 (6 * (1/2)) ex_src_mul_band
    (by rw [ofTree_evalAt]; rfl)

/-- `2 * (obs * band)`: an observation and a reflected scalar in one program -/
theorem exProg_denote : exProg.denote exE 7 = .ok (2 * (6 * (1/2) * (1/2))) := by
  simp only [exProg, Expr.denote, Operand.valueAt, obsA_val, band_val, bind, Except.bind, BinOp.apply]
example : (Operand.spec (Spec.ofTree .observation
      (.bin .mul (.scale (.bin .mul (.leaf (.const1 6)) (.leaf (.const1 (1/2)))) 2)
        (.leaf (.const1 (1/2)))))).valueAt exE 7 = .ok (2 * (6 * (1/2) * (1/2))) :=
  (program_pointwise_iff exE 7 exProg _ _ exProg_run).mpr exProg_denote
example : exProg.denote exE 7 = .ok (2 * (6 * (1/2) * (1/2))) :=
  program_pointwise_conv exE 7 exProg _ _ exProg_run
    (program_pointwise exE 7 exProg _ _ exProg_run exProg_denote)

/-- typing of the same program from the classes of its leaves -/
example : (shape exProg).type = .ok (.spec .observation) := kind_compositional exProg _ exProg_run
example : (shape exProg).type = .ok (.spec .observation) := by decide

theorem ex_pA : (Expr.bin .mul (.operand (.spec srcA)) (.operand (.spec band))).run =
    .ok (.spec (Spec.ofTree .source (.bin .mul (.leaf (.const1 6)) (.leaf (.const1 (1/2)))))) := by
  simp only [Expr.run, ex_src_mul_band, bind, Except.bind, Except.map]
/-- `srcA * band` and `srcB * band`: the same shape with different values -/
theorem ex_pD : (Expr.bin .mul (.operand (.spec srcB)) (.operand (.spec band))).run =
    .ok (.spec (Spec.ofTree .source (.bin .mul (.leaf (.const1 4)) (.leaf (.const1 (1/2)))))) := by
  simp [Expr.run, specOp, typing, resultTree, srcB, band, Spec.ofTree, Operand.tag, Kind.isUnitless,
    Spec.model, ZState.model, ZState.init, bind, Except.bind, pure, Except.pure, Except.map]
example : (Operand.spec (Spec.ofTree .source (.bin .mul (.leaf (.const1 6)) (.leaf (.const1 (1/2))))) : Operand ℚ).tag
    = (Operand.spec (Spec.ofTree .source (.bin .mul (.leaf (.const1 4)) (.leaf (.const1 (1/2))))) : Operand ℚ).tag :=
  kind_determined_by_leaves (.bin .mul (.operand (.spec srcA)) (.operand (.spec band)))
    (.bin .mul (.operand (.spec srcB)) (.operand (.spec band))) _ _ rfl ex_pA ex_pD
example : ∃ e', (Expr.bin .mul (.operand (.spec srcA)) (.operand (.spec srcB))).run = .error e' :=
  ill_typed_raises _ .incompatibleSources (by decide)

example : docKind .div .source (.spec .source) = some .unitless := by decide
example : docKind .mul .reddening (.spec .source) = some .source := by decide
example : docKind .add .bandpass .real = none := by decide
example : rowCommutes ("Source Spectrum", "*", "Unitless Spectrum", "Source Spectrum", true) = true := by decide
example : rowCommutes ("Source Spectrum", "-", "Source Spectrum", "Source Spectrum", true) = true := by decide
example : rowCommutes ("Source Spectrum", "/", "Unitless Spectrum", "Source Spectrum", true) = false := by decide

example : (Spec.ofTree .source (.scale (.leaf (.const1 6)) 3) : Spec ℚ).evalAt exE 5 = .ok (3 * 6) :=
  rmul_sampled exE 3 srcA _ 5 6 ex_rmul (srcA_val 5)
example : specOp .mul band (.spec srcA) =
    .ok (Spec.ofTree .source (.bin .mul (.leaf (.const1 6)) (.leaf (.const1 (1/2))))) := by
  rw [unitless_source_mul_comm band srcA rfl rfl]; exact ex_src_mul_band
example : (Spec.ofTree .reddening (.bin .mul (.leaf (.const1 (1/4))) (.leaf (.const1 (1/2)))) : Spec ℚ).evalAt exE 5
    = .ok (1/2 * (1/4)) :=
  add_mul_comm_sampled exE .mul (Or.inr rfl) band redd _ _ 5 _ ex_band_mul_redd ex_redd_mul_band
    (by rw [ofTree_evalAt]; rfl)
example : (Spec.ofTree .source (.bin .add (.leaf (.const1 6)) (.leaf (.const1 4))) : Spec ℚ).kind =
    (Spec.ofTree .source (.bin .add (.leaf (.const1 4)) (.leaf (.const1 6))) : Spec ℚ).kind :=
  same_kind_comm_kind .add srcA srcB _ _ rfl ex_src_add_src ex_srcB_add_srcA

/-- (6 + 4)·½ = 6·½ + 4·½ on the objects -/
example : (Operand.spec (Spec.ofTree .source (.bin .add (.bin .mul (.leaf (.const1 6)) (.leaf (.const1 (1/2))))
      (.bin .mul (.leaf (.const1 4)) (.leaf (.const1 (1/2))))))).valueAt exE 5 = .ok ((6 + 4) * (1/2)) :=
  (distrib_sampled exE 5 _ _ _ _ _ exDistL_run exDistR_run _).mp
    (by simp only [Operand.valueAt, ofTree_evalAt]; rfl)
example : (Operand.spec (Spec.ofTree .source
      (.bin .mul (.leaf (.const1 6)) (.scale (.leaf (.const1 (1/2))) 3)))).valueAt exE 5 = .ok (6 * 3 * (1/2)) :=
  (scalar_assoc_sampled exE 5 3 _ _ _ _ exAssL_run exAssR_run _).mp
    (by simp only [Operand.valueAt, ofTree_evalAt]; rfl)
example : (Operand.spec (Spec.ofTree .source
      (.bin .mul (.leaf (.const1 6)) (.scale (.leaf (.const1 (1/2))) 3)))).valueAt exE 5 = .ok (6 * 3 * (1/2)) :=
  (program_equiv exE 5 exAssL exAssR _ _ exAssL_run exAssR_run
    (fun v => by
      simp only [exAssL, exAssR, Expr.denote, Operand.valueAt, srcA_val, band_val, bind, Except.bind,
        BinOp.apply, mul_assoc]) _).mp
    (by simp only [Operand.valueAt, ofTree_evalAt]; rfl)

example : specOp .mul srcA .complex = .error .incompatibleSources := complex_operand_raises .mul srcA
example : specOp .div band .badQuantity = .error .incompatibleSources := bad_quantity_raises .div band
example : specOp .add redd .other = .error .notImplemented := other_operand_raises .add redd
example : rejectErr .div .extcurve = .incompatibleSources :=
  invalid_multiplier_error .div (Or.inr rfl) .extcurve (by decide)
example : specOp .mul srcA (.spec srcB) = .error .incompatibleSources := source_mul_source_raises srcA srcB rfl rfl
example : specOp .add band (.real 1) = .error .notImplemented :=
  unitless_add_sub_raises .add (Or.inl rfl) band rfl (.real 1)
example : specOp .div band (.spec srcA) = .error .incompatibleSources :=
  unitless_div_source_raises band srcA rfl rfl
example : (Expr.bin .mul (.bin .mul (.operand (.spec srcA)) (.operand (.spec srcB))) (.operand (.spec band))).run
    = .error .incompatibleSources :=
  program_error_propagates .mul _ _ _ (Or.inl (by
    simp only [Expr.run, source_mul_source_raises srcA srcB rfl rfl, bind, Except.bind, Except.map]))
example : (Expr.bin .mul (.operand (.spec srcA)) (.operand .complex)).run = .error .incompatibleSources :=
  program_invalid_operand_raises .mul _ _ srcA .complex rfl rfl (Or.inl rfl)

example : ∃ r, specOp .mul srcA (.spec band) = .ok r ∧ r.zs = ZState.init 0 .wavelengthOnly ∧
    r.model = .ok r.tree :=
  ⟨_, ex_src_mul_band, result_fresh .mul srcA (.spec band) _ ex_src_mul_band⟩
/-- the box source at z = 1 and the same spectrum held as an already redshifted model: same results -/
example : specOp .mul boxZ (.real 2) = specOp .mul boxZ' (.real 2) :=
  result_depends_on_model_left .mul boxZ boxZ' (.real 2) rfl boxZ_model
example : specOp .mul band (.spec boxZ) = specOp .mul band (.spec boxZ') :=
  result_depends_on_model_right .mul band boxZ boxZ' rfl boxZ_model
/-- `r = boxZ * 2` built at z = 1 is 2 at wavelength 6; after `boxZ.z = 0` the operand is 0 there
(`boxZ_setZ_val`), `r` still 2 -/
example : (Spec.ofTree .source (.scale (.redshift 1 (.leaf (.box 1 3 2 none))) 2) : Spec ℚ).evalAt exE 6
    = .ok (1 * 2) :=
  (result_keeps_snapshot exE .mul boxZ (.real 2) _ 6 1 2 (1 * 2) 0 ex_boxZ_mul boxZ_val rfl rfl).1

end examples

end Synphot.C02
