import Synphot.Core.Basic
import Synphot.Core.Binning
import Synphot.Core.PixRange
import Synphot.Driver.Main
