import Synphot.Driver.Objects

open Lean Synphot

namespace Synphot.Driver

def dispatchC02M (op : String) (j : Json) : M Json := do
  match op with
  | "expr" => do
      -- evaluate an expression program, report the class of the result and its samples
      let E ← envOf j
      let xs ← fRats j "xs"
      let r ← getField j "expr" >>= evalExpr
      match r with
      | .error e => pure (Json.mkObj [("err", Json.str e.name)])
      | .ok (.spec s) =>
          match sampleSpec E s xs with
          | .error e => pure (Json.mkObj [("ok", Json.mkObj [("kind", Json.str (kindName s.kind)),
                                ("sample_err", Json.str e.name)])])
          | .ok v => pure (Json.mkObj [("ok", Json.mkObj [("kind", Json.str (kindName s.kind)),
                                ("vals", jRats v)])])
      | .ok _ => pure (Json.mkObj [("ok", Json.mkObj [("kind", Json.str "scalar")])])
  | _ => .error s!"unknown op {op}"

def dispatchC02 (op : String) (j : Json) : Option (M Json) :=
  if op ∈ ["expr"] then some (dispatchC02M op j) else none

end Synphot.Driver
