import Synphot.Driver.Objects
import Synphot.Core.Heap
import Synphot.Core.Trapz

/-
  C19 driver: replay a history of public calls on the store model (`Core/Heap.lean`, K = ℚ, the code
  version `Fixes.current`) and report, after every call, what the model says changed: contents of
  caller-owned arrays and dictionaries, `np.geterr()`, which live objects read something that was
  written, which objects' metadata changed; plus outcome class, the metadata of new objects and
  exact samples of new / changed objects on a probe grid (where the model knows the numbers).
-/

open Lean Synphot Synphot.HeapModel

namespace Synphot.Driver
namespace C19

def parseErrName (s : String) : M Err :=
  match [Err.zeroWavelength, .unsortedWavelength, .duplicateWavelength, .unitError, .synphotError,
         .overlapError, .partialOverlap, .disjointError, .incompatibleSources,
         .interpolationNotAllowed, .undefinedBinset, .notImplemented, .indexError, .zeroDivision, .nan,
         .typeError, .valueError, .fileError, .lookupError, .unboundLocal].find? (fun e => e.name == s) with
  | some e => pure e
  | none => .error s!"unknown error class {s}"

def optErr (j : Json) (k : String) : M (Option Err) :=
  match fOpt j k with
  | none => pure none
  | some v => do
      let s ← asStr v
      let e ← parseErrName s
      pure (some e)

def optRats (j : Json) (k : String) : M (List Rat) :=
  match fOpt j k with
  | none => pure []
  | some v => asRats v

def parseContainer (s : String) : M Container :=
  match s with
  | "ndarray" => pure .ndarray | "list" => pure .list
  | "q_int" => pure .quantityInternal | "q_other" => pure .quantityOther
  | s => .error s!"unknown container {s}"

def parseDict (j : Json) : M Dict := do
  let l ← asArr j
  l.mapM fun kv => do
    match kv with
    | .arr #[.str k, .str v] => pure (k, v)
    | _ => .error "expected [key, value]"

def jDict (d : Dict) : Json := Json.arr (d.map fun kv => Json.arr #[Json.str kv.1, Json.str kv.2]).toArray

def parseOverlap (s : String) : M Overlap :=
  match s with
  | "full" => pure .full | "partial_most" => pure .partialMost
  | "partial_notmost" => pure .partialNotMost | "none" => pure .none
  | s => .error s!"unknown overlap verdict {s}"

/-- `force = force.lower()`; `'none'`, `'taper'`, anything starting with `'extrap'`, else invalid -/
def parseForce (s : String) : M Force :=
  let t := String.ofList (s.toList.map Char.toLower)
  if t == "none" then pure .none
  else if t == "taper" then pure .taper
  else if t.startsWith "extrap" then pure .extrap
  else pure .bogus

def parseIType (s : String) : M IntegType :=
  match s with
  | "default" => pure .default | "trapezoid" => pure .trapezoid | "analytical" => pure .analytical
  | _ => pure .bogus

def parseWaveArg (j : Json) (k : String) : M (WaveArg Rat) :=
  match fOpt j k with
  | none => pure .default
  | some v => do
      let i ← fNat v "w"
      let conv ← optRats v "conv"
      pure (.cell i conv)

def parseTaperData (j : Json) : M (TaperData Rat) := do
  let xs ← optRats j "xs"
  let ys ← optRats j "ys"
  let front := match fOpt j "front" with | some (.bool b) => b | _ => false
  let back := match fOpt j "back" with | some (.bool b) => b | _ => false
  pure { xs := xs, ys := ys, front := front, back := back }

def parseArg (j : Json) : M (Arg Rat) :=
  match fOpt j "obj", fOpt j "real", fOpt j "quantity" with
  | some v, _, _ => do pure (.obj (← asNat v))
  | _, some v, _ => do pure (.real (← asRat v))
  | _, _, some v => do pure (.quantity (← asRat v))
  | _, _, _ => do
      let s ← fStr j "bad"
      pure (.bad (match s with
        | "badQuantity" => .badQuantity
        | "complex" => .complex
        | _ => .other))

/-- the constructor keyword `fill_value=`: absent, `"nan"`, or a number -/
def parseFill (j : Json) : M (FillArg Rat) :=
  match fOpt j "fill" with
  | none => pure .default
  | some (.str "nan") => pure .nan
  | some v => do pure (.value (← asRat v))

/-- the constructor keywords `z=`, `z_type=` -/
def parseZInit (j : Json) : M (Option (Rat × ZType)) :=
  match fOpt j "z" with
  | none => pure none
  | some v => do
      let z ← asRat v
      pure (some (z, parseZType j))

/-- second component: the call's numerical data was not supplied (results are then opaque) -/
def parseCall (j : Json) : M (Call Rat × Bool) := do
  let kind ← fStr j "do"
  match kind with
  | "new_empirical" => do
      let k ← fStr j "kind" >>= parseKind
      let md ← match fOpt j "meta" with
        | some v => (asNat v).map some
        | none => pure none
      pure (.newEmpirical k (← fNat j "x") (← fNat j "y") (← optRats j "xconv") (← optRats j "yconv")
              (← fBool j "keep_neg") md (← parseFill j) (← parseZInit j), false)
  | "new_analytic" => do
      let k ← fStr j "kind" >>= parseKind
      let (l, _) ← getField j "leaf" >>= parseLeaf
      pure (.newAnalytic k l (← parseZInit j), false)
  | "new_blackbody" => do pure (.newBlackBody (← fRat j "temp") (← fStr j "expr") (← parseZInit j), false)
  | "sample" => do pure (.sample (← fNat j "o") (← fNat j "w") (← optRats j "conv"), false)
  | "arith" => do
      let op ← fStr j "op" >>= parseOp
      let b ← getField j "b" >>= parseArg
      pure (.arith op (← fNat j "a") b, false)
  | "rmul" => do pure (.rmul (← fRat j "v") (← fNat j "a"), false)
  | "normalize" => do
      let stat ← fStr j "stat" >>= parseOverlap
      let (k, opq) ← match fOpt j "k" with
        | some v => do pure (← asRat v, false)
        | none => pure ((1 : Rat), true)
      pure (.normalize (← fNat j "o") (← fNat j "band") (← fBool j "force") stat k (← optErr j "num_err"), opq)
  | "taper" => do pure (.taper (← fNat j "o") (← parseTaperData j), false)
  | "observation" => do
      let stat ← fStr j "stat" >>= parseOverlap
      let force ← fStr j "force" >>= parseForce
      let binset ← match fOpt j "binset" with
        | none => pure none
        | some v => do
            let i ← fNat v "w"
            let conv ← optRats v "conv"
            pure (some (i, conv))
      pure (.observation (← fNat j "src") (← fNat j "band") force stat binset (← parseTaperData j)
              (← optErr j "num_err"), false)
  | "integrate" => do
      let t ← fStr j "itype" >>= parseIType
      pure (.integrate (← fNat j "o") (← parseWaveArg j "w") t (← optErr j "num_err"), false)
  | "query" => do pure (.query (← fNat j "o") (← parseWaveArg j "w") (← optErr j "num_err"), false)
  | "to_fits" => do
      let ext ← match fOpt j "ext" with
        | some v => (asNat v).map some
        | none => pure none
      pure (.toFits (← fNat j "o") (← parseWaveArg j "w") ext (← optErr j "io_err"), false)
  | "utility" => do
      let arrs ← (← fArr j "arrs").mapM asNat
      let dicts ← (← fArr j "dicts").mapM asNat
      pure (.utility arrs dicts (← optErr j "out"), false)
  | "set_z" => do pure (.setZ (← fNat j "o") (← fRat j "z"), false)
  | "set_z_bad" => do pure (.setZBad (← fNat j "o"), false)
  | "set_ztype" => do
      let t ← fStr j "t"
      match t with
      | "wavelength_only" => pure (.setZType (← fNat j "o") .wavelengthOnly, false)
      | "conserve_flux" => pure (.setZType (← fNat j "o") .conserveFlux, false)
      | _ => pure (.setZTypeBad (← fNat j "o"), false)
  | "force_extrap" => do pure (.forceExtrap (← fNat j "o"), false)
  | "set_warnings" => do pure (.setWarnings (← fNat j "o") (← getField j "w" >>= parseDict), false)
  | "set_meta" => do pure (.setMeta (← fNat j "o") (← fStr j "k") (← fStr j "v"), false)
  | s => .error s!"unknown call {s}"

def jNat (n : Nat) : Json := toJson n

def jNpErr (g : NpErr) : Json :=
  if g = NpErr.default then Json.str "default"
  else if g = NpErr.allIgnore then Json.str "ignore"
  else Json.str "other"

def jMeta (m : Meta) : Json :=
  Json.mkObj [("warnings", jDict m.warnings), ("entries", jDict m.entries)]

/-- trees whose numbers the driver does not report: a black body (Planck's law is C16's subject) or a
quotient of spectra (where the divisor is close to 0 the quotient amplifies the rounding of the
wavelength conversion without bound; quotients are C02's subject) -/
def HTree.hasBB : HTree Rat → Bool
  | .tab _ | .ana _ => false
  | .bb _ => true
  | .bin .div _ _ => true
  | .bin _ l r => HTree.hasBB l || HTree.hasBB r
  | .scale m _ => HTree.hasBB m
  | .redshift _ m => HTree.hasBB m

/-- everything sampling object `o` reads, as comparable data -/
def viewOf (h : Heap Rat) (o : Nat) :
    Option ((Rat × Bool × Option Rat) × List (Bool × Bool × Bool × List Rat × List Rat)) :=
  match h.objs[o]? with
  | none => none
  | some ob =>
      let zt := match ob.zs.zType with | .wavelengthOnly => false | .conserveFlux => true
      some ((ob.zs.z, zt, ob.zs.fluxScale),
        ob.tree.tables.map fun m =>
          match h.tables[m]? with
          | none => (false, false, false, [], [])
          | some c =>
              (c.fillNaN, c.keepNeg, c.rev,
               ((h.arrays[c.pts]?).map (·.data)).getD [], ((h.arrays[c.vals]?).map (·.data)).getD []))

def jOutcome : Outcome Rat → Json
  | .err e => Json.mkObj [("err", Json.str e.name)]
  | .ok .none => Json.mkObj [("ok", Json.null)]
  | .ok (.obj i) => Json.mkObj [("ok", Json.mkObj [("obj", jNat i)])]
  | .ok (.objs i k) => Json.mkObj [("ok", Json.mkObj [("objs", Json.arr #[jNat i, jNat k])])]
  | .ok (.vals v) => Json.mkObj [("ok", Json.mkObj [("vals", jRats v)])]
  | .ok (.flag b) => Json.mkObj [("ok", Json.mkObj [("flag", Json.bool b)])]

/-- ids of the objects a call's result depends on (for opacity of numbers) -/
def callOperands : Call Rat → List Nat
  | .arith _ a (.obj b) => [a, b]
  | .arith _ a _ => [a]
  | .rmul _ a => [a]
  | .normalize o _ _ _ _ _ => [o]
  | .observation s b .. => [s, b]
  | _ => []

def resultIds : Outcome Rat → List Nat
  | .ok (.obj i) => [i]
  | .ok (.objs i k) => [i, k]
  | _ => []

def sampleJson (env : HEnv Rat) (h : Heap Rat) (opq : List Nat) (o : Nat) (probe : List Rat) : Json :=
  match h.objs[o]? with
  | none => Json.null
  | some ob =>
      if opq.contains o || HTree.hasBB ob.tree then Json.null
      else match sample env h o probe with
        | .ok v => jRats v
        | .error e => Json.mkObj [("err", Json.str e.name)]

/-- the default-wavelength readings of object `o` in its current state: size and range of `waveset`,
`integrate()` (trapezoid of |samples| over the waveset) and, for a bandpass, `avgwave()` -/
def readingJson (env : HEnv Rat) (thr : Rat) (bbss : Rat → Option (List Rat)) (h : Heap Rat)
    (opq : List Nat) (o : Nat) : Json :=
  match waveset thr bbss h o with
  | .error e => Json.mkObj [("err", Json.str e.name)]
  | .ok none => Json.mkObj [("none", Json.bool true)]
  | .ok (some w) =>
      let base := [("n", jNat w.length), ("lo", jRat (w.headD 0)), ("hi", jRat (w.getLastD 0))]
      let numeric := match h.objs[o]? with
        | some ob => !(opq.contains o || HTree.hasBB ob.tree)
        | none => false
      if !numeric then Json.mkObj base else
      match sample env h o w with
      | .error _ => Json.mkObj base
      | .ok y =>
          let integ : Rat := |trapzXY w (y.map fun v => |v|)|
          let isBand : Bool := match h.objs[o]? with | some ob => decide (ob.kind = .bandpass) | none => false
          let avg : List (String × Json) :=
            if isBand then
              let num := trapzXY w (List.zipWith (· * ·) y w)
              let den := trapzXY w y
              [("avg", jRat (if den = 0 then 0 else |num / den|))]
            else []
          Json.mkObj (base ++ [("integ", jRat integ)] ++ avg)

def dispatchC19M (op : String) (j : Json) : M Json := do
  match op with
  | "heap_history" => do
      let E ← envOf j
      let env : HEnv Rat := { E := E, planck := fun _ _ => 0 }
      let probe ← fRats j "probe"
      let arrs ← (← fArr j "arrays").mapM fun a => do
        let d ← fRats a "data"
        let c ← fStr a "container" >>= parseContainer
        pure ({ data := d, container := c, caller := true } : ArrCell Rat)
      let dicts ← (← fArr j "dicts").mapM parseDict
      let steps ← fArr j "steps"
      -- the code version: `Fixes.current` unless the case names the repairs it was run against
      -- (scratch-worktree runs against other code versions, e.g. C19_FIXES=clip,ext for the code
      -- before fa5dbd7)
      let fx : Fixes := match fOpt j "fixes" with
        | some (.str s) =>
            let l := s.splitOn ","
            { copyBeforeClip := l.contains "clip", copyExtHeader := l.contains "ext",
              errstate := l.contains "errstate" }
        | _ => Fixes.current
      let thr ← match fOpt j "thr" with
        | some v => asRat v
        | none => pure (1 / 1000000000000 : Rat)
      let ncaller := arrs.length
      let mut bbTab : List (Rat × List Rat) := []
      let mut h : Heap Rat := Heap.init arrs dicts
      let mut opq : List Nat := []
      let mut outs : Array Json := #[]
      for s in steps do
        let (c, dataMissing) ← parseCall s
        -- a black body's sampling set is data (`BlackBody1D.sampleset()`)
        match c, fOpt s "ss" with
        | .newBlackBody t _ _, some v => do
            let ss ← asRats v
            bbTab := (t, ss) :: bbTab
        | _, _ => pure ()
        let bbss : Rat → Option (List Rat) := fun t => (bbTab.find? fun p => p.1 == t).map (·.2)
        let (h', out) := step fx env h c
        let nOld := h.objs.length
        let newIds := (List.range (h'.objs.length - nOld)).map (· + nOld)
        -- opacity of the numbers of new objects
        if dataMissing || (callOperands c).any opq.contains then
          opq := opq ++ newIds
        -- a result that is an existing object (taper returning self) is not new
        let arrCh := (List.range ncaller).filterMap fun (i : Nat) =>
          match h.arrays[i]?, h'.arrays[i]? with
          | some a, some b => if a.data == b.data then none else some (Json.arr #[jNat i, jRats b.data])
          | _, _ => none
        let dictCh := (List.range dicts.length).filterMap fun (i : Nat) =>
          match h.dicts[i]?, h'.dicts[i]? with
          | some a, some b => if a == b then none else some (Json.arr #[jNat i, jDict b])
          | _, _ => none
        let objCh := (List.range nOld).filter fun (o : Nat) => viewOf h o != viewOf h' o
        let metaCh := (List.range nOld).filter fun (o : Nat) =>
          ((h.objs[o]?).map (·.md)) != ((h'.objs[o]?).map (·.md))
        let metas := (metaCh ++ newIds).map fun o =>
          (toString o, match h'.objs[o]? with | some ob => jMeta ob.md | none => Json.null)
        let samples := (objCh ++ newIds).map fun o => (toString o, sampleJson env h' opq o probe)
        let dflt := (objCh ++ newIds).map fun o => (toString o, readingJson env thr bbss h' opq o)
        let kinds := newIds.map fun o =>
          (toString o, match h'.objs[o]? with | some ob => Json.str (kindName ob.kind) | none => Json.null)
        -- values of an object whose numbers the model does not know are not reported
        let unknown := Json.mkObj [("ok", Json.mkObj [("vals", Json.null)])]
        let isOpq := fun (o : Nat) => match h.objs[o]? with
          | some ob => opq.contains o || HTree.hasBB ob.tree
          | none => false
        let outJ := match c, out with
          | .sample o _ _, .ok (.vals _) => if isOpq o then unknown else jOutcome out
          | .sample o _ _, .err .nan => if isOpq o then unknown else jOutcome out
          | _, _ => jOutcome out
        outs := outs.push (Json.mkObj [
          ("out", outJ),
          ("arr", Json.arr arrCh.toArray),
          ("dict", Json.arr dictCh.toArray),
          ("np", jNpErr h'.npErr),
          ("units", jNat h'.units),
          ("integ", Json.str (match h'.integrator with | .trapezoid => "trapezoid" | .analytical => "analytical")),
          ("objs", Json.arr (objCh.map fun o => jNat o).toArray),
          ("meta_changed", Json.arr (metaCh.map fun o => jNat o).toArray),
          ("meta", Json.mkObj metas),
          ("kinds", Json.mkObj kinds),
          ("samples", Json.mkObj samples),
          ("dflt", Json.mkObj dflt)])
        -- the harness restores a process-wide setting it finds changed before it continues
        h := { h' with npErr := NpErr.default }
      pure (Json.mkObj [("ok", Json.arr outs)])
  | _ => .error s!"unknown op {op}"

end C19

def dispatchC19 (op : String) (j : Json) : Option (M Json) :=
  if op ∈ ["heap_history"] then some (C19.dispatchC19M op j) else none

end Synphot.Driver
