/-
  Helper lemmas for the deepened C04 theorems: the three tests of `validate_wavelengths` under a map of
  the entries (order-preserving, order-reversing, injective), hence the verdict under a positive scale and
  under `x ↦ c/x`; adjacent duplicates vs. duplicates; conversion-then-validation as a function of the
  verdict; trapezoid sums on a reversed grid.
-/
import Mathlib.Tactic.Ring
import Mathlib.Tactic.FieldSimp
import Mathlib.Tactic.Linarith
import Synphot.Lemmas.Wave
import Synphot.Lemmas.Trapz
import Synphot.Lemmas.Binning
import Synphot.Lemmas.C09x
import Synphot.Core.WaveUnit

set_option linter.unusedSectionVars false
set_option linter.unusedSimpArgs false
set_option linter.unusedVariables false

namespace Synphot.C04x
open Synphot
variable {K : Type} [Field K] [LinearOrder K] [IsStrictOrderedRing K]

/-! ### the three tests under a map of the entries -/

/-- a map that preserves `≤` between the entries of the list preserves the weak-ascending test -/
theorem weakAsc_map_mono (f : K → K) : ∀ (w : List K), (∀ a ∈ w, ∀ b ∈ w, (f a ≤ f b ↔ a ≤ b)) →
    WeakAsc (w.map f) = WeakAsc w ∧ WeakDesc (w.map f) = WeakDesc w := by
  intro w
  induction w with
  | nil => intro _; exact ⟨rfl, rfl⟩
  | cons a l ih =>
    intro h
    cases l with
    | nil => exact ⟨rfl, rfl⟩
    | cons b l =>
      have ih' := ih (fun x hx y hy => h x (List.mem_cons_of_mem _ hx) y (List.mem_cons_of_mem _ hy))
      have hab := h a (by simp) b (by simp)
      have hba := h b (by simp) a (by simp)
      simp only [List.map_cons, WeakAsc, WeakDesc] at ih' ⊢
      rw [ih'.1, ih'.2]
      exact ⟨by simp only [hab], by simp only [hba]⟩

/-- a map that reverses `≤` between the entries exchanges the two tests -/
theorem weakAsc_map_anti (f : K → K) : ∀ (w : List K), (∀ a ∈ w, ∀ b ∈ w, (f a ≤ f b ↔ b ≤ a)) →
    WeakAsc (w.map f) = WeakDesc w ∧ WeakDesc (w.map f) = WeakAsc w := by
  intro w
  induction w with
  | nil => intro _; exact ⟨rfl, rfl⟩
  | cons a l ih =>
    intro h
    cases l with
    | nil => exact ⟨rfl, rfl⟩
    | cons b l =>
      have ih' := ih (fun x hx y hy => h x (List.mem_cons_of_mem _ hx) y (List.mem_cons_of_mem _ hy))
      have hab := h a (by simp) b (by simp)
      have hba := h b (by simp) a (by simp)
      simp only [List.map_cons, WeakAsc, WeakDesc] at ih' ⊢
      rw [ih'.1, ih'.2]
      exact ⟨by simp only [hab], by simp only [hba]⟩

/-- a map that is injective on the entries preserves the adjacent-duplicate test -/
theorem hasAdjEq_map_inj (f : K → K) : ∀ (w : List K), (∀ a ∈ w, ∀ b ∈ w, (f a = f b ↔ a = b)) →
    HasAdjEq (w.map f) = HasAdjEq w := by
  intro w
  induction w with
  | nil => intro _; rfl
  | cons a l ih =>
    intro h
    cases l with
    | nil => rfl
    | cons b l =>
      have ih' := ih (fun x hx y hy => h x (List.mem_cons_of_mem _ hx) y (List.mem_cons_of_mem _ hy))
      have hab := h a (by simp) b (by simp)
      simp only [List.map_cons, HasAdjEq] at ih' ⊢
      rw [ih']
      simp only [hab]

theorem any_nonpos_map (f : K → K) (w : List K) (h : ∀ a ∈ w, (f a ≤ 0 ↔ a ≤ 0)) :
    (w.map f).any (fun x => decide (x ≤ 0)) = w.any (fun x => decide (x ≤ 0)) := by
  induction w with
  | nil => rfl
  | cons a l ih =>
    simp only [List.map_cons, List.any_cons]
    rw [ih (fun x hx => h x (List.mem_cons_of_mem _ hx))]
    simp only [h a (by simp)]

/-- the verdict is invariant under a positive scale (a change of length unit) -/
theorem validate_scale (k : K) (hk : 0 < k) (w : List K) :
    validateWavelengths (w.map (· * k)) = validateWavelengths w := by
  unfold validateWavelengths
  have h1 := weakAsc_map_mono (· * k) w (fun a _ b _ => mul_le_mul_iff_of_pos_right hk)
  have h2 := hasAdjEq_map_inj (· * k) w (fun a _ b _ => mul_left_inj' hk.ne')
  have h3 := any_nonpos_map (· * k) w (fun a _ => by
    constructor
    · intro h; by_contra hc; exact absurd h (not_le.mpr (mul_pos (not_le.mp hc) hk))
    · intro h; exact mul_nonpos_of_nonpos_of_nonneg h hk.le)
  rw [h1.1, h1.2, h2, h3]

/-- on positive entries `x ↦ c/x` (`c > 0`) reverses the order and is injective -/
theorem recip_le_iff (c : K) (hc : 0 < c) (a b : K) (ha : 0 < a) (hb : 0 < b) : c / a ≤ c / b ↔ b ≤ a := by
  rw [div_le_div_iff₀ ha hb]
  constructor
  · intro h; exact le_of_mul_le_mul_left h hc
  · intro h; exact mul_le_mul_of_nonneg_left h hc.le

theorem recip_eq_iff (c : K) (hc : 0 < c) (a b : K) (ha : 0 < a) (hb : 0 < b) : c / a = c / b ↔ a = b := by
  constructor
  · intro h
    have h1 := (recip_le_iff c hc a b ha hb).mp (le_of_eq h)
    have h2 := (recip_le_iff c hc b a hb ha).mp (le_of_eq h.symm)
    exact le_antisymm h2 h1
  · intro h; rw [h]

/-- the verdict of a positive list is invariant under `x ↦ c/x` (a change to a frequency or wavenumber
unit); the direction flips -/
theorem validate_recip (c : K) (hc : 0 < c) (w : List K) (hpos : ∀ x ∈ w, 0 < x) :
    validateWavelengths (w.map (c / ·)) = validateWavelengths w ∧
    WeakAsc (w.map (c / ·)) = WeakDesc w ∧ WeakDesc (w.map (c / ·)) = WeakAsc w := by
  have h1 := weakAsc_map_anti (c / ·) w (fun a ha b hb => recip_le_iff c hc a b (hpos a ha) (hpos b hb))
  have h2 := hasAdjEq_map_inj (c / ·) w (fun a ha b hb => recip_eq_iff c hc a b (hpos a ha) (hpos b hb))
  have h3 := any_nonpos_map (c / ·) w (fun a ha => by
    constructor
    · intro h; exact absurd (div_pos hc (hpos a ha)) (not_lt.mpr h)
    · intro h; exact absurd (hpos a ha) (not_lt.mpr h))
  refine ⟨?_, h1.1, h1.2⟩
  unfold validateWavelengths
  rw [h1.1, h1.2, h2, h3]
  cases WeakAsc w <;> cases WeakDesc w <;> rfl

/-! ### duplicates -/

theorem hasAdjEq_not_nodup : ∀ (w : List K), HasAdjEq w = true → ¬ w.Nodup := by
  intro w
  induction w with
  | nil => intro h; simp [HasAdjEq] at h
  | cons a l ih =>
    cases l with
    | nil => intro h; simp [HasAdjEq] at h
    | cons b l =>
      intro h hn
      simp only [HasAdjEq, Bool.or_eq_true, decide_eq_true_eq] at h
      rcases h with rfl | h
      · exact (List.nodup_cons.mp hn).1 (by simp)
      · exact ih h (List.nodup_cons.mp hn).2

/-- in a weakly monotone list, "two equal neighbours" is "some value occurs twice" -/
theorem hasAdjEq_iff_not_nodup (w : List K) (hm : WeakAsc w = true ∨ WeakDesc w = true) :
    HasAdjEq w = true ↔ ¬ w.Nodup := by
  constructor
  · exact hasAdjEq_not_nodup w
  · intro hn
    by_contra hc
    have hc' : HasAdjEq w = false := by simpa using hc
    apply hn
    rcases hm with hm | hm
    · have hs : StrictAsc w := (strictAsc_iff w).mpr ⟨hm, hc'⟩
      have hp : w.Pairwise (· < ·) := by
        rw [strictAsc_iff_chain] at hs
        rw [← List.isChain_iff_pairwise]; exact hs
      exact hp.imp (fun h => ne_of_lt h)
    · have hs : StrictDesc w := (strictDesc_iff w).mpr ⟨hm, hc'⟩
      have hp : w.Pairwise (fun a b => b < a) := by
        rw [strictDesc_iff_chain] at hs
        rw [← List.isChain_iff_pairwise]; exact hs
      exact hp.imp (fun h => ne_of_gt h)

/-- two equal neighbours, in index form -/
theorem hasAdjEq_iff_index : ∀ (w : List K), HasAdjEq w = true ↔ ∃ i, ∃ a, w[i]? = some a ∧ w[i + 1]? = some a := by
  intro w
  induction w with
  | nil => simp [HasAdjEq]
  | cons a l ih =>
    cases l with
    | nil => simp [HasAdjEq]
    | cons b l =>
      simp only [HasAdjEq, Bool.or_eq_true, decide_eq_true_eq, ih]
      constructor
      · rintro (rfl | ⟨i, v, h1, h2⟩)
        · exact ⟨0, a, rfl, rfl⟩
        · exact ⟨i + 1, v, by simpa using h1, by simpa using h2⟩
      · rintro ⟨i, v, h1, h2⟩
        cases i with
        | zero =>
          left
          simp at h1 h2
          rw [h1, h2]
        | succ i => exact Or.inr ⟨i, v, by simpa using h1, by simpa using h2⟩

/-! ### conversion then validation -/

theorem mapM_ok_map (f : K → Except Err K) (g : K → K) : ∀ (w : List K), (∀ x ∈ w, f x = .ok (g x)) →
    w.mapM f = .ok (w.map g) := by
  intro w
  induction w with
  | nil => intro _; rfl
  | cons a l ih =>
    intro h
    rw [List.mapM_cons, h a (by simp), ih (fun x hx => h x (List.mem_cons_of_mem _ hx))]
    rfl

/-- `validate` then return, as a function of the verdict -/
def thenReturn (v : Except Err Unit) (wa : List K) : Except Err (List K) :=
  match v with
  | .ok _ => .ok wa
  | .error e => .error e

theorem validateIn_of_conv (cAA : K) (u : WaveUnit K) (w : List K) (g : K → K)
    (h : ∀ x ∈ w, u.toAngstrom cAA x = .ok (g x)) :
    validateIn cAA u w = thenReturn (validateWavelengths (w.map g)) (w.map g) := by
  unfold validateIn
  rw [mapM_ok_map _ g w h]
  simp only [bind, Except.bind, thenReturn]
  cases validateWavelengths (w.map g) <;> rfl

/-! ### trapezoid sums on a reversed grid -/

theorem trapzXY_reverse (x y : List K) (h : x.length = y.length) :
    trapzXY x.reverse y.reverse = - trapzXY x y := by
  unfold trapzXY
  rw [C09.zip_reverse_eq x y h, trapz_reverse]

theorem zip_map_reverse (x y : List K) (h : x.length = y.length) (f : K × K → K) :
    (x.reverse.zip y.reverse).map f = ((x.zip y).map f).reverse := by
  rw [C09.zip_reverse_eq x y h, List.map_reverse]

theorem strictAsc_map_mul (c : K) (hc : 0 < c) : ∀ l : List K, StrictAsc l → StrictAsc (l.map (· * c)) := by
  intro l
  induction l with
  | nil => intro _; trivial
  | cons a l ih =>
    intro h
    cases l with
    | nil => trivial
    | cons b l =>
      obtain ⟨hab, h'⟩ := h
      exact ⟨mul_lt_mul_of_pos_right hab hc, ih h'⟩

end Synphot.C04x
