/-
  C04 — Sampling wavelengths: unit- and order-equivariant, invalid sets always rejected.
-/
import Synphot.Lemmas.Wave
import Synphot.Lemmas.Trapz
import Synphot.Lemmas.ObsPhot
import Synphot.Core.WaveUnit
import Synphot.Lemmas.C04x
import Synphot.Lemmas.C03x
import Synphot.Lemmas.Binning
import Mathlib.Algebra.Order.Field.Rat
import Mathlib.Tactic.NormNum

set_option linter.unusedSectionVars false
set_option linter.unusedVariables false
set_option linter.unusedSimpArgs false

namespace Synphot.C04
open Synphot
variable {K : Type} [Field K] [LinearOrder K] [IsStrictOrderedRing K]

/-! ### the validator -/

/-- accepted exactly when every value is positive and the sequence is strictly monotone -/
theorem validate_spec (w : List K) :
    validateWavelengths w = .ok () ↔ ((∀ x ∈ w, 0 < x) ∧ (StrictAsc w ∨ StrictDesc w)) :=
  validate_ok_iff w

/-- the specific error: zero/negative first, then non-monotone, then duplicate -/
theorem error_classes (w : List K) :
    (validateWavelengths w = .error .zeroWavelength ↔ ∃ x ∈ w, x ≤ 0) ∧
    (validateWavelengths w = .error .unsortedWavelength ↔
      ((∀ x ∈ w, 0 < x) ∧ WeakAsc w = false ∧ WeakDesc w = false)) ∧
    (validateWavelengths w = .error .duplicateWavelength ↔
      ((∀ x ∈ w, 0 < x) ∧ (WeakAsc w = true ∨ WeakDesc w = true) ∧ HasAdjEq w = true)) :=
  ⟨validate_zero_iff w, validate_unsorted_iff w, validate_duplicate_iff w⟩

/-- no other error class is ever produced -/
theorem only_wavelength_errors (w : List K) (e : Err) (h : validateWavelengths w = .error e) :
    e = .zeroWavelength ∨ e = .unsortedWavelength ∨ e = .duplicateWavelength := by
  unfold validateWavelengths at h
  split_ifs at h <;> cases h <;> simp

/-- the verdict does not depend on the direction of the array -/
theorem validate_order_irrelevant (w : List K) : validateWavelengths w.reverse = validateWavelengths w :=
  validate_reverse w

/-! ### rejection reaches the caller: every modelled entry point validates before it computes -/

theorem integrate_rejects (E : Env K) (m : Tree K) (x : List K) (e : Err)
    (h : validateWavelengths x = .error e) : integrateTrapz E m x = .error e := by
  simp [integrateTrapz, h, bind, Except.bind]

theorem wavelengthsOr_rejects (thr : K) (m : Tree K) (x : List K) (e : Err)
    (h : validateWavelengths x = .error e) : wavelengthsOr thr m (some x) = .error e := by
  simp [wavelengthsOr, h, bind, Except.bind]

theorem pivot_rejects (E : Env K) (thr : K) (m : Tree K) (x : List K) (e : Err)
    (h : validateWavelengths x = .error e) : pivot E thr m (some x) = .error e := by
  simp [pivot, wavelengthsOr_rejects thr m x e h, bind, Except.bind]

theorem sample_binned_rejects (atol rtol : K) (b : Bins K) (x : List K) (e : Err)
    (h : validateWavelengths x = .error e) : sampleBinned atol rtol b x = .error e := by
  simp [sampleBinned, h, bind, Except.bind]

theorem countrate_rejects (E : Env K) (thr atol rtol : K) (o : Obs K) (area : Option K) (binned : Bool)
    (x : List K) (wr : Option (K × K)) (force : Bool) (e : Err) (h : validateWavelengths x = .error e) :
    countrate E thr atol rtol o area binned (some x) wr force = .error e := by
  cases binned <;> simp [countrate, wavelengthsOr, h, bind, Except.bind]

theorem effective_wavelength_rejects (E : Env K) (thr atol rtol : K) (o : Obs K) (binned erg : Bool)
    (x : List K) (e : Err) (h : validateWavelengths x = .error e) :
    effectiveWavelength E thr atol rtol o binned (some x) erg = .error e := by
  cases binned <;> simp [effectiveWavelength, wavelengthsOr, h, bind, Except.bind]

theorem check_overlap_rejects (E : Env K) (P : OverlapPar K) (band other : Spec K) (x : List K) (e : Err)
    (bm om : Tree K) (hb : band.model = .ok bm) (ho : other.model = .ok om)
    (h : validateWavelengths x = .error e) : checkOverlap E P band other (some x) = .error e := by
  simp [checkOverlap, hb, ho, h, bind, Except.bind]

theorem observation_binset_rejects (E : Env K) (P : OverlapPar K) (src band : Spec K) (x : List K)
    (force : Force) (useC : Bool) (e : Err) (s : Spec K) (w : Bool) (sm bm : Tree K)
    (hk : src.kind = .source) (hbk : band.kind = .bandpass)
    (ha : obsAdmit E P src band force = .ok (s, w)) (hs : s.model = .ok sm) (hb : band.model = .ok bm)
    (h : validateWavelengths x = .error e) : ∃ e', mkObs E P src band (some x) force useC = .error e' ∧ e' = e := by
  refine ⟨e, ?_, rfl⟩
  simp [mkObs, hk, hbk, ha, hs, hb, h, bind, Except.bind, pure, Except.pure]

/-- a wavelength Quantity in a unit that is no length, frequency or wavenumber is a unit error -/
theorem bad_unit_rejected (cAA : K) (w : List K) (x : K) (xs : List K) (hw : w = x :: xs) :
    validateIn cAA (.other : WaveUnit K) w = .error .unitError := by
  subst hw
  simp [validateIn, WaveUnit.toAngstrom, bind, Except.bind]

/-! ### order equivariance of the unsigned trapezoid quantities -/

/-- `|trapz|` (integrate, efficiency, unit_response, effstim's integrals, …) does not depend on the
sampling order -/
theorem unsigned_integral_order (l : List (K × K)) : |trapz l.reverse| = |trapz l| := abs_trapz_reverse l

/-- a ratio of two signed trapezoid sums on the same grid (avgwave, barlam, pivot, effective wavelength,
rmswidth, …) does not depend on the sampling order either -/
theorem ratio_order (a b : List (K × K)) : trapz a.reverse / trapz b.reverse = trapz a / trapz b := by
  rw [trapz_reverse, trapz_reverse, neg_div_neg_eq]

/-- sampled values come back in the caller's order -/
theorem sample_order (E : Env K) (m : Tree K) (xs : List K) (v : List K)
    (h : sampleTree E m xs = .ok v) : sampleTree E m xs.reverse = .ok v.reverse := by
  unfold sampleTree at h ⊢
  have key : ∀ (l : List K) (r : List K), l.mapM (m.eval E) = .ok r →
      ∀ (x : K) (y : K), m.eval E x = .ok y → (l ++ [x]).mapM (m.eval E) = .ok (r ++ [y]) := by
    intro l
    induction l with
    | nil =>
      intro r hr x y hy
      simp only [List.mapM_nil, pure, Except.pure] at hr; injection hr with hr; subst hr
      simp [List.mapM_cons, hy, bind, Except.bind, pure, Except.pure]
    | cons a l ih =>
      intro r hr x y hy
      simp only [List.mapM_cons, bind, Except.bind] at hr
      cases ha : m.eval E a with
      | error e => rw [ha] at hr; cases hr
      | ok va =>
        rw [ha] at hr
        cases hl : l.mapM (m.eval E) with
        | error e => rw [hl] at hr; cases hr
        | ok rl =>
          rw [hl] at hr
          simp only [pure, Except.pure] at hr; injection hr with hr; subst hr
          simp only [List.cons_append, List.mapM_cons, bind, Except.bind, ha, ih rl hl x y hy, pure, Except.pure]
  induction xs generalizing v with
  | nil =>
    simp only [List.mapM_nil, pure, Except.pure] at h; injection h with h; subst h; rfl
  | cons a l ih =>
    simp only [List.mapM_cons, bind, Except.bind] at h
    cases ha : m.eval E a with
    | error e => rw [ha] at h; cases h
    | ok va =>
      rw [ha] at h
      cases hl : l.mapM (m.eval E) with
      | error e => rw [hl] at h; cases h
      | ok rl =>
        rw [hl] at h
        simp only [pure, Except.pure] at h; injection h with h; subst h
        rw [List.reverse_cons, List.reverse_cons]
        exact key _ _ (ih rl hl) a va ha

/-! ### unit equivariance -/

/-- a length unit with positive scale keeps the order, a frequency or wavenumber reverses it; either
way a strictly monotone positive array stays strictly monotone and positive in Angstrom -/
theorem length_unit_keeps_validity (k : K) (hk : 0 < k) (w : List K)
    (h : validateWavelengths w = .ok ()) : validateWavelengths (w.map (· * k)) = .ok () := by
  rw [validate_ok_iff] at h ⊢
  obtain ⟨hp, hm⟩ := h
  refine ⟨?_, ?_⟩
  · intro x hx
    rw [List.mem_map] at hx
    obtain ⟨y, hy, rfl⟩ := hx
    exact mul_pos (hp y hy) hk
  · have hmap : ∀ (l : List K), (StrictAsc l → StrictAsc (l.map (· * k))) ∧ (StrictDesc l → StrictDesc (l.map (· * k))) := by
      intro l
      induction l with
      | nil => exact ⟨fun _ => trivial, fun _ => trivial⟩
      | cons a l ih =>
        cases l with
        | nil => exact ⟨fun _ => trivial, fun _ => trivial⟩
        | cons b l =>
          constructor
          · rintro ⟨hab, hr⟩; exact ⟨mul_lt_mul_of_pos_right hab hk, ih.1 hr⟩
          · rintro ⟨hab, hr⟩; exact ⟨mul_lt_mul_of_pos_right hab hk, ih.2 hr⟩
    rcases hm with hm | hm
    · exact Or.inl ((hmap w).1 hm)
    · exact Or.inr ((hmap w).2 hm)

/-- the same physical wavelengths given in a length unit are the same Angstrom values -/
theorem length_unit_equivariance (cAA k : K) (hk : k ≠ 0) (wAA : List K) :
    (wAA.map (· / k)).mapM ((WaveUnit.length k).toAngstrom cAA) = .ok wAA := by
  induction wAA with
  | nil => rfl
  | cons a l ih =>
    simp only [List.map_cons, List.mapM_cons, WaveUnit.toAngstrom, bind, Except.bind, ih, pure, Except.pure]
    congr 2; field_simp

/-- … and in a frequency unit (`λ = c/ν`) -/
theorem frequency_unit_equivariance (cAA k : K) (hk : k ≠ 0) (hc : cAA ≠ 0) (wAA : List K)
    (hpos : ∀ x ∈ wAA, x ≠ 0) :
    (wAA.map (fun x => cAA / x / k)).mapM ((WaveUnit.freq k).toAngstrom cAA) = .ok wAA := by
  induction wAA with
  | nil => rfl
  | cons a l ih =>
    have ha := hpos a (by simp)
    have hne : cAA / a / k ≠ 0 := div_ne_zero (div_ne_zero hc ha) hk
    simp only [List.map_cons, List.mapM_cons, WaveUnit.toAngstrom, hne, if_false, bind, Except.bind,
      ih (fun x hx => hpos x (List.mem_cons_of_mem _ hx)), pure, Except.pure]
    congr 2; field_simp

/-! ## deepening (round 6): the verdict as a total function, its invariances, entry points -/

/-! ### (a) the verdict -/

/-- for EVERY list (length 0 and 1 included) the validator returns exactly one of four verdicts -/
theorem verdict_total (w : List K) :
    validateWavelengths w = .ok () ∨ validateWavelengths w = .error .zeroWavelength ∨
    validateWavelengths w = .error .unsortedWavelength ∨ validateWavelengths w = .error .duplicateWavelength := by
  unfold validateWavelengths
  split_ifs <;> simp

/-- the four verdicts in terms of list predicates that do not mention the model's own tests, with the
documented priority (zero/negative, then non-monotone, then duplicate): the four right-hand sides are
mutually exclusive and exhaustive because the four verdicts are -/
theorem verdict_iff (w : List K) :
    (validateWavelengths w = .ok () ↔
      ((∀ x ∈ w, 0 < x) ∧ (w.IsChain (· < ·) ∨ w.IsChain (fun a b => b < a)))) ∧
    (validateWavelengths w = .error .zeroWavelength ↔ ∃ x ∈ w, x ≤ 0) ∧
    (validateWavelengths w = .error .unsortedWavelength ↔
      ((∀ x ∈ w, 0 < x) ∧ ¬ w.IsChain (· ≤ ·) ∧ ¬ w.IsChain (fun a b => b ≤ a))) ∧
    (validateWavelengths w = .error .duplicateWavelength ↔
      ((∀ x ∈ w, 0 < x) ∧ (w.IsChain (· ≤ ·) ∨ w.IsChain (fun a b => b ≤ a)) ∧ ¬ w.Nodup)) := by
  refine ⟨?_, validate_zero_iff w, ?_, ?_⟩
  · rw [validate_ok_iff, strictAsc_iff_chain, strictDesc_iff_chain]
  · rw [validate_unsorted_iff, ← weakAsc_iff_chain, ← weakDesc_iff_chain]
    simp only [Bool.not_eq_true]
  · rw [validate_duplicate_iff, ← weakAsc_iff_chain, ← weakDesc_iff_chain]
    constructor
    · rintro ⟨hp, hm, hd⟩
      exact ⟨hp, hm, (C04x.hasAdjEq_iff_not_nodup w hm).mp hd⟩
    · rintro ⟨hp, hm, hd⟩
      exact ⟨hp, hm, (C04x.hasAdjEq_iff_not_nodup w hm).mpr hd⟩

/-- the short lists: the empty array is accepted, a single wavelength is accepted iff it is positive -/
theorem validate_short (x : K) :
    validateWavelengths ([] : List K) = .ok () ∧
    validateWavelengths [x] = if x ≤ 0 then .error .zeroWavelength else .ok () := by
  constructor
  · rfl
  · unfold validateWavelengths
    by_cases h : x ≤ 0 <;> simp [h, WeakAsc, WeakDesc, HasAdjEq]

/-- the verdict (error class included) is invariant under multiplication by a positive scale: a change of
length unit never changes what is rejected and why -/
theorem validate_scale_invariant (k : K) (hk : 0 < k) (w : List K) :
    validateWavelengths (w.map (· * k)) = validateWavelengths w := C04x.validate_scale k hk w

/-- under the reciprocal map `x ↦ c/x` (frequency, wavenumber) a positive list keeps its verdict with the
direction flipped: strictly ascending ⇔ the image strictly descending, and conversely -/
theorem validate_reciprocal_invariant (c : K) (hc : 0 < c) (w : List K) (hpos : ∀ x ∈ w, 0 < x) :
    validateWavelengths (w.map (c / ·)) = validateWavelengths w ∧
    (StrictAsc w ↔ StrictDesc (w.map (c / ·))) ∧ (StrictDesc w ↔ StrictAsc (w.map (c / ·))) := by
  obtain ⟨h1, h2, h3⟩ := C04x.validate_recip c hc w hpos
  have h4 : HasAdjEq (w.map (c / ·)) = HasAdjEq w :=
    C04x.hasAdjEq_map_inj (c / ·) w (fun a ha b hb => C04x.recip_eq_iff c hc a b (hpos a ha) (hpos b hb))
  refine ⟨h1, ?_, ?_⟩
  · rw [strictAsc_iff, strictDesc_iff, h3, h4]
  · rw [strictAsc_iff, strictDesc_iff, h2, h4]

/-- NO tolerance: two positive entries that differ AT ALL are not duplicates, and a `DuplicateWavelength`
verdict always exhibits two neighbouring entries that are exactly equal -/
theorem no_tolerance :
    (∀ a b : K, 0 < a → 0 < b → a ≠ b → validateWavelengths [a, b] = .ok ()) ∧
    (∀ w : List K, validateWavelengths w = .error .duplicateWavelength →
      ∃ i, ∃ a, w[i]? = some a ∧ w[i + 1]? = some a) := by
  constructor
  · intro a b ha hb hab
    rw [validate_ok_iff]
    refine ⟨by intro x hx; simp at hx; rcases hx with rfl | rfl <;> assumption, ?_⟩
    rcases lt_or_gt_of_ne hab with h | h
    · exact Or.inl ⟨h, trivial⟩
    · exact Or.inr ⟨h, trivial⟩
  · intro w h
    exact (C04x.hasAdjEq_iff_index w).mp ((validate_duplicate_iff w).mp h).2.2

/-! ### wavelengths given in a unit: conversion, then the same verdict -/

/-- a length unit (`k > 0` Angstrom per unit): the verdict is the verdict of the numbers themselves, and
on acceptance the Angstrom values are returned in the caller's order -/
theorem length_unit_verdict (cAA k : K) (hk : 0 < k) (w : List K) :
    validateIn cAA (.length k) w = C04x.thenReturn (validateWavelengths w) (w.map (· * k)) := by
  rw [C04x.validateIn_of_conv cAA (.length k) w (· * k) (fun x _ => rfl), C04x.validate_scale k hk w]

/-- a frequency unit (`k > 0` Hz per unit, `c > 0`), positive frequencies: the same verdict as the numbers
themselves, the returned Angstrom values `c/(ν k)` in the caller's order (so a grid ascending in frequency
comes back descending in wavelength) -/
theorem frequency_unit_verdict (cAA k : K) (hc : 0 < cAA) (hk : 0 < k) (w : List K) (hpos : ∀ x ∈ w, 0 < x) :
    validateIn cAA (.freq k) w = C04x.thenReturn (validateWavelengths w) (w.map fun v => cAA / (v * k)) ∧
    (StrictAsc w ↔ StrictDesc (w.map fun v => cAA / (v * k))) := by
  have hconv : ∀ x ∈ w, (WaveUnit.freq k).toAngstrom cAA x = .ok (cAA / (x * k)) := by
    intro x hx
    simp [WaveUnit.toAngstrom, (hpos x hx).ne']
  have hmap : (w.map fun v => cAA / (v * k)) = (w.map (· * k)).map (cAA / ·) := by
    rw [List.map_map]; rfl
  have hpos' : ∀ x ∈ w.map (· * k), 0 < x := by
    intro x hx
    obtain ⟨y, hy, rfl⟩ := List.mem_map.mp hx
    exact mul_pos (hpos y hy) hk
  obtain ⟨h1, h2, _⟩ := validate_reciprocal_invariant cAA hc (w.map (· * k)) hpos'
  constructor
  · rw [C04x.validateIn_of_conv cAA (.freq k) w _ hconv, hmap, h1, C04x.validate_scale k hk w]
  · rw [hmap, ← h2]
    constructor
    · exact C04x.strictAsc_map_mul k hk w
    · intro h
      have := C04x.strictAsc_map_mul k⁻¹ (inv_pos.mpr hk) _ h
      rw [List.map_map] at this
      have hid : (w.map ((· * k⁻¹) ∘ (· * k))) = w := by
        conv_rhs => rw [← List.map_id w]
        apply List.map_congr_left
        intro a _
        simp only [Function.comp, id]
        rw [mul_assoc, mul_inv_cancel₀ hk.ne', mul_one]
      rwa [hid] at this

/-- a wavenumber unit (`k > 0` Angstrom⁻¹ per unit): likewise with `1/(σ k)` -/
theorem wavenumber_unit_verdict (cAA k : K) (hk : 0 < k) (w : List K) (hpos : ∀ x ∈ w, 0 < x) :
    validateIn cAA (.wavenumber k) w = C04x.thenReturn (validateWavelengths w) (w.map fun v => 1 / (v * k)) := by
  have hconv : ∀ x ∈ w, (WaveUnit.wavenumber k).toAngstrom cAA x = .ok (1 / (x * k)) := by
    intro x hx
    simp [WaveUnit.toAngstrom, (hpos x hx).ne']
  have hmap : (w.map fun v => 1 / (v * k)) = (w.map (· * k)).map ((1 : K) / ·) := by
    rw [List.map_map]; rfl
  have hpos' : ∀ x ∈ w.map (· * k), 0 < x := by
    intro x hx
    obtain ⟨y, hy, rfl⟩ := List.mem_map.mp hx
    exact mul_pos (hpos y hy) hk
  rw [C04x.validateIn_of_conv cAA (.wavenumber k) w _ hconv, hmap,
    (validate_reciprocal_invariant 1 one_pos (w.map (· * k)) hpos').1, C04x.validate_scale k hk w]

/-- a negative frequency (none of them zero) is a negative wavelength: `ZeroWavelength`, never a number -/
theorem negative_frequency_rejected (cAA k : K) (hc : 0 < cAA) (hk : 0 < k) (w : List K)
    (hnz : ∀ x ∈ w, x ≠ 0) (hneg : ∃ x ∈ w, x < 0) :
    validateIn cAA (.freq k) w = .error .zeroWavelength := by
  have hconv : ∀ x ∈ w, (WaveUnit.freq k).toAngstrom cAA x = .ok (cAA / (x * k)) := by
    intro x hx
    simp [WaveUnit.toAngstrom, hnz x hx]
  rw [C04x.validateIn_of_conv cAA (.freq k) w _ hconv]
  obtain ⟨x, hx, hx0⟩ := hneg
  have : validateWavelengths (w.map fun v => cAA / (v * k)) = .error .zeroWavelength := by
    rw [validate_zero_iff]
    exact ⟨cAA / (x * k), List.mem_map.mpr ⟨x, hx, rfl⟩,
      le_of_lt (div_neg_of_pos_of_neg hc (mul_neg_of_neg_of_pos hx0 hk))⟩
  rw [this]; rfl

/-! ### (b) order equivariance at the entry points -/

/-- `integrate(wavelengths=…)` gives the same number for a grid and for the reversed grid -/
theorem integrate_order (E : Env K) (m : Tree K) (x : List K) (v : K)
    (h : integrateTrapz E m x = .ok v) : integrateTrapz E m x.reverse = .ok v := by
  unfold integrateTrapz at h ⊢
  rw [validate_reverse]
  cases hv : validateWavelengths x with
  | error e => rw [hv] at h; cases h
  | ok u =>
    rw [hv] at h
    cases hy : sampleTree E m x with
    | error e => rw [hy] at h; cases h
    | ok y =>
      rw [hy] at h
      have hlen : x.length = y.length := (C09.sampleTree_length E m x y hy).symm
      rw [C09.sampleTree_reverse E m x y hy]
      simp only [bind, Except.bind, pure, Except.pure] at h ⊢
      injection h with h
      rw [← h, List.map_reverse, C04x.trapzXY_reverse x (y.map fun v => |v|) (by simpa using hlen), abs_neg]

/-- `pivot(wavelengths=…)` likewise -/
theorem pivot_order (E : Env K) (thr : K) (m : Tree K) (x : List K) (v : K)
    (h : pivot E thr m (some x) = .ok v) : pivot E thr m (some x.reverse) = .ok v := by
  unfold pivot wavelengthsOr at h ⊢
  simp only [] at h ⊢
  rw [validate_reverse]
  cases hv : validateWavelengths x with
  | error e => rw [hv] at h; cases h
  | ok u =>
    rw [hv] at h
    simp only [bind, Except.bind, pure, Except.pure] at h ⊢
    cases hy : sampleTree E m x with
    | error e => rw [hy] at h; cases h
    | ok y =>
      rw [hy] at h
      have hlen : x.length = y.length := (C09.sampleTree_length E m x y hy).symm
      rw [C09.sampleTree_reverse E m x y hy]
      simp only [] at h ⊢
      have hl2 : ∀ f : K × K → K, x.length = ((x.zip y).map f).length := by intro f; simp [hlen]
      rw [C04x.zip_map_reverse x y hlen, C04x.zip_map_reverse x y hlen,
        C04x.trapzXY_reverse x _ (hl2 _), C04x.trapzXY_reverse x _ (hl2 _), neg_div_neg_eq]
      simp only [neg_eq_zero]
      exact h

/-! ### (c) the bin-based entry point -/

/-- `calculate_bin_edges` rejects exactly what validation rejects (with the validator's own error) plus the
lists shorter than two (`SynphotError`), and accepts everything else -/
theorem calcBinEdges_verdict (c : List K) :
    (∀ e, calcBinEdges c = .error e ↔
      ((c.length < 2 ∧ e = .synphotError) ∨ (2 ≤ c.length ∧ validateWavelengths c = .error e))) ∧
    ((∃ ed, calcBinEdges c = .ok ed) ↔ (2 ≤ c.length ∧ validateWavelengths c = .ok ())) := by
  by_cases h2 : c.length < 2
  · have hcalc : calcBinEdges c = .error .synphotError := by unfold calcBinEdges; rw [if_pos h2]
    constructor
    · intro e
      rw [hcalc]
      constructor
      · intro h; injection h with h; exact Or.inl ⟨h2, h.symm⟩
      · rintro (⟨_, rfl⟩ | ⟨h, _⟩)
        · rfl
        · omega
    · rw [hcalc]
      constructor
      · rintro ⟨ed, h⟩; cases h
      · rintro ⟨h, _⟩; omega
  · have h2' : 2 ≤ c.length := by omega
    obtain ⟨ed, hed⟩ := (binEdges_ok_iff c).mpr h2'
    cases hv : validateWavelengths c with
    | error err =>
      have hcalc := calcBinEdges_rejects c err h2' hv
      constructor
      · intro e
        rw [hcalc]
        constructor
        · intro h; injection h with h; exact Or.inr ⟨h2', by rw [h]⟩
        · rintro (⟨h, _⟩ | ⟨_, h⟩)
          · omega
          · injection h with h; rw [h]
      · rw [hcalc]
        constructor
        · rintro ⟨_, h⟩; cases h
        · rintro ⟨_, h⟩; cases h
    | ok u =>
      have hcalc := calcBinEdges_eq c ed hv hed
      constructor
      · intro e
        rw [hcalc]
        constructor
        · intro h; cases h
        · rintro (⟨h, _⟩ | ⟨_, h⟩)
          · omega
          · cases h
      · rw [hcalc]
        exact ⟨fun _ => ⟨h2', rfl⟩, fun _ => ⟨ed, rfl⟩⟩

/-! ### non-vacuity of the round-6 theorems -/

def exEnv : Env ℚ :=
  ⟨⟨1, 1, 1, 1, 1⟩, ⟨fun _ => 0, fun _ => 0, fun _ => 0, fun _ => 0, fun _ => 0, fun x => x, fun _ => 0,
    fun _ _ => 0, 0, fun _ => 0, fun _ => 0⟩⟩

/-- the four verdicts, with the priority: a zero wins over disorder and duplicates, disorder over duplicates -/
example : validateWavelengths ([3, 2, 1] : List ℚ) = .ok () ∧
    validateWavelengths ([2, 2, 1, 3, 0] : List ℚ) = .error .zeroWavelength ∧
    validateWavelengths ([2, 2, 1, 3] : List ℚ) = .error .unsortedWavelength ∧
    validateWavelengths ([1, 2, 2] : List ℚ) = .error .duplicateWavelength := by decide

example : validateWavelengths ([2, 2, 1, 3] : List ℚ) = .ok () ∨
    validateWavelengths ([2, 2, 1, 3] : List ℚ) = .error .zeroWavelength ∨
    validateWavelengths ([2, 2, 1, 3] : List ℚ) = .error .unsortedWavelength ∨
    validateWavelengths ([2, 2, 1, 3] : List ℚ) = .error .duplicateWavelength := verdict_total _

example : ¬ ([1, 2, 2] : List ℚ).Nodup := ((verdict_iff _).2.2.2.mp (by decide)).2.2

example : validateWavelengths [(-1 : ℚ)] = .error .zeroWavelength := by
  have := (validate_short (-1 : ℚ)).2
  rwa [if_pos (by norm_num)] at this

example : validateWavelengths (([1, 2, 2] : List ℚ).map (· * 10)) = .error .duplicateWavelength := by
  rw [validate_scale_invariant 10 (by norm_num)]; decide

example : StrictDesc (([1, 2, 4] : List ℚ).map (8 / ·)) :=
  (validate_reciprocal_invariant 8 (by norm_num) _
    (by intro x hx; simp at hx; rcases hx with rfl | rfl | rfl <;> norm_num)).2.1.mp (by norm_num [StrictAsc])

/-- any difference at all, however small, is enough -/
example (ε : ℚ) (hε : 0 < ε) : validateWavelengths [1, 1 + ε] = .ok () :=
  no_tolerance.1 1 (1 + ε) one_pos (by linarith) (by linarith)

example : ∃ i, ∃ a, ([1, 2, 2] : List ℚ)[i]? = some a ∧ ([1, 2, 2] : List ℚ)[i + 1]? = some a :=
  no_tolerance.2 _ (by decide)

example : validateIn (3 : ℚ) (.length 10) [1, 2] = .ok [10, 20] := by
  have hv : validateWavelengths ([1, 2] : List ℚ) = .ok () := by decide
  rw [length_unit_verdict 3 10 (by norm_num), hv]
  norm_num [C04x.thenReturn]

example : validateIn (8 : ℚ) (.freq 1) [1, 2] = .ok [8, 4] := by
  have hv : validateWavelengths ([1, 2] : List ℚ) = .ok () := by decide
  rw [(frequency_unit_verdict 8 1 (by norm_num) (by norm_num) [1, 2]
    (by intro x hx; simp at hx; rcases hx with rfl | rfl <;> norm_num)).1, hv]
  norm_num [C04x.thenReturn]

example : validateIn (8 : ℚ) (.wavenumber 1) [1, 2] = .ok [1, 1 / 2] := by
  have hv : validateWavelengths ([1, 2] : List ℚ) = .ok () := by decide
  rw [wavenumber_unit_verdict 8 1 (by norm_num) [1, 2]
    (by intro x hx; simp at hx; rcases hx with rfl | rfl <;> norm_num), hv]
  norm_num [C04x.thenReturn]

example : validateIn (8 : ℚ) (.freq 1) [1, -2] = .error .zeroWavelength :=
  negative_frequency_rejected 8 1 (by norm_num) (by norm_num) _
    (by intro x hx; simp at hx; rcases hx with rfl | rfl <;> norm_num) ⟨-2, by simp, by norm_num⟩

theorem ex_integrate : integrateTrapz exEnv (.leaf (.const1 2)) ([1, 2, 4] : List ℚ) = .ok 6 := by
  have hv : validateWavelengths ([1, 2, 4] : List ℚ) = .ok () := by decide
  simp only [integrateTrapz, hv, sampleTree, List.mapM_cons, List.mapM_nil, Tree.eval, Leaf.eval, bind, Except.bind,
    pure, Except.pure, trapzXY, List.map, List.zip_cons_cons, List.zip_nil_right, trapz]
  norm_num

example : integrateTrapz exEnv (.leaf (.const1 2)) ([1, 2, 4] : List ℚ).reverse = .ok 6 :=
  integrate_order _ _ _ _ ex_integrate

theorem ex_pivot : pivot exEnv 0 (.leaf (.const1 2)) (some ([1, 2] : List ℚ)) = .ok 2 := by
  have hv : validateWavelengths ([1, 2] : List ℚ) = .ok () := by decide
  simp only [pivot, wavelengthsOr, hv, sampleTree, List.mapM_cons, List.mapM_nil, Tree.eval, Leaf.eval, bind,
    Except.bind, pure, Except.pure, trapzXY, List.map, List.zip_cons_cons, List.zip_nil_right, trapz, exEnv]
  norm_num

example : pivot exEnv 0 (.leaf (.const1 2)) (some ([1, 2] : List ℚ).reverse) = .ok 2 :=
  pivot_order _ _ _ _ _ ex_pivot

example : calcBinEdges ([5] : List ℚ) = .error .synphotError :=
  ((calcBinEdges_verdict _).1 _).mpr (Or.inl ⟨by decide, rfl⟩)

example : calcBinEdges ([1, 2, 2] : List ℚ) = .error .duplicateWavelength :=
  ((calcBinEdges_verdict _).1 _).mpr (Or.inr ⟨by decide, by decide⟩)

example : ∃ ed, calcBinEdges ([1, 2, 4] : List ℚ) = .ok ed :=
  (calcBinEdges_verdict _).2.mpr ⟨by decide, by decide⟩

/-! ### tapering on caller-given wavelengths, either order -/

/-- the ascending arrangement `taper` works on is the same for a valid grid and for its reversal -/
theorem ascending_arrangement_reverse (w : List K) (hv : validateWavelengths w = .ok ()) :
    (if isDesc w.reverse then w.reverse.reverse else w.reverse) = (if isDesc w then w.reverse else w) := by
  obtain ⟨_, hm⟩ := (validate_ok_iff w).mp hv
  match w, hm with
  | [], _ => simp [isDesc]
  | [a], _ => simp [isDesc]
  | a :: b :: l, hm =>
    obtain ⟨a', b', l', hr⟩ : ∃ a' b' l', (a :: b :: l).reverse = a' :: b' :: l' := by
      match h : (a :: b :: l).reverse with
      | [] => simp at h
      | [x] => have := congrArg List.length h; simp at this
      | a' :: b' :: l' => exact ⟨a', b', l', rfl⟩
    rcases hm with hs | hs
    · have h1 : isDesc (a :: b :: l) = false := isDesc_false_of_asc _ hs
      have hd : StrictDesc (a :: b :: l).reverse := (strictDesc_reverse _).mpr hs
      have h2 : isDesc (a :: b :: l).reverse = true := by
        rw [hr] at hd ⊢; exact C03x.isDesc_of_strictDesc a' b' l' hd
      rw [h1, h2]; simp
    · have h1 : isDesc (a :: b :: l) = true := C03x.isDesc_of_strictDesc a b l hs
      have h2 : isDesc (a :: b :: l).reverse = false :=
        isDesc_false_of_asc _ ((strictAsc_reverse _).mpr hs)
      rw [h1, h2]; simp

/-- `taper(wavelengths=…)` returns the same spectrum for a grid and for the reversed grid, and the same
error for an invalid one -/
theorem taper_order (E : Env K) (thr : K) (s : Spec K) (w : List K) :
    s.taper E thr (some w.reverse) = s.taper E thr (some w) := by
  unfold Spec.taper
  cases hm : s.model with
  | error e => rfl
  | ok m =>
    simp only [bind, Except.bind, pure, Except.pure]
    rw [validate_reverse]
    cases hv : validateWavelengths w with
    | error e => rfl
    | ok u =>
      simp only []
      rw [ascending_arrangement_reverse w hv]

example (s : Spec ℚ) : s.taper exEnv 0 (some ([2, 3] : List ℚ).reverse) = s.taper exEnv 0 (some [2, 3]) :=
  taper_order _ _ _ _

example : (if isDesc ([3, 2] : List ℚ).reverse then ([3, 2] : List ℚ).reverse.reverse else ([3, 2] : List ℚ).reverse) =
    (if isDesc ([3, 2] : List ℚ) then ([3, 2] : List ℚ).reverse else [3, 2]) :=
  ascending_arrangement_reverse _ (by decide)

end Synphot.C04
