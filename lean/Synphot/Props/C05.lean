/-
  C05 — Redshift maps wavelength (and optionally flux) exactly, in any setter order.

  `ZState` is what the two setters of `SourceSpectrum` store, `ZState.model` the `model` property.
-/
import Synphot.Lemmas.Spectrum
import Synphot.Lemmas.Trapz

set_option linter.unusedSectionVars false
set_option linter.unusedVariables false

namespace Synphot.C05
open Synphot
variable {K : Type} [Field K] [LinearOrder K] [IsStrictOrderedRing K]

/-- sampling through the `model` property -/
def sampleAt (E : Env K) (s : ZState K) (m : Tree K) (x : K) : Except Err K := do
  let t ← s.model m
  t.eval E x

/-- wavelength-only redshift: the spectrum sampled at `L` is the rest-frame spectrum at `L/(1+z)` -/
theorem sample_wavelength_only (E : Env K) (z : K) (m : Tree K) (x : K) :
    sampleAt E (ZState.init z .wavelengthOnly) m x = m.eval E (x / (1 + z)) := by
  unfold sampleAt ZState.model ZState.init
  by_cases hz : z = 0
  · subst hz; simp [bind, Except.bind]
  · simp [hz, bind, Except.bind, Tree.eval]

/-- flux-conserving redshift: additionally divided by `1+z` -/
theorem sample_conserve_flux (E : Env K) (z : K) (m : Tree K) (x v : K)
    (h : m.eval E (x / (1 + z)) = .ok v) :
    sampleAt E (ZState.init z .conserveFlux) m x = .ok (v / (1 + z)) := by
  unfold sampleAt ZState.model ZState.init
  by_cases hz : z = 0
  · subst hz
    have h' : m.eval E x = .ok v := by simpa using h
    simp only [if_true, bind, Except.bind, h']
    simp
  · simp only [hz, if_false, bind, Except.bind, Tree.eval, h, pure, Except.pure]
    congr 1; ring

/-- the optimal sampling set is the rest-frame set multiplied by `1+z` (either type) -/
theorem sampleset_redshift (thr z : K) (t : ZType) (m mt : Tree K) (hz : z ≠ 0)
    (h : (ZState.init z t).model m = .ok mt) :
    mt.sampleset thr = (m.sampleset thr).map (fun w => w.map (· * (1 + z))) := by
  cases t <;> simp [ZState.init, ZState.model, hz] at h <;> subst h <;> simp [Tree.sampleset]

/-- with flux conservation the trapezoid integral over the redshifted sampling set equals the
rest-frame one (wavelengths × (1+z), fluxes / (1+z)) -/
theorem integral_conserved (z : K) (hz : 1 + z ≠ 0) (samples : List (K × K)) :
    trapz (samples.map fun p => ((1 + z) * p.1, (1 / (1 + z)) * p.2)) = trapz samples := by
  rw [trapz_scale_xy]; field_simp

/-! ### histories of assignments -/

inductive ZOp (K : Type)
  | setZ (z : K)          -- a real scalar
  | setZBad               -- complex, str, None, array, Quantity: rejected
  | setZType (t : ZType)
  | setZTypeBad           -- unknown redshift type: rejected

/-- a rejected assignment raises `SynphotError` and leaves the object as it was -/
def applyOp (s : ZState K) : ZOp K → ZState K
  | .setZ z => s.setZ z
  | .setZBad => s
  | .setZType t => s.setZType t
  | .setZTypeBad => s

def lastZ (z0 : K) : List (ZOp K) → K
  | [] => z0
  | .setZ z :: t => lastZ z t
  | _ :: t => lastZ z0 t

def lastType (t0 : ZType) : List (ZOp K) → ZType
  | [] => t0
  | .setZType t :: r => lastType t r
  | _ :: r => lastType t0 r

theorem setZ_init (z0 z : K) (t : ZType) : (ZState.init z0 t).setZ z = ZState.init z t := by
  cases t <;> rfl

theorem setZType_init (z : K) (t0 t : ZType) : (ZState.init z t0).setZType t = ZState.init z t := by
  cases t0 <;> cases t <;> rfl

/-- the object reached by any sequence of assignments to `z` and `z_type` (rejected ones included)
is the freshly constructed object with the final values -/
theorem history_independent (z0 : K) (t0 : ZType) (ops : List (ZOp K)) :
    ops.foldl applyOp (ZState.init z0 t0) = ZState.init (lastZ z0 ops) (lastType t0 ops) := by
  induction ops generalizing z0 t0 with
  | nil => rfl
  | cons op ops ih =>
    cases op with
    | setZ z => simp only [List.foldl_cons, applyOp, setZ_init, lastZ, lastType]; exact ih z t0
    | setZBad => simp only [List.foldl_cons, applyOp, lastZ, lastType]; exact ih z0 t0
    | setZType t => simp only [List.foldl_cons, applyOp, setZType_init, lastZ, lastType]; exact ih z0 t
    | setZTypeBad => simp only [List.foldl_cons, applyOp, lastZ, lastType]; exact ih z0 t0

/-- consequently no history reaches a state whose `model` raises -/
theorem model_never_typeError (z0 : K) (t0 : ZType) (ops : List (ZOp K)) (m : Tree K) :
    ∃ t, (ops.foldl applyOp (ZState.init z0 t0)).model m = .ok t := by
  rw [history_independent]
  generalize lastZ z0 ops = z
  cases lastType t0 ops <;> simp only [ZState.init, ZState.model] <;>
    by_cases hz : z = 0 <;> simp [hz]

/-- setting `z` back to 0 restores the rest-frame spectrum -/
theorem setZ_zero_restores (s : ZState K) (m : Tree K) : (s.setZ 0).model m = .ok m := by
  simp [ZState.setZ, ZState.model]

/-- non-vacuity of `history_independent`: a history on which the unrepaired code failed -/
example : ([ZOp.setZ (1 : ℚ), .setZType .conserveFlux].foldl applyOp (ZState.init 0 .wavelengthOnly)).fluxScale
    = some (1 / 2) := by
  simp [applyOp, ZState.setZ, ZState.setZType, ZState.init]; norm_num

end Synphot.C05
