/-
  Synphot.Core.Tree — the astropy compound-model trees synphot builds, their evaluation and
  the sampling-set recursion `_model_tree_evaluate_sampleset` (synphot/models.py:785-851).

  Leaves carry, besides their parameters, the sampling set the implementation's
  `sampleset()` produced (analytic leaves generate theirs with `np.arange`, whose last point
  depends on binary64 rounding; consumers of a sampling set therefore receive it as data —
  DESIGN §1.2a).  The table leaf's sampling set is its points.
-/
import Synphot.Core.Interp
import Synphot.Core.Units
import Synphot.Core.Wave

namespace Synphot
variable {K : Type} [Field K] [LinearOrder K] [IsStrictOrderedRing K]

inductive Leaf (K : Type)
  | table (t : Table K)                                   -- Empirical1D
  | extinction (t : Table K)                              -- ExtinctionModel1D (hides its sampleset)
  | box (amp x0 w : K) (ss : Option (List K))             -- Box1D
  | trapezoid (amp x0 w slope : K) (ss : Option (List K)) -- Trapezoid1D
  | const1 (amp : K)                                      -- astropy Const1D
  | constFlux (amp : K) (u : FluxUnit K)                  -- ConstFlux1D, amplitude in unit u
  | powerLaw (amp x0 alpha : K) (u : FluxUnit K)          -- PowerLawFlux1D
  | gaussian (amp mean sd : K) (ss : Option (List K))     -- Gaussian1D / GaussianFlux1D
  | lorentz (amp x0 fwhm : K) (ss : Option (List K))      -- Lorentz1D
  | ricker (amp x0 sigma : K) (ss : Option (List K))      -- RickerWavelet1D

inductive BinOp | add | sub | mul | div
  deriving DecidableEq, Repr

inductive Tree (K : Type)
  | leaf (l : Leaf K)
  | bin (op : BinOp) (l r : Tree K)
  | scale (m : Tree K) (k : K)          -- `m | Scale(k)`
  | redshift (z : K) (m : Tree K)       -- `RedshiftScaleFactor(z).inverse | m`

/-- what evaluation needs from outside: constants and transcendental functions -/
structure Env (K : Type) where
  P : PhysConst K
  T : Transc K

/-- unit-free sample context for converting a leaf's own flux unit to PHOTLAM -/
def plainSamp (x : K) : Samp K := { lam := x, countFactor := none, vega := none }

def Leaf.eval (E : Env K) : Leaf K → K → Except Err K
  | .table t, x => .ok (t.eval x)
  | .extinction t, x => .ok (t.eval x)
  | .box amp x0 w _, x => .ok (if x0 - w / 2 ≤ x ∧ x ≤ x0 + w / 2 then amp else 0)
  | .trapezoid amp x0 w slope _, x =>
      let x2 := x0 - w / 2
      let x3 := x0 + w / 2
      let x1 := x2 - amp / slope
      let x4 := x3 + amp / slope
      .ok (if x1 ≤ x ∧ x < x2 then slope * (x - x1)
           else if x2 ≤ x ∧ x < x3 then amp
           else if x3 ≤ x ∧ x < x4 then slope * (x4 - x)
           else 0)
  | .const1 amp, _ => .ok amp
  | .constFlux amp u, x => toPhotlam E.P E.T (plainSamp x) u amp
  | .powerLaw amp x0 alpha u, x =>
      toPhotlam E.P E.T (plainSamp x) u (amp * E.T.rpow (x / x0) (-alpha))
  | .gaussian amp mean sd _, x => .ok (amp * E.T.exp (-(x - mean) ^ 2 / (2 * sd ^ 2)))
  | .lorentz amp x0 fwhm _, x => .ok (amp * (fwhm / 2) ^ 2 / ((x - x0) ^ 2 + (fwhm / 2) ^ 2))
  | .ricker amp x0 sigma _, x =>
      .ok (amp * (1 - (x - x0) ^ 2 / sigma ^ 2) * E.T.exp (-(x - x0) ^ 2 / (2 * sigma ^ 2)))

def BinOp.apply (op : BinOp) (a b : K) : Except Err K :=
  match op with
  | .add => .ok (a + b)
  | .sub => .ok (a - b)
  | .mul => .ok (a * b)
  | .div => if b = 0 then .error .nan else .ok (a / b)   -- NumPy: inf or nan, no exception

def Tree.eval (E : Env K) : Tree K → K → Except Err K
  | .leaf l, x => l.eval E x
  | .bin op l r, x => do
      let a ← l.eval E x
      let b ← r.eval E x
      op.apply a b
  | .scale m k, x => do
      let a ← m.eval E x
      pure (a * k)
  | .redshift z m, x => m.eval E (x / (1 + z))

def Leaf.sampleset : Leaf K → Option (List K)
  | .table t => some t.pts
  | .extinction _ => none
  | .box _ _ _ ss => ss
  | .trapezoid _ _ _ _ ss => ss
  | .const1 _ => none
  | .constFlux _ _ => none
  | .powerLaw _ _ _ _ => none
  | .gaussian _ _ _ ss => ss
  | .lorentz _ _ _ ss => ss
  | .ricker _ _ _ ss => ss

/-- `_model_tree_evaluate_sampleset`; `thr` is the merge threshold (1e-12) -/
def Tree.sampleset (thr : K) : Tree K → Option (List K)
  | .leaf l => l.sampleset
  | .bin _ l r => mergeWavelengths thr (l.sampleset thr) (r.sampleset thr)
  | .scale m _ => m.sampleset thr
  | .redshift z m => (m.sampleset thr).map (fun w => w.map (· * (1 + z)))

/-- `BaseSpectrum.waveset`: the sampling set, validated (a set containing non-positive wavelengths
raises instead of being returned) -/
def Tree.waveset (thr : K) (m : Tree K) : Except Err (Option (List K)) :=
  match m.sampleset thr with
  | none => .ok none
  | some w => do
      validateWavelengths w
      pure (some w)

/-- is the root an `Empirical1D` (`isinstance(model, Empirical1D)`; `ExtinctionModel1D` is a subclass) -/
def Tree.rootTable? : Tree K → Option (Table K)
  | .leaf (.table t) => some t
  | .leaf (.extinction t) => some t
  | _ => none

def Tree.isCompound : Tree K → Bool
  | .leaf _ => false
  | _ => true

end Synphot
