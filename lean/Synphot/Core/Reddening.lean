/-
  Synphot.Core.Reddening — `ReddeningLaw.extinction_curve`, `ExtinctionModel1D`,
  `etau_madau` (synphot/reddening.py:23-91, 249-320) and the multiplication of a source by a
  unitless spectrum (`SourceSpectrum.__mul__`, synphot/spectrum.py:1229-1242, with the sampling-set
  rule of `models._model_tree_evaluate_sampleset`).

  A reddening law / extinction curve is an `Empirical1D` table (`Core/Interp.lean`).  All
  wavelengths are in Angstrom.
-/
import Synphot.Core.Interp
import Synphot.Core.Wave
import Synphot.Core.Transc

namespace Synphot
variable {K : Type} [Field K] [LinearOrder K] [IsStrictOrderedRing K]

/-! ### `ReddeningLaw.extinction_curve` -/

/-- what the caller passed as `ebv` -/
inductive EbvArg (K : Type)
  /-- an instance of `numbers.Real` (Python `float`/`int`/`bool`, NumPy scalar) -/
  | real (v : K)
  /-- a scalar `Quantity` whose decomposed unit is `mag` -/
  | magQuantity (v : K)
  /-- any other `Quantity` (`mmag`, `mag(AB)`, `Angstrom`, dimensionless, …) -/
  | otherQuantity
  /-- anything else that is not `numbers.Real` (`str`, `None`, `complex`, list, ndarray) -/
  | notReal
  deriving Repr

/-- the `isinstance` chain at the top of `extinction_curve` -/
def ebvValue : EbvArg K → Except Err K
  | .real v => .ok v
  | .magQuantity v => .ok v
  | .otherQuantity => .error .synphotError
  | .notReal => .error .synphotError

/-- the `wavelengths` argument of `extinction_curve` (values already in Angstrom) -/
inductive WaveSel (K : Type)
  | none                  -- `None`: the law's own `waveset`
  | scalar (w : K)        -- a bare number / 0-d Quantity
  | arr (w : List K)      -- array-like
  deriving Repr

/-- `10 ** (-0.4 * R(λ) * E)` at one wavelength, `R(λ) = law(λ)` -/
def extValue (T : Transc K) (law : Table K) (e w : K) : K :=
  T.pow10 (-(2/5) * law.eval w * e)

/-- `ExtinctionCurve(ExtinctionModel1D, points=x, lookup_table=y)`; `Empirical1D.__init__` indexes
`x[-1]`, `x[0]` (`IndexError` on an empty array) and slices `lookup_table[::size-1]` in `is_tapered`
(`ValueError: slice step cannot be zero` for a single point).  Default `keep_neg=False`. -/
def mkCurve (x y : List K) : Except Err (Table K) :=
  match x with
  | [] => .error .indexError
  | [_] => .error .valueError
  | _ => .ok (mkTable x y false).1

/-- `ReddeningLaw.extinction_curve(ebv, wavelengths)` for a law whose model is an `Empirical1D` table.
Order of events as in the code: E(B−V) check, `_validate_wavelengths`, sampling of the law,
construction of the curve. -/
def extinctionCurve (T : Transc K) (law : Table K) (ebv : EbvArg K) (wave : WaveSel K) :
    Except Err (Table K) := do
  let e ← ebvValue ebv
  match wave with
  | .none => do
      -- `self.waveset`: the table's points, validated by the `waveset` property
      validateWavelengths law.pts
      mkCurve law.pts (law.pts.map (extValue T law e))
  | .scalar w => do
      validateWavelengths [w]
      -- `x[-1]` on a 0-d array in `Empirical1D.__init__`
      .error .indexError
  | .arr x => do
      validateWavelengths x
      mkCurve x (x.map (extValue T law e))

/-! ### source × curve -/

/-- what a spectrum offers to a multiplication: its model as a function of wavelength and the
sampling set of its model (`None` for analytic models without one) -/
structure Sampled (K : Type) where
  eval : K → K
  sampleset : Option (List K)

/-- a source whose model is an `Empirical1D` table (z = 0) -/
def Table.toSampled (t : Table K) : Sampled K := { eval := t.eval, sampleset := some t.pts }

/-- a source whose model is a constant without sampling set (`ConstFlux1D` in PHOTLAM) -/
def constSampled (a : K) : Sampled K := { eval := fun _ => a, sampleset := none }

/-- `SourceSpectrum.model` of a source with redshift `z` (spectrum.py `model` property): for `z = 0`
the model itself, otherwise `RedshiftScaleFactor(z).inverse | model` (wavelength_only) or
`… | Scale(1 / (1 + z))` (conserve_flux); the sampling set of `RedshiftScaleFactor.inverse | m` is the
rest set times `1 + z` (`_model_tree_evaluate_sampleset`).  `1 + z = 0` is a Python
`ZeroDivisionError` in `RedshiftScaleFactor.inverse`. -/
def Sampled.redshift (s : Sampled K) (z : K) (conserve : Bool) : Except Err (Sampled K) :=
  if z = 0 then .ok s
  else if 1 + z = 0 then .error .zeroDivision
  else .ok
    { eval := fun w => if conserve then s.eval (w / (1 + z)) * (1 / (1 + z)) else s.eval (w / (1 + z))
      sampleset := s.sampleset.map (fun l => l.map (fun x => (1 + z) * x)) }

/-- `ExtinctionModel1D.sampleset()`: "This simply returns `None`" -/
def extinctionSampleset (_c : Table K) : Option (List K) := none

/-- `source * curve` (and `curve * source`, which `BaseUnitlessSpectrum.__mul__` forwards to it):
the compound model `source.model * curve.model`; its sampling set is
`merge_wavelengths(sampleset(left), sampleset(right))` with threshold `thr` (1e-12 in the code). -/
def applyCurve (thr : K) (src : Sampled K) (c : Table K) : Sampled K :=
  { eval := fun w => src.eval w * c.eval w
    sampleset := mergeWavelengths thr src.sampleset (extinctionSampleset c) }

/-! ### `etau_madau` -/

/-- what the caller passed as `z` (Python numbers; a NumPy scalar behaves the same for `1 + z > 0`) -/
inductive ZArg (K : Type)
  | real (z : K)      -- `numbers.Real`
  | notReal           -- `str`, `None`, `complex`, `Quantity`, ndarray, list
  deriving Repr

/-- what the caller passed as `wave` -/
inductive MadauWave (K : Type)
  | scalar              -- `np.isscalar(wave)`
  | zeroDim             -- 0-d ndarray / scalar Quantity: `len()` raises `TypeError`
  | badUnit (n : Nat)   -- Quantity of length `n` in a unit that does not convert to Angstrom
  | arr (w : List K)    -- array-like (values in Angstrom)
  deriving Repr

/-- Lyman-series lines `el[i]` (Angstrom) with their coefficients `c[i]` -/
def lymanSeries : List (K × K) :=
  [(1216, 36/10000), (1026, 17/10000), (973, 12/10000), (950, 93/100000)]

/-- Lyman limit `ll` -/
def lymanLimit : K := 912

/-- the loop "Lyman series": line `i` contributes `c[i] (λ/el[i])^3.46` where `λ ≤ el[i] (1+z)` -/
def lymanTau (T : Transc K) (xe w : K) : K :=
  (lymanSeries (K := K)).foldl
    (fun tau lc => if w ≤ lc.1 * xe then tau + lc.2 * T.rpow (w / lc.1) (173/50) else tau) 0

/-- "Photoelectric absorption": the continuum term added where `λ ≤ 912 (1+z)` -/
def photoTau (T : Transc K) (xe w : K) : K :=
  let xc := w / lymanLimit
  let xc3 := xc ^ 3
  (1/4) * xc3 * (T.rpow xe (23/50) - T.rpow xc (23/50)) +
    (47/5) * T.rpow xc (3/2) * (T.rpow xe (9/50) - T.rpow xc (9/50)) -
    (7/10) * xc3 * (T.rpow xc (-(33/25)) - T.rpow xe (-(33/25))) -
    (23/1000) * (T.rpow xe (42/25) - T.rpow xc (42/25))

/-- the published optical depth (line series + continuum fit) at one wavelength, `xe = 1 + z`:
the value of `tau` after the two `np.where` blocks -/
def publishedTau (T : Transc K) (xe w : K) : K :=
  if w ≤ lymanLimit * xe then lymanTau T xe w + photoTau T xe w else lymanTau T xe w

/-- `tau = np.maximum(tau, 0.)`: the published fit turns negative at short wavelengths; the code
clamps it (commit 7986b50) -/
def madauTau (T : Transc K) (xe w : K) : K := max (publishedTau T xe w) 0

/-- `np.where(tau > 700., 0., np.exp(-tau))` -/
def madauThru (T : Transc K) (xe w : K) : K :=
  let tau := madauTau T xe w
  if tau > 700 then 0 else T.exp (-tau)

/-- `etau_madau(wave, z)`.  After the two argument checks and the unit conversion the code computes
with Python/NumPy floats: `xe ** (-1.32)` is a Python `ZeroDivisionError` for `xe = 0`, a negative
Python float to a fractional power is a complex number (the result is not a real array: `Err.nan`),
and a wavelength `≤ 0` gives NaN (`nan ** 3.46`, `0 · inf`) in the selected branch of `np.where`.
The table is built by `Empirical1D.__init__` without any validation of the wavelengths. -/
def etauMadau (T : Transc K) (wave : MadauWave K) (z : ZArg K) : Except Err (Table K) :=
  match z with
  | .notReal => .error .synphotError
  | .real z =>
    match wave with
    | .scalar => .error .synphotError
    | .zeroDim => .error .typeError
    | .badUnit n => if n ≤ 1 then .error .synphotError else .error .unitError
    | .arr w =>
      if w.length ≤ 1 then .error .synphotError
      else
        let xe := 1 + z
        if xe = 0 then .error .zeroDivision
        else if xe < 0 then .error .nan
        else if w.any (fun x => decide (x ≤ 0)) then .error .nan
        else .ok (mkTable w (w.map (madauThru T xe)) false).1

end Synphot
