/-
  C20 — Filter FFT parameterisation reconstructs the filter it was computed from.

  Statements are about the model `Synphot/Core/FFT.lean` of
  `synphot/filter_parameterization/filter_fft.py`.  `N` is the number of points `np.arange` produced
  for the simplified grid (`n+1` in exact arithmetic, `n+1` or `n+2` in binary64; DESIGN §1.2a):
  every theorem holds for every `N` (the exact inverse for every `N ≥ n`).

  * `reported_params`, `median_between`, `reported_params_regular`,
    `simplified_count`                                                 — generic ordered field
  * `rescale_span`, `span_partial`, `from_fft_nan_iff_constant`,
    `one_term_nan`, `analytic_one_term_nan` (F9)                         — generic ordered field
  * `analytic_eq_tabulated`                                            — generic ordered field, `TrigLawful`
  * `exact_inverse`                                                    — `ℝ`, real `sin`/`cos`/`π`
  * `table_rows`                                                       — generic ordered field
-/
import Synphot.Lemmas.FFT
import Synphot.Lemmas.TranscReal
import Synphot.Lemmas.C20x
import Mathlib.Algebra.Order.Floor.Semiring
import Mathlib.Algebra.Order.Field.Rat

set_option linter.unusedSectionVars false
set_option linter.unusedVariables false

namespace Synphot.C20
open Synphot Synphot.FFT
variable {K : Type} [Field K] [LinearOrder K] [IsStrictOrderedRing K]

/-! ### reported parameters -/

/-- `filter_to_fft` reports the number of sampled wavelengths, the smallest of them, the median of their
non-zero steps and the largest sampled throughput, and keeps `min(n_terms, N)` Fourier coefficients. -/
theorem reported_params {T : Transc K} {bp : K → K} {wl : List K} {N nTerms : ℕ} {r : Params K}
    (h : filterToFft T bp wl N nTerms = .ok r) :
    r.n = wl.length ∧
    (r.lam0 ∈ wl ∧ ∀ w ∈ wl, r.lam0 ≤ w) ∧
    median ((diffs wl).filter (fun d => d ≠ 0)) = .ok r.delta ∧
    (r.trMax ∈ wl.map bp ∧ ∀ t ∈ wl.map bp, t ≤ r.trMax) ∧
    r.fft.length = min nTerms N := by
  obtain ⟨lam0, delta, trMax, h1, h2, h3, hN, rfl⟩ := filterToFft_ok h
  refine ⟨rfl, listMin_spec h1, h2, listMax_spec h3, ?_⟩
  simp [fftTrunc_length]

/-- the reported step lies between two of the sampled steps (it is the middle one of the sorted steps, or
the mean of the two middle ones) -/
theorem median_between {l : List K} {m : K} (h : median l = .ok m) :
    ∃ a ∈ l, ∃ b ∈ l, a ≤ m ∧ m ≤ b := by
  unfold median at h
  have hperm : (l.mergeSort (fun a b => decide (a ≤ b))).Perm l := List.mergeSort_perm _ _
  have hmem : ∀ i, i < (l.mergeSort (fun a b => decide (a ≤ b))).length →
      (l.mergeSort (fun a b => decide (a ≤ b))).getD i 0 ∈ l := by
    intro i hi
    rw [List.getD_eq_getElem?_getD, List.getElem?_eq_getElem hi]
    exact hperm.mem_iff.1 (List.getElem_mem _)
  dsimp only at h
  split_ifs at h with h0 h1
  · injection h with h; subst h
    exact ⟨_, hmem _ (by omega), _, hmem _ (by omega), le_rfl, le_rfl⟩
  · injection h with h; subst h
    have ha := hmem ((l.mergeSort (fun a b => decide (a ≤ b))).length / 2 - 1) (by omega)
    have hb := hmem ((l.mergeSort (fun a b => decide (a ≤ b))).length / 2) (by omega)
    rcases le_total ((l.mergeSort (fun a b => decide (a ≤ b))).getD
        ((l.mergeSort (fun a b => decide (a ≤ b))).length / 2 - 1) 0)
      ((l.mergeSort (fun a b => decide (a ≤ b))).getD
        ((l.mergeSort (fun a b => decide (a ≤ b))).length / 2) 0) with hab | hab
    · exact ⟨_, ha, _, hb, by linarith, by linarith⟩
    · exact ⟨_, hb, _, ha, by linarith, by linarith⟩

/-- on an exactly regular ascending grid `λ₀ + kΔ` (`k < n`, `n ≥ 2`) the call succeeds and reports
`(n, λ₀, Δ, max throughput)` -/
theorem reported_params_regular (T : Transc K) (bp : K → K) (n : ℕ) (hn : 2 ≤ n) (a : K) {d : K} (hd : 0 < d)
    {N : ℕ} (hN : N ≠ 0) (nTerms : ℕ) :
    ∃ r, filterToFft T bp (simplifiedWavelength n a d) N nTerms = .ok r ∧
      r.n = n ∧ r.lam0 = a ∧ r.delta = d ∧
      listMax ((simplifiedWavelength n a d).map bp) = .ok r.trMax := by
  obtain ⟨M, hM⟩ := listMax_isOk (l := (simplifiedWavelength n a d).map bp)
    (by intro h; have := congrArg List.length h; simp at this; omega)
  exact ⟨_, filterToFft_eq (listMin_sw n (by omega) a hd) (median_diffs_sw n hn a d hd.ne') hM hN,
    by simp, rfl, rfl, hM⟩

/-- the rule behind the simplified grid's length: `ceil(((n+1)Δ + λ₀ − λ₀)/Δ) = n + 1` in exact arithmetic -/
theorem simplified_count [FloorRing K] (n : ℕ) (lam0 : K) {delta : K} (hd : delta ≠ 0) :
    ⌈(((n : K) + 1) * delta + lam0 - lam0) / delta⌉₊ = simplifiedCountExact n := by
  have : (((n : K) + 1) * delta + lam0 - lam0) / delta = ((n + 1 : ℕ) : K) := by
    field_simp; push_cast; ring
  rw [this, Nat.ceil_natCast]; rfl

/-! ### the span `[0, peak]` of the reconstruction -/

/-- `(v − min v)·p/(max v − min v)`, when it is a number at all (`max v ≠ min v`), has minimum `0` and
maximum `p` (for `p ≥ 0`) -/
theorem rescale_span {v w : List K} {p : K} (hp : 0 ≤ p) (h : rescale v p = .ok w) :
    listMin w = .ok 0 ∧ listMax w = .ok p ∧ w.length = v.length := by
  obtain ⟨lo, hi, hlo, hhi, hlt, rfl⟩ := rescale_ok_iff h
  obtain ⟨hlom, hmin⟩ := listMin_spec hlo
  obtain ⟨hhim, hmax⟩ := listMax_spec hhi
  have hpos : 0 < hi - lo := sub_pos.2 hlt
  refine ⟨listMin_eq_of ?_ ?_, listMax_eq_of ?_ ?_, by simp⟩
  · exact List.mem_map.2 ⟨lo, hlom, by simp⟩
  · intro y hy
    obtain ⟨x, hx, rfl⟩ := List.mem_map.1 hy
    exact div_nonneg (mul_nonneg (sub_nonneg.2 (hmin x hx)) hp) hpos.le
  · exact List.mem_map.2 ⟨hi, hhim, by field_simp⟩
  · intro y hy
    obtain ⟨x, hx, rfl⟩ := List.mem_map.1 hy
    rw [div_le_iff₀ hpos]
    have := hmax x hx
    nlinarith

/-- the excluded case: a non-empty constant array gives `0/0` -/
theorem rescale_const_nan {v : List K} (hv : v ≠ []) (hc : ∀ x ∈ v, ∀ y ∈ v, x = y) (p : K) :
    rescale v p = .error .nan := by
  obtain ⟨lo, hlo⟩ := listMin_isOk hv
  obtain ⟨hi, hhi⟩ := listMax_isOk hv
  have : hi = lo := hc _ (listMax_spec hhi).1 _ (listMin_spec hlo).1
  subst this
  exact rescale_eq_nan hlo hhi

/-
  -- NOT PROVABLE ON CURRENT CODE (the property's "with fewer terms the reconstruction still spans
  -- exactly [0, peak]", for every term count ≥ 1):
  theorem span_full (T : Transc K) {N : ℕ} (hN : N ≠ 0) (lam0 : K) {delta : K} (hd : delta ≠ 0) {trMax : K}
      (hp : 0 ≤ trMax) (params : List (K × K)) (hne : params ≠ []) :
      ∃ tab, filterFromFft T N lam0 delta trMax params = .ok tab ∧
        listMin tab.2 = .ok 0 ∧ listMax tab.2 = .ok trMax
  -- false for one retained term (`one_term_nan` below; DESIGN §7 F9, confirmed on the implementation:
  -- `filter_from_fft(*filter_to_fft(bp, n_terms=1))` is an all-NaN table).  `span_partial` carries the
  -- hypothesis "the call returned a table", which by `from_fft_nan_iff_constant` is exactly
  -- "the truncated reconstruction is not constant".
-/

/-- whenever `filter_from_fft` returns a table, it is tabulated on `λ₀ + kΔ` (`k < N`) and its values have
minimum `0` and maximum `tr_max` -/
theorem span_partial {T : Transc K} {N : ℕ} {lam0 delta trMax : K} (hp : 0 ≤ trMax) {params : List (K × K)}
    {tab : List K × List K} (h : filterFromFft T N lam0 delta trMax params = .ok tab) :
    tab.1 = simplifiedWavelength N lam0 delta ∧ listMin tab.2 = .ok 0 ∧ listMax tab.2 = .ok trMax ∧
      tab.2.length = N := by
  unfold filterFromFft at h
  by_cases hd : delta = 0
  · rw [if_pos hd] at h; cases h
  · rw [if_neg hd] at h
    by_cases hN : N = 0
    · rw [if_pos hN] at h; cases h
    · rw [if_neg hN] at h
      cases hr : rescale (invDftRe T N params) trMax with
      | error e => rw [hr] at h; cases h
      | ok w =>
        rw [hr] at h
        injection h with h
        subst h
        obtain ⟨h1, h2, h3⟩ := rescale_span hp hr
        exact ⟨rfl, h1, h2, by rw [h3, invDftRe_length]⟩

/-- the excluded region exactly: for a valid grid (`Δ ≠ 0`, `N ≥ 1`) `filter_from_fft` produces the all-NaN
table iff the truncated inverse transform is constant (`max v = min v`) -/
theorem from_fft_nan_iff_constant (T : Transc K) {N : ℕ} (hN : N ≠ 0) (lam0 : K) {delta : K} (hd : delta ≠ 0)
    (trMax : K) (params : List (K × K)) :
    filterFromFft T N lam0 delta trMax params = .error .nan ↔
      listMax (invDftRe T N params) = listMin (invDftRe T N params) := by
  have hne : invDftRe T N params ≠ [] := by
    intro h; have := congrArg List.length h; rw [invDftRe_length] at this; exact hN (by simpa using this)
  obtain ⟨lo, hlo⟩ := listMin_isOk hne
  obtain ⟨hi, hhi⟩ := listMax_isOk hne
  rw [filterFromFft_eq T hN lam0 hd, hlo, hhi]
  by_cases he : hi = lo
  · subst he
    rw [rescale_eq_nan hlo hhi]; simp [Except.map]
  · rw [rescale_eq_ok hlo hhi he]
    simp [Except.map, he]

/-- **F9**: with at most one retained term the reconstruction is constant and `filter_from_fft` returns the
all-NaN table — for every grid, peak and coefficient (no trigonometric law needed: `j·0 = 0`) -/
theorem one_term_nan (T : Transc K) {N : ℕ} (hN : N ≠ 0) (lam0 : K) {delta : K} (hd : delta ≠ 0) (trMax : K)
    (params : List (K × K)) (h1 : params.length ≤ 1) :
    filterFromFft T N lam0 delta trMax params = .error .nan := by
  rw [filterFromFft_eq T hN lam0 hd]
  have hN1 : 1 ≤ N := Nat.one_le_iff_ne_zero.2 hN
  have : rescale (invDftRe T N params) trMax = .error .nan := by
    apply rescale_const_nan
    · intro h; have := congrArg List.length h; rw [invDftRe_length] at this; exact hN (by simpa using this)
    · have hconst : ∀ x ∈ invDftRe T N params,
          x = rangeSum params.length (fun k =>
            (params.getD k (0, 0)).1 * T.cos (angle T N 0) - (params.getD k (0, 0)).2 * T.sin (angle T N 0)) / (N : K) := by
        intro x hx
        rw [invDftRe_eq T N params (by omega)] at hx
        obtain ⟨j, _, rfl⟩ := List.mem_map.1 hx
        congr 1
        unfold rangeSum
        congr 1
        apply List.map_congr_left
        intro k hk
        have : k = 0 := by have := List.mem_range.1 hk; omega
        subst this; simp
      intro x hx y hy
      rw [hconst x hx, hconst y hy]
  rw [this]; rfl

/-- the same defect in the analytic model: with one retained term it is all-NaN on every non-empty set of
wavelengths -/
theorem analytic_one_term_nan (T : Transc K) {N : ℕ} (hN : 2 ≤ N) (lam0 : K) {delta : K} (hd : 0 < delta)
    (trMax : K) (c : K × K) (xs : List K) (hxs : xs ≠ []) :
    analyticEval T N lam0 delta trMax [c] xs = .error .nan := by
  unfold analyticEval
  rw [if_neg hd.ne']
  dsimp only
  rw [listMin_sw N (by omega) lam0 hd]
  have h1 : pyIndex (simplifiedWavelength N lam0 delta) 1 = .ok (lam0 + ((1 : ℕ) : K) * delta) := by
    unfold pyIndex
    have := sw_getElem? N lam0 delta 1 (by omega)
    simp only [sw_length]
    rw [if_neg (by omega), if_neg (by omega)]
    simp [this]
  have h0 : pyIndex (simplifiedWavelength N lam0 delta) 0 = .ok (lam0 + ((0 : ℕ) : K) * delta) := by
    unfold pyIndex
    have := sw_getElem? N lam0 delta 0 (by omega)
    simp only [sw_length]
    rw [if_neg (by omega), if_neg (by omega)]
    simp [this]
  simp only [bind, Except.bind, h1, h0, List.isEmpty_cons, Bool.false_eq_true, if_false]
  apply rescale_const_nan
  · simpa using hxs
  · intro x hx y hy
    obtain ⟨u, _, rfl⟩ := List.mem_map.1 hx
    obtain ⟨v, _, rfl⟩ := List.mem_map.1 hy
    simp [analyticM, rangeSum, sine1D]

/-! ### analytic model = tabulated reconstruction on the full grid -/

/-- On the full simplified grid the analytic sine-series model (phase ¼ as coded) and the tabulated
reconstruction are the same array — both are the same rescaling of `Re ifft`, so they also fail together in
the constant case.  Needs only the addition formulas and `sin(π/2) = 1`, `cos(π/2) = 0`. -/
theorem analytic_eq_tabulated {T : Transc K} (hT : TrigLawful T) {N : ℕ} (hN : 2 ≤ N) (lam0 : K) {delta : K}
    (hd : 0 < delta) (trMax : K) (params : List (K × K)) (hne : params ≠ []) (hlen : params.length ≤ N) :
    analyticEval T N lam0 delta trMax params (simplifiedWavelength N lam0 delta) =
      (filterFromFft T N lam0 delta trMax params).map Prod.snd := by
  rw [filterFromFft_eq T (by omega) lam0 hd.ne']
  unfold analyticEval
  rw [if_neg hd.ne']
  dsimp only
  rw [listMin_sw N (by omega) lam0 hd]
  have h1 : pyIndex (simplifiedWavelength N lam0 delta) 1 = .ok (lam0 + ((1 : ℕ) : K) * delta) := by
    unfold pyIndex
    have := sw_getElem? N lam0 delta 1 (by omega)
    simp only [sw_length]
    rw [if_neg (by omega), if_neg (by omega)]
    simp [this]
  have h0 : pyIndex (simplifiedWavelength N lam0 delta) 0 = .ok (lam0 + ((0 : ℕ) : K) * delta) := by
    unfold pyIndex
    have := sw_getElem? N lam0 delta 0 (by omega)
    simp only [sw_length]
    rw [if_neg (by omega), if_neg (by omega)]
    simp [this]
  have hemp : params.isEmpty = false := by
    cases params with
    | nil => exact absurd rfl hne
    | cons _ _ => rfl
  simp only [bind, Except.bind, h1, h0, hemp, Bool.false_eq_true, if_false]
  have hmo : (simplifiedWavelength N lam0 delta).map (fun x =>
      analyticM T N params ((x - lam0) / (lam0 + ((1 : ℕ) : K) * delta - (lam0 + ((0 : ℕ) : K) * delta))))
      = invDftRe T N params := by
    rw [invDftRe_eq T N params hlen]
    unfold simplifiedWavelength
    rw [List.map_map]
    apply List.map_congr_left
    intro j _
    simp only [Function.comp]
    have : (lam0 + (j : K) * delta - lam0) / (lam0 + ((1 : ℕ) : K) * delta - (lam0 + ((0 : ℕ) : K) * delta)) = (j : K) := by
      have hd' := hd.ne'
      have e : lam0 + ((1 : ℕ) : K) * delta - (lam0 + ((0 : ℕ) : K) * delta) = delta := by push_cast; ring
      rw [e, add_sub_cancel_left, mul_div_assoc, div_self hd', mul_one]
    rw [this, analyticM_nat hT]
  rw [hmo]
  cases rescale (invDftRe T N params) trMax <;> rfl

/-! ### exact inverse -/

/-- **Exact inverse.**  A bandpass sampled on a regular ascending grid `λ₀ + kΔ` (`k < n`, `n ≥ 2`),
non-negative there with minimum `0` (and not identically `0`), parameterised with every Fourier term kept
(`n_terms ≥ N`, whatever length `N ≥ n` the simplified grid got), is reconstructed exactly:
`filter_to_fft` reports `(n, λ₀, Δ, peak)`, `filter_from_fft` of these values returns a table on
`λ₀ + kΔ` (`k < N`), the reconstructed bandpass equals the original throughput at every grid point, and its
peak over the grid is the reported peak. -/
theorem exact_inverse {T : Transc ℝ} (hT : IsRealTrig T) (bp : ℝ → ℝ) (n : ℕ) (hn : 2 ≤ n) (a : ℝ) {d : ℝ}
    (hd : 0 < d) (N : ℕ) (hN : n ≤ N) (nTerms : ℕ) (hfull : N ≤ nTerms)
    (hnonneg : ∀ k < n, 0 ≤ bp (a + (k : ℝ) * d))
    (hzero : ∃ k < n, bp (a + (k : ℝ) * d) = 0)
    (hpos : ∃ k < n, 0 < bp (a + (k : ℝ) * d)) :
    ∃ r tab, filterToFft T bp (simplifiedWavelength n a d) N nTerms = .ok r ∧
      r.n = n ∧ r.lam0 = a ∧ r.delta = d ∧
      listMax ((simplifiedWavelength n a d).map bp) = .ok r.trMax ∧
      filterFromFft T N r.lam0 r.delta r.trMax r.fft = .ok tab ∧
      tab.1 = simplifiedWavelength N a d ∧
      (∀ k < n, reconstructed tab (a + (k : ℝ) * d) = bp (a + (k : ℝ) * d)) ∧
      listMax ((simplifiedWavelength n a d).map (reconstructed tab)) = .ok r.trMax := by
  have hN0 : N ≠ 0 := by omega
  obtain ⟨M, hM⟩ := listMax_isOk (l := (simplifiedWavelength n a d).map bp)
    (by intro h; have := congrArg List.length h; simp at this; omega)
  obtain ⟨hMmem, hMmax⟩ := listMax_spec hM
  -- the interpolated curve on the simplified grid
  set ti : List ℝ := (List.range N).map (fun k => bp (a + ((min k (n - 1) : ℕ) : ℝ) * d)) with hti
  have hlen : ti.length = N := by simp [hti]
  have hget : ∀ k, k < N → ti.getD k 0 = bp (a + ((min k (n - 1) : ℕ) : ℝ) * d) := by
    intro k hk
    rw [hti, List.getD_eq_getElem?_getD, List.getElem?_map, List.getElem?_range hk]; rfl
  have hmem : ∀ y ∈ ti, ∃ k, k < n ∧ y = bp (a + (k : ℝ) * d) := by
    intro y hy
    obtain ⟨k, _, rfl⟩ := List.mem_map.1 hy
    exact ⟨min k (n - 1), by omega, rfl⟩
  have hmem' : ∀ k, k < n → bp (a + (k : ℝ) * d) ∈ ti := by
    intro k hk
    refine List.mem_map.2 ⟨k, List.mem_range.2 (by omega), ?_⟩
    rw [min_eq_left (by omega)]
  have hbpmem : ∀ k, k < n → bp (a + (k : ℝ) * d) ∈ (simplifiedWavelength n a d).map bp := fun k hk =>
    List.mem_map.2 ⟨_, sw_mem.2 ⟨k, hk, rfl⟩, rfl⟩
  have hMpos : 0 < M := by
    obtain ⟨k, hk, hk0⟩ := hpos
    exact lt_of_lt_of_le hk0 (hMmax _ (hbpmem k hk))
  have hr := filterToFft_eq (T := T) (bp := bp) (nTerms := nTerms) (listMin_sw n (by omega) a hd)
    (median_diffs_sw n hn a d hd.ne') hM hN0
  rw [interp_on_sw n (by omega) a hd bp N, ← hti] at hr
  -- the inverse transform returns the interpolated curve
  have hinv : invDftRe T N (fftTrunc T ti nTerms) = ti := by
    have := invDftRe_fft hT ti (by intro h; rw [h] at hlen; simp at hlen; omega) nTerms (by omega)
    rwa [hlen] at this
  have hmin : listMin ti = .ok 0 := by
    apply listMin_eq_of
    · obtain ⟨k, hk, hk0⟩ := hzero
      rw [← hk0]; exact hmem' k hk
    · intro y hy
      obtain ⟨k, hk, rfl⟩ := hmem y hy
      exact hnonneg k hk
  have hmax : listMax ti = .ok M := by
    apply listMax_eq_of
    · obtain ⟨x, hx, hxe⟩ := List.mem_map.1 hMmem
      obtain ⟨k, hk, rfl⟩ := sw_mem.1 hx
      rw [← hxe]; exact hmem' k hk
    · intro y hy
      obtain ⟨k, hk, rfl⟩ := hmem y hy
      exact hMmax _ (hbpmem k hk)
  have hresc : rescale ti M = .ok ti := by
    rw [rescale_eq_ok hmin hmax hMpos.ne']
    congr 1
    conv_rhs => rw [← List.map_id ti]
    apply List.map_congr_left
    intro x _
    have := hMpos.ne'
    simp only [sub_zero, id]; field_simp
  have hfrom : filterFromFft T N a d M (fftTrunc T ti nTerms) = .ok (simplifiedWavelength N a d, ti) := by
    rw [filterFromFft_eq T hN0 a hd.ne', hinv, hresc]; rfl
  have hrec : ∀ k < n, reconstructed (simplifiedWavelength N a d, ti) (a + (k : ℝ) * d) = bp (a + (k : ℝ) * d) := by
    intro k hk
    rw [reconstructed_knot N a hd ti hlen
      (fun y hy => by obtain ⟨k, hk, rfl⟩ := hmem y hy; exact hnonneg k hk) k (by omega),
      hget k (by omega), min_eq_left (by omega)]
  refine ⟨_, (simplifiedWavelength N a d, ti), hr, by simp, rfl, rfl, hM, hfrom, rfl, hrec, ?_⟩
  have : (simplifiedWavelength n a d).map (reconstructed (simplifiedWavelength N a d, ti))
      = (simplifiedWavelength n a d).map bp := by
    apply List.map_congr_left
    intro x hx
    obtain ⟨k, hk, rfl⟩ := sw_mem.1 hx
    exact hrec k hk
  rw [this]; exact hM

/-! ### the multi-filter table -/

theorem tableRows_spec {T : Transc K} {nTerms : ℕ} :
    ∀ {fs : List (FilterIn K)} {rows : List (String × Params K)}, tableRows T nTerms fs = .ok rows →
      rows.length = fs.length ∧
      ∀ i (hi : i < fs.length), ∃ r, filterToFft T fs[i].bp fs[i].wl fs[i].N nTerms = .ok r ∧
        rows[i]? = some (fs[i].name, r)
  | [], rows, h => by
      simp only [tableRows, Except.ok.injEq] at h
      subst h; simp
  | f :: fs, rows, h => by
      unfold tableRows at h
      cases h1 : filterToFft T f.bp f.wl f.N nTerms with
      | error e => rw [h1] at h; cases h
      | ok r =>
        cases h2 : tableRows T nTerms fs with
        | error e => rw [h1, h2] at h; cases h
        | ok rest =>
          rw [h1, h2] at h
          simp only [bind, Except.bind, pure, Except.pure, Except.ok.injEq] at h
          subst h
          obtain ⟨hl, hrows⟩ := tableRows_spec h2
          refine ⟨by simp [hl], ?_⟩
          intro i hi
          cases i with
          | zero => exact ⟨r, h1, rfl⟩
          | succ i =>
            obtain ⟨r', hr', hget⟩ := hrows i (by simpa using hi)
            exact ⟨r', by simpa using hr', by simpa using hget⟩

/-- `filters_to_fft_table` returns one row per filter, in the mapping's order, holding the filter's key and
exactly the values `filter_to_fft` returns for it, each with `n_terms` coefficients -/
theorem table_rows {T : Transc K} {fs : List (FilterIn K)} {nTerms : ℕ} {rows : List (String × Params K)}
    (h : filtersToFftTable T fs nTerms = .ok rows) :
    rows.length = fs.length ∧
    ∀ i (hi : i < fs.length), ∃ r, filterToFft T fs[i].bp fs[i].wl fs[i].N nTerms = .ok r ∧
      rows[i]? = some (fs[i].name, r) ∧ r.fft.length = nTerms := by
  unfold filtersToFftTable at h
  cases h1 : tableRows T nTerms fs with
  | error e => rw [h1] at h; cases h
  | ok rows' =>
    rw [h1] at h
    simp only [bind, Except.bind, pure, Except.pure] at h
    by_cases hany : rows'.any (fun r => r.2.fft.length ≠ nTerms) = true
    · rw [if_pos hany] at h; cases h
    · rw [if_neg hany] at h
      injection h with h
      subst h
      obtain ⟨hl, hrows⟩ := tableRows_spec h1
      refine ⟨hl, ?_⟩
      intro i hi
      obtain ⟨r, hr, hget⟩ := hrows i hi
      refine ⟨r, hr, hget, ?_⟩
      by_contra hne
      apply hany
      rw [List.any_eq_true]
      exact ⟨(fs[i].name, r), List.mem_of_getElem? hget, by simpa using hne⟩

/-! ### non-vacuity -/

/-- some family of "transcendental functions" over `ℚ` (all zero): enough to instantiate the universally
quantified statements about the excluded case -/
def zeroT : Transc ℚ := by
  constructor <;> first | exact (fun _ => 0) | exact (fun _ _ => 0) | exact 0

/-- the excluded case of the span claim is not empty: a one-term parameter list on a valid grid -/
example : filterFromFft zeroT 10 1000 4 1 [((18 : ℚ) / 5, 0)] = .error .nan :=
  one_term_nan zeroT (by decide) 1000 (by norm_num) 1 _ (by simp)

/-- hence the full-strength span statement is false on the current code -/
example : ¬ ∀ (params : List (ℚ × ℚ)), params ≠ [] →
    ∃ tab, filterFromFft zeroT 10 1000 4 1 params = .ok tab ∧
      listMin tab.2 = .ok 0 ∧ listMax tab.2 = .ok 1 := by
  intro h
  obtain ⟨tab, ht, _⟩ := h [((18 : ℚ) / 5, 0)] (by simp)
  rw [one_term_nan zeroT (by decide) 1000 (by norm_num) 1 _ (by simp)] at ht
  cases ht

/-- the hypotheses on the trigonometric functions are satisfied by the real ones (`Lemmas/TranscReal.lean`) -/
theorem isRealTrig_real : IsRealTrig Transc.real := ⟨rfl, rfl, rfl⟩

theorem trigLawful_real : TrigLawful Transc.real := isRealTrig_real.lawful

/-- the hypotheses of `exact_inverse` on the curve are satisfiable: a triangle on three grid points -/
example : ∃ bp : ℝ → ℝ, (∀ k < 3, 0 ≤ bp (1000 + (k : ℝ) * 4)) ∧ (∃ k < 3, bp (1000 + (k : ℝ) * 4) = 0) ∧
    (∃ k < 3, 0 < bp (1000 + (k : ℝ) * 4)) :=
  ⟨fun x => |x - 1000|, fun k _ => abs_nonneg _, ⟨0, by norm_num, by simp⟩, ⟨1, by norm_num, by simp⟩⟩

example : rescale [(0 : ℚ), 1, 3] 6 = .ok [0, 2, 6] := by decide +kernel

/-! ## deepening (round 6) -/

/-! ### (a) what the full-term reconstruction is for ANY curve: the input rescaled to `[0, peak]` -/

/-- With every term kept, a bandpass sampled on a regular ascending grid (`n ≥ 2` points, any step `Δ > 0`,
any simplified-grid length `N ≥ n`), with sampled minimum `lo` and peak `M ≠ lo` — no sign or zero-minimum
assumption — is reconstructed as the affine image `(y − lo)·M/(M − lo)` of its samples (the last sample
repeated on the `N − n` extra points). -/
theorem full_terms_affine {T : Transc ℝ} (hT : IsRealTrig T) (bp : ℝ → ℝ) (n : ℕ) (hn : 2 ≤ n) (a : ℝ) {d : ℝ}
    (hd : 0 < d) (N : ℕ) (hN : n ≤ N) (nTerms : ℕ) (hfull : N ≤ nTerms) (lo M : ℝ)
    (hlo : listMin ((simplifiedWavelength n a d).map bp) = .ok lo)
    (hM : listMax ((simplifiedWavelength n a d).map bp) = .ok M) (hne : M ≠ lo) :
    ∃ r, filterToFft T bp (simplifiedWavelength n a d) N nTerms = .ok r ∧
      r.n = n ∧ r.lam0 = a ∧ r.delta = d ∧ r.trMax = M ∧
      filterFromFft T N r.lam0 r.delta r.trMax r.fft = .ok (simplifiedWavelength N a d,
        (List.range N).map (fun k => (bp (a + ((min k (n - 1) : ℕ) : ℝ) * d) - lo) * M / (M - lo))) := by
  have hN0 : N ≠ 0 := by omega
  set ti : List ℝ := (List.range N).map (fun k => bp (a + ((min k (n - 1) : ℕ) : ℝ) * d)) with hti
  have hlen : ti.length = N := by simp [hti]
  have hr := filterToFft_eq (T := T) (bp := bp) (nTerms := nTerms) (listMin_sw n (by omega) a hd)
    (median_diffs_sw n hn a d hd.ne') hM hN0
  rw [interp_on_sw n (by omega) a hd bp N, ← hti] at hr
  have hinv : invDftRe T N (fftTrunc T ti nTerms) = ti := by
    have := invDftRe_fft hT ti (by intro h; rw [h] at hlen; simp at hlen; omega) nTerms (by omega)
    rwa [hlen] at this
  have hmem := C20x.mem_interp_iff bp n (by omega) a d N hN
  have hmin : listMin ti = .ok lo := by rw [C20x.listMin_congr_mem hmem]; exact hlo
  have hmax : listMax ti = .ok M := by rw [C20x.listMax_congr_mem hmem]; exact hM
  refine ⟨_, hr, by simp, rfl, rfl, rfl, ?_⟩
  show filterFromFft T N a d M (fftTrunc T ti nTerms) = _
  rw [filterFromFft_eq T hN0 a hd.ne', hinv, rescale_eq_ok hmin hmax hne, hti, List.map_map]
  rfl

/-- … hence the full-term reconstruction returns the input itself at every grid point IFF the sampled
minimum is exactly zero ("zero minimum" in the property's exact-inverse claim is necessary, not only
sufficient) -/
theorem exact_inverse_iff_min_zero {T : Transc ℝ} (hT : IsRealTrig T) (bp : ℝ → ℝ) (n : ℕ) (hn : 2 ≤ n) (a : ℝ)
    {d : ℝ} (hd : 0 < d) (N : ℕ) (hN : n ≤ N) (nTerms : ℕ) (hfull : N ≤ nTerms) (lo M : ℝ)
    (hlo : listMin ((simplifiedWavelength n a d).map bp) = .ok lo)
    (hM : listMax ((simplifiedWavelength n a d).map bp) = .ok M) (hne : M ≠ lo) :
    ∃ r tab, filterToFft T bp (simplifiedWavelength n a d) N nTerms = .ok r ∧
      filterFromFft T N r.lam0 r.delta r.trMax r.fft = .ok tab ∧
      ((∀ k < n, tab.2.getD k 0 = bp (a + (k : ℝ) * d)) ↔ lo = 0) := by
  obtain ⟨r, hr, _, _, _, _, hfrom⟩ := full_terms_affine hT bp n hn a hd N hN nTerms hfull lo M hlo hM hne
  refine ⟨r, _, hr, hfrom, ?_⟩
  have hget : ∀ k < n, ((List.range N).map (fun k => (bp (a + ((min k (n - 1) : ℕ) : ℝ) * d) - lo) * M / (M - lo))).getD k 0
      = (bp (a + (k : ℝ) * d) - lo) * M / (M - lo) := by
    intro k hk
    rw [List.getD_eq_getElem?_getD, List.getElem?_map, List.getElem?_range (by omega)]
    simp only [Option.map_some, Option.getD_some]
    rw [min_eq_left (by omega)]
  have hsub : M - lo ≠ 0 := sub_ne_zero.mpr hne
  constructor
  · intro h
    obtain ⟨x, hx, hxe⟩ := List.mem_map.1 (listMin_spec hlo).1
    obtain ⟨k, hk, rfl⟩ := sw_mem.1 hx
    have := h k hk
    simp only [] at this
    rw [hget k hk, hxe] at this
    rw [← this]; simp
  · intro h0 k hk
    simp only []
    rw [hget k hk, h0]
    have hM0 : M ≠ 0 := by rw [h0] at hne; exact hne
    rw [sub_zero, sub_zero, mul_div_assoc, div_self hM0, mul_one]

/-! ### (b) the reported parameters on any strictly ascending (irregular) grid -/

/-- for sampled wavelengths in strictly ascending order (any spacing), the call succeeds and reports the
number of wavelengths, the FIRST wavelength, the median of the steps (all of them: none is zero) — a
positive number between two of the steps — and the peak throughput -/
theorem reported_params_ascending (T : Transc K) (bp : K → K) (w0 w1 : K) (ws : List K)
    (hasc : (w0 :: w1 :: ws).Pairwise (· < ·)) {N : ℕ} (hN : N ≠ 0) (nTerms : ℕ) :
    ∃ r, filterToFft T bp (w0 :: w1 :: ws) N nTerms = .ok r ∧
      r.n = ws.length + 2 ∧ r.lam0 = w0 ∧ median (diffs (w0 :: w1 :: ws)) = .ok r.delta ∧ 0 < r.delta ∧
      (∃ s ∈ diffs (w0 :: w1 :: ws), ∃ s' ∈ diffs (w0 :: w1 :: ws), s ≤ r.delta ∧ r.delta ≤ s') ∧
      listMax ((w0 :: w1 :: ws).map bp) = .ok r.trMax ∧ r.fft.length = min nTerms N := by
  have hpos := C20x.diffs_pos (w0 :: w1 :: ws) hasc
  have hfil : (diffs (w0 :: w1 :: ws)).filter (fun d => d ≠ 0) = diffs (w0 :: w1 :: ws) := by
    rw [List.filter_eq_self]; intro x hx; simpa using (hpos x hx).ne'
  have hdne : diffs (w0 :: w1 :: ws) ≠ [] := by simp [diffs]
  obtain ⟨dl, hdl⟩ := C20x.median_isOk _ hdne
  obtain ⟨M, hM⟩ := listMax_isOk (l := (w0 :: w1 :: ws).map bp) (by simp)
  have hmin := C20x.listMin_of_pairwise w0 (w1 :: ws) hasc
  have hr := filterToFft_eq (T := T) (bp := bp) (nTerms := nTerms) hmin (by rw [hfil]; exact hdl) hM hN
  exact ⟨_, hr, by simp, rfl, hdl, C20x.median_pos _ _ hdl hpos, median_between hdl, hM, by simp [fftTrunc_length]⟩

/-! ### (c) the analytic model -/

/-- the relation between the one-sided sine series and the truncated inverse transform: at the integer
abscissae `j < N` the sine series `Σᵢ (Re cᵢ/N) sin(2π(i j/N + ¼)) − Σᵢ (Im cᵢ/N) sin(2π i j/N)` over the
retained coefficients IS `Re ifft(c, n=N)[j]` (for at most `N` coefficients, which is all `filter_to_fft`
ever returns) -/
theorem sine_series_eq_ifft {T : Transc K} (hT : TrigLawful T) (N : ℕ) (params : List (K × K))
    (hlen : params.length ≤ N) :
    (List.range N).map (fun (j : ℕ) => analyticM T N params (j : K)) = invDftRe T N params := by
  rw [invDftRe_eq T N params hlen]
  apply List.map_congr_left
  intro j _
  exact analyticM_nat hT N params j

/-- analytic model = tabulated reconstruction on the full grid, for the coefficients `filter_to_fft`
returned with ANY number of requested terms `≥ 1` (the hypotheses of `analytic_eq_tabulated` on the
coefficient list are discharged: `filter_to_fft` keeps `min(n_terms, N)` of them) -/
theorem analytic_eq_tabulated_roundtrip {T : Transc K} (hT : TrigLawful T) {bp : K → K} {wl : List K}
    {N nTerms : ℕ} {r : Params K} (h : filterToFft T bp wl N nTerms = .ok r) (hN : 2 ≤ N)
    (hterms : 1 ≤ nTerms) (hd : 0 < r.delta) :
    analyticEval T N r.lam0 r.delta r.trMax r.fft (simplifiedWavelength N r.lam0 r.delta) =
      (filterFromFft T N r.lam0 r.delta r.trMax r.fft).map Prod.snd := by
  have hl := (reported_params h).2.2.2.2
  apply analytic_eq_tabulated hT hN r.lam0 hd r.trMax r.fft
  · intro he; rw [he] at hl; simp at hl; omega
  · rw [hl]; exact min_le_right _ _

/-- the value the analytic model returns at a wavelength depends on that wavelength and on the span
(`lo`, `hi`) of the series over the evaluated array, on nothing else: no state is carried between
evaluations, and the array enters only through its minimum and maximum -/
theorem analytic_pointwise (T : Transc K) {N : ℕ} (hN : 2 ≤ N) (lam0 : K) {delta : K} (hd : 0 < delta)
    (trMax : K) (params : List (K × K)) (hne : params ≠ []) (xs ws : List K)
    (h : analyticEval T N lam0 delta trMax params xs = .ok ws) :
    ∃ lo hi, lo < hi ∧
      listMin (xs.map fun x => analyticM T N params ((x - lam0) / delta)) = .ok lo ∧
      listMax (xs.map fun x => analyticM T N params ((x - lam0) / delta)) = .ok hi ∧
      ws = xs.map (fun x => (analyticM T N params ((x - lam0) / delta) - lo) * trMax / (hi - lo)) := by
  rw [C20x.analyticEval_eq T hN lam0 hd trMax params hne xs] at h
  obtain ⟨lo, hi, hlo, hhi, hlt, hw⟩ := rescale_ok_iff h
  refine ⟨lo, hi, hlt, hlo, hhi, ?_⟩
  rw [hw, List.map_map]; rfl

/-- … in particular evaluating on the reversed array gives the reversed result (and fails exactly when the
forward evaluation fails) -/
theorem analytic_order (T : Transc K) {N : ℕ} (hN : 2 ≤ N) (lam0 : K) {delta : K} (hd : 0 < delta)
    (trMax : K) (params : List (K × K)) (hne : params ≠ []) (xs : List K) :
    analyticEval T N lam0 delta trMax params xs.reverse =
      (analyticEval T N lam0 delta trMax params xs).map List.reverse := by
  rw [C20x.analyticEval_eq T hN lam0 hd trMax params hne, C20x.analyticEval_eq T hN lam0 hd trMax params hne,
    List.map_reverse, C20x.rescale_reverse]

/-- whenever the analytic model returns numbers, on ANY set of wavelengths, they span exactly `[0, peak]` -/
theorem analytic_span (T : Transc K) {N : ℕ} (hN : 2 ≤ N) (lam0 : K) {delta : K} (hd : 0 < delta)
    {trMax : K} (hp : 0 ≤ trMax) (params : List (K × K)) (hne : params ≠ []) (xs ws : List K)
    (h : analyticEval T N lam0 delta trMax params xs = .ok ws) :
    listMin ws = .ok 0 ∧ listMax ws = .ok trMax ∧ ws.length = xs.length := by
  rw [C20x.analyticEval_eq T hN lam0 hd trMax params hne xs] at h
  obtain ⟨h1, h2, h3⟩ := rescale_span hp h
  exact ⟨h1, h2, by simpa using h3⟩

/-! ### (d) the span, as a dichotomy -/

/-- for every valid grid, peak `≥ 0` and coefficient list: EITHER the truncated inverse transform is
constant and `filter_from_fft` returns the all-NaN table (the recorded finding), OR it is not constant and
the returned table is on `λ₀ + kΔ` with minimum exactly `0` and maximum exactly `tr_max` -/
theorem span_dichotomy (T : Transc K) {N : ℕ} (hN : N ≠ 0) (lam0 : K) {delta : K} (hd : delta ≠ 0) {trMax : K}
    (hp : 0 ≤ trMax) (params : List (K × K)) :
    (listMax (invDftRe T N params) = listMin (invDftRe T N params) ∧
      filterFromFft T N lam0 delta trMax params = .error .nan) ∨
    (listMax (invDftRe T N params) ≠ listMin (invDftRe T N params) ∧
      ∃ tab, filterFromFft T N lam0 delta trMax params = .ok tab ∧
        tab.1 = simplifiedWavelength N lam0 delta ∧ listMin tab.2 = .ok 0 ∧ listMax tab.2 = .ok trMax ∧
        tab.2.length = N) := by
  by_cases hc : listMax (invDftRe T N params) = listMin (invDftRe T N params)
  · exact Or.inl ⟨hc, (from_fft_nan_iff_constant T hN lam0 hd trMax params).mpr hc⟩
  · right
    refine ⟨hc, ?_⟩
    have hne : invDftRe T N params ≠ [] := by
      intro h; have := congrArg List.length h; rw [invDftRe_length] at this; exact hN (by simpa using this)
    obtain ⟨lo, hlo⟩ := listMin_isOk hne
    obtain ⟨hi, hhi⟩ := listMax_isOk hne
    have he : hi ≠ lo := by
      intro e; apply hc; rw [hlo, hhi, e]
    have hfrom : filterFromFft T N lam0 delta trMax params =
        .ok (simplifiedWavelength N lam0 delta, (invDftRe T N params).map fun x => (x - lo) * trMax / (hi - lo)) := by
      rw [filterFromFft_eq T hN lam0 hd, rescale_eq_ok hlo hhi he]; rfl
    obtain ⟨h1, h2, h3, h4⟩ := span_partial hp hfrom
    exact ⟨_, hfrom, h1, h2, h3, h4⟩

/-! ### non-vacuity of the round-6 theorems -/

/-- `sin(πx)`, `cos(πx)` on the few arguments a two-point transform needs, with `π := 1` -/
def parityT : Transc ℚ :=
  ⟨fun _ => 0, fun _ => 0, fun _ => 0, fun _ => 0, fun _ => 0, fun _ => 0, fun _ => 0, fun _ _ => 0, 1,
    fun x => if x = 1 / 2 then 1 else if x = 3 / 2 then -1 else 0,
    fun x => if x = 0 then 1 else if x = 1 then -1 else 0⟩

/-- a non-constant two-term reconstruction: a table with minimum 0 and maximum the peak -/
example : filterFromFft parityT 2 1000 4 6 [(1, 0), (1, 0)] = .ok ([1000, 1004], [6, 0]) := by decide +kernel

example : ∃ tab, filterFromFft parityT 2 1000 4 6 [(1, 0), (1, 0)] = .ok tab ∧
    listMin tab.2 = .ok 0 ∧ listMax tab.2 = .ok 6 := by
  rcases span_dichotomy parityT (N := 2) (by decide) 1000 (delta := 4) (by norm_num) (trMax := 6) (by norm_num)
    [(1, 0), (1, 0)] with ⟨hc, _⟩ | ⟨_, tab, h, _, h1, h2, _⟩
  · exfalso; revert hc; decide +kernel
  · exact ⟨tab, h, h1, h2⟩

/-- the analytic model on the same coefficients, evaluated on the grid and on the reversed grid -/
theorem ex_analytic : analyticEval parityT 2 1000 4 6 [(1, 0), (1, 0)] [1000, 1004] = .ok [6, 0] := by
  decide +kernel

example : analyticEval parityT 2 1000 4 6 [(1, 0), (1, 0)] ([1000, 1004] : List ℚ).reverse = .ok [0, 6] := by
  rw [analytic_order parityT (by decide) 1000 (by norm_num) 6 _ (by simp), ex_analytic]; rfl

example : listMin ([6, 0] : List ℚ) = .ok 0 ∧ listMax ([6, 0] : List ℚ) = .ok 6 ∧ ([6, 0] : List ℚ).length = 2 :=
  analytic_span parityT (N := 2) (by decide) 1000 (delta := 4) (by norm_num) (trMax := 6) (by norm_num)
    [(1, 0), (1, 0)] (by simp) [1000, 1004] [6, 0] ex_analytic

example : ∃ lo hi : ℚ, lo < hi ∧ ([6, 0] : List ℚ) = ([1000, 1004] : List ℚ).map
    (fun x => (analyticM parityT 2 [(1, 0), (1, 0)] ((x - 1000) / 4) - lo) * 6 / (hi - lo)) := by
  obtain ⟨lo, hi, h1, _, _, h4⟩ := analytic_pointwise parityT (N := 2) (by decide) 1000 (delta := 4) (by norm_num) 6
    [(1, 0), (1, 0)] (by simp) [1000, 1004] [6, 0] ex_analytic
  exact ⟨lo, hi, h1, h4⟩

/-- an irregular ascending grid: steps 4, 6, 4 — median 4 -/
example : ∃ r, filterToFft parityT (fun x => x - 1000) ([1000, 1004, 1010, 1014] : List ℚ) 5 3 = .ok r ∧
    r.n = 4 ∧ r.lam0 = 1000 ∧ 0 < r.delta := by
  obtain ⟨r, hr, h1, h2, _, h4, _⟩ := reported_params_ascending parityT (fun x => x - 1000) (1000 : ℚ) 1004
    [1010, 1014] (by simp; norm_num) (N := 5) (by decide) 3
  exact ⟨r, hr, h1, h2, h4⟩

example : (List.range 4).map (fun (j : ℕ) => analyticM Transc.real 4 [(1, 0), (2, 1)] (j : ℝ)) =
    invDftRe Transc.real 4 [(1, 0), (2, 1)] :=
  sine_series_eq_ifft trigLawful_real 4 _ (by simp)

example : ∃ r, filterToFft Transc.real (fun x => |x - 1000|) (simplifiedWavelength 3 1000 4) 4 2 = .ok r ∧
    analyticEval Transc.real 4 r.lam0 r.delta r.trMax r.fft (simplifiedWavelength 4 r.lam0 r.delta) =
      (filterFromFft Transc.real 4 r.lam0 r.delta r.trMax r.fft).map Prod.snd := by
  obtain ⟨r, hr, _, _, hdl, _⟩ := reported_params_regular Transc.real (fun x => |x - 1000|) 3 (by norm_num) 1000
    (d := 4) (by norm_num) (N := 4) (by norm_num) 2
  exact ⟨r, hr, analytic_eq_tabulated_roundtrip trigLawful_real hr (by norm_num) (by norm_num)
    (by rw [hdl]; norm_num)⟩

/-- a curve with minimum 1 and peak 9 on three grid points satisfies the hypotheses of the affine statement
(and is therefore NOT reproduced: its reconstruction has minimum 0) -/
theorem ex_min : listMin ((simplifiedWavelength 3 (1000 : ℝ) 4).map fun x => |x - 1000| + 1) = .ok 1 := by
  apply listMin_eq_of
  · exact List.mem_map.2 ⟨1000 + ((0 : ℕ) : ℝ) * 4, sw_mem.2 ⟨0, by norm_num, rfl⟩, by simp⟩
  · intro y hy
    obtain ⟨x, _, rfl⟩ := List.mem_map.1 hy
    have := abs_nonneg (x - 1000)
    show (1 : ℝ) ≤ |x - 1000| + 1
    linarith

theorem ex_max : listMax ((simplifiedWavelength 3 (1000 : ℝ) 4).map fun x => |x - 1000| + 1) = .ok 9 := by
  apply listMax_eq_of
  · exact List.mem_map.2 ⟨1000 + ((2 : ℕ) : ℝ) * 4, sw_mem.2 ⟨2, by norm_num, rfl⟩, by norm_num⟩
  · intro y hy
    obtain ⟨x, hx, rfl⟩ := List.mem_map.1 hy
    obtain ⟨k, hk, rfl⟩ := sw_mem.1 hx
    interval_cases k <;> norm_num

example : ∃ r, filterToFft Transc.real (fun x => |x - 1000| + 1) (simplifiedWavelength 3 1000 4) 4 4 = .ok r ∧
    r.trMax = 9 ∧ filterFromFft Transc.real 4 r.lam0 r.delta r.trMax r.fft = .ok (simplifiedWavelength 4 1000 4,
      (List.range 4).map (fun k => ((|(1000 + ((min k (3 - 1) : ℕ) : ℝ) * 4) - 1000| + 1) - 1) * 9 / (9 - 1))) := by
  obtain ⟨r, hr, _, _, _, h4, h5⟩ := full_terms_affine isRealTrig_real (fun x => |x - 1000| + 1) 3 (by norm_num) 1000
    (d := 4) (by norm_num) 4 (by norm_num) 4 (by norm_num) 1 9 ex_min ex_max (by norm_num)
  exact ⟨r, hr, h4, h5⟩

example : ∃ r tab, filterToFft Transc.real (fun x => |x - 1000| + 1) (simplifiedWavelength 3 1000 4) 4 4 = .ok r ∧
    filterFromFft Transc.real 4 r.lam0 r.delta r.trMax r.fft = .ok tab ∧
    ¬ (∀ k < 3, tab.2.getD k 0 = (fun x => |x - 1000| + 1) (1000 + (k : ℝ) * 4)) := by
  obtain ⟨r, tab, hr, hf, hiff⟩ := exact_inverse_iff_min_zero isRealTrig_real (fun x => |x - 1000| + 1) 3 (by norm_num)
    1000 (d := 4) (by norm_num) 4 (by norm_num) 4 (by norm_num) 1 9 ex_min ex_max (by norm_num)
  exact ⟨r, tab, hr, hf, fun h => absurd (hiff.mp h) (by norm_num)⟩

/-! ### where the constant case lies with two retained terms -/

/-- the entries of a two-term reconstruction -/
theorem two_terms_entries {T : Transc ℝ} (hT : IsRealTrig T) (N : ℕ) (hN : 2 ≤ N) (c0 c1 : ℝ × ℝ) :
    invDftRe T N [c0, c1] = (List.range N).map fun (j : ℕ) =>
      (c0.1 + c1.1 * Real.cos (2 * Real.pi * (j : ℝ) / N) - c1.2 * Real.sin (2 * Real.pi * (j : ℝ) / N)) / N := by
  obtain ⟨hs, hc, hp⟩ := hT
  rw [invDftRe_eq T N [c0, c1] (by simpa using hN)]
  apply List.map_congr_left
  intro j _
  simp [rangeSum, List.range_succ, angle, hs, hc, hp]
  ring

/-- where the recorded finding lives when two terms are kept: on a grid of `N ≥ 3` points the two-term
reconstruction is constant (all-NaN table) IFF the first harmonic vanishes, `c₁ = 0`; for every other
coefficient pair the table spans `[0, peak]` (`span_dichotomy`) -/
theorem two_terms_nan_iff {T : Transc ℝ} (hT : IsRealTrig T) {N : ℕ} (hN : 3 ≤ N) (lam0 : ℝ) {delta : ℝ}
    (hd : delta ≠ 0) (trMax : ℝ) (c0 c1 : ℝ × ℝ) :
    filterFromFft T N lam0 delta trMax [c0, c1] = .error .nan ↔ c1 = (0, 0) := by
  have hN0 : N ≠ 0 := by omega
  have hNr : (N : ℝ) ≠ 0 := by exact_mod_cast hN0
  have hent := two_terms_entries hT N (by omega) c0 c1
  set f : ℕ → ℝ := fun j =>
    (c0.1 + c1.1 * Real.cos (2 * Real.pi * (j : ℝ) / N) - c1.2 * Real.sin (2 * Real.pi * (j : ℝ) / N)) / N with hf
  have hne : invDftRe T N [c0, c1] ≠ [] := by
    intro h; have := congrArg List.length h; rw [invDftRe_length] at this; exact hN0 (by simpa using this)
  constructor
  · intro h
    rw [from_fft_nan_iff_constant T hN0 lam0 hd] at h
    obtain ⟨lo, hlo⟩ := listMin_isOk hne
    rw [hlo] at h
    have hall : ∀ j < N, f j = lo := by
      intro j hj
      have hm : f j ∈ invDftRe T N [c0, c1] := by
        rw [hent]; exact List.mem_map.2 ⟨j, List.mem_range.2 hj, rfl⟩
      exact le_antisymm ((listMax_spec h).2 _ hm) ((listMin_spec hlo).2 _ hm)
    have h0 := hall 0 (by omega)
    have h1 := hall 1 (by omega)
    have h2 := hall (N - 1) (by omega)
    have hθ : (2 * Real.pi * ((N - 1 : ℕ) : ℝ) / N) = 2 * Real.pi - 2 * Real.pi * ((1 : ℕ) : ℝ) / N := by
      rw [Nat.cast_sub (by omega)]; push_cast; field_simp
    simp only [hf] at h0 h1 h2
    rw [hθ, Real.cos_two_pi_sub, Real.sin_two_pi_sub] at h2
    simp only [Nat.cast_zero, mul_zero, zero_div, Real.cos_zero, Real.sin_zero, mul_one, sub_zero] at h0
    set θ := 2 * Real.pi * ((1 : ℕ) : ℝ) / N with hθd
    have hθpos : 0 < θ := by rw [hθd]; positivity
    have hθpi : θ < Real.pi := by
      rw [hθd, div_lt_iff₀ (by positivity)]
      have : (3 : ℝ) ≤ N := by exact_mod_cast hN
      push_cast
      nlinarith [Real.pi_pos]
    have hsin : 0 < Real.sin θ := Real.sin_pos_of_pos_of_lt_pi hθpos hθpi
    have hcos : Real.cos θ ≠ 1 := by
      intro hc1
      have := Real.sin_sq_add_cos_sq θ
      rw [hc1] at this
      nlinarith
    have e1 : c1.1 * Real.cos θ - c1.2 * Real.sin θ = c1.1 := by
      have := h1.trans h0.symm
      field_simp at this
      linarith
    have e2 : c1.1 * Real.cos θ + c1.2 * Real.sin θ = c1.1 := by
      have := h2.trans h0.symm
      field_simp at this
      linarith
    have hb : c1.2 = 0 := by
      have : c1.2 * Real.sin θ = 0 := by linarith
      rcases mul_eq_zero.mp this with h | h
      · exact h
      · exact absurd h hsin.ne'
    have ha : c1.1 = 0 := by
      have : c1.1 * (Real.cos θ - 1) = 0 := by rw [hb] at e1; linarith
      rcases mul_eq_zero.mp this with h | h
      · exact h
      · exact absurd (sub_eq_zero.mp h) hcos
    exact Prod.ext ha hb
  · intro h
    rw [filterFromFft_eq T hN0 lam0 hd]
    have : rescale (invDftRe T N [c0, c1]) trMax = .error .nan := by
      apply rescale_const_nan hne
      intro x hx y hy
      rw [hent] at hx hy
      obtain ⟨j, _, rfl⟩ := List.mem_map.1 hx
      obtain ⟨k, _, rfl⟩ := List.mem_map.1 hy
      simp only [hf]; rw [h]; simp
    rw [this]; rfl

/-- a two-term coefficient list with a non-zero first harmonic on four points: a table, spanning `[0, 5]` -/
example : ∃ tab, filterFromFft Transc.real 4 1000 2 5 [(3, 0), (1, 2)] = .ok tab ∧
    listMin tab.2 = .ok 0 ∧ listMax tab.2 = .ok 5 := by
  rcases span_dichotomy Transc.real (N := 4) (by decide) 1000 (delta := 2) (by norm_num) (trMax := 5) (by norm_num)
    [(3, 0), (1, 2)] with ⟨_, hnan⟩ | ⟨_, tab, h, _, h1, h2, _⟩
  · have := (two_terms_nan_iff isRealTrig_real (N := 4) (by norm_num) 1000 (delta := 2) (by norm_num) 5 (3, 0) (1, 2)).mp hnan
    exact absurd (congrArg Prod.fst this) (by norm_num)
  · exact ⟨tab, h, h1, h2⟩

end Synphot.C20
