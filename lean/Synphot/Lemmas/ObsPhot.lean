import Synphot.Lemmas.BinFlux
import Synphot.Lemmas.PixRange
import Synphot.Lemmas.Interp
import Synphot.Core.ObsPhot

set_option linter.unusedSectionVars false
set_option linter.unusedVariables false
set_option linter.unusedSimpArgs false

namespace Synphot
variable {K : Type} [Field K] [LinearOrder K] [IsStrictOrderedRing K]

/-- element-wise product of fluxes with count factors -/
def mulFactors : List K → List K → List K
  | f :: fs, c :: cs => f * c :: mulFactors fs cs
  | _, _ => []

theorem convertAll_count (P : PhysConst K) (T : Transc K) :
    ∀ (w f cf : List K) (vega : Option (List K)), w.length = f.length → cf.length = w.length →
      convertAll P T .photlam .count (mkSamples w (some cf) vega) f = .ok (mulFactors f cf) := by
  intro w
  induction w with
  | nil => intro f cf vega h1 h2; cases f <;> simp_all [mkSamples, convertAll, mulFactors, pure, Except.pure]
  | cons l ws ih =>
    intro f cf vega h1 h2
    cases f with
    | nil => simp at h1
    | cons x xs =>
      cases cf with
      | nil => simp at h2
      | cons c cs =>
        have := ih xs cs (vega.map List.tail) (by simpa using h1) (by simpa using h2)
        simp only [mkSamples, convertAll, Option.map_some, List.tail_cons, Option.bind_some, List.head?_cons,
          convertOne, toPhotlam, ofPhotlam, bind, Except.bind, this, mulFactors, pure, Except.pure]
        simp

/-- PHOTLAM → count on arrays: each flux times (bin width × area) -/
theorem convertFlux_count (P : PhysConst K) (T : Transc K) (w f e bw : List K) (a : K)
    (hv : validateWavelengths w = .ok ()) (he : binEdges w = .ok e) (hw : binWidths e = .ok bw) (hbw : bw.length = w.length)
    (hlen : w.length = f.length) :
    convertFlux P T w f .photlam .count (some a) none = .ok (mulFactors f (bw.map (· * a))) := by
  unfold convertFlux
  have hne : (FluxUnit.photlam : FluxUnit K) ≠ .count := by intro h; cases h
  rw [if_neg hne]
  have hcf : countFactorsFor w (.photlam : FluxUnit K) .count (some a) = .ok (some (bw.map (· * a))) := by
    simp [countFactorsFor, FluxUnit.needsArea, countFactors, calcBinEdges_eq w e hv he, hw, bind, Except.bind, pure, Except.pure,
      Except.map]
  rw [hcf]
  show convertAll P T .photlam .count (mkSamples w (some (bw.map (· * a))) none) f = _
  exact convertAll_count P T w f _ none hlen (by simpa using hbw)

theorem mulFactors_sum_scale (f bw : List K) (a : K) :
    (mulFactors f (bw.map (· * a))).sum = a * (mulFactors f bw).sum := by
  induction f generalizing bw with
  | nil => simp [mulFactors]
  | cons x xs ih =>
    cases bw with
    | nil => simp [mulFactors]
    | cons b bs =>
      simp only [List.map_cons, mulFactors, List.sum_cons, ih bs]; ring

theorem mulFactors_smul (k : K) (f cf : List K) :
    mulFactors (f.map (k * ·)) cf = (mulFactors f cf).map (k * ·) := by
  induction f generalizing cf with
  | nil => simp [mulFactors]
  | cons x xs ih =>
    cases cf with
    | nil => simp [mulFactors]
    | cons c cs => simp only [List.map_cons, mulFactors, ih cs]; congr 1; ring

theorem sum_map_mul_left (k : K) (l : List K) : (l.map (k * ·)).sum = k * l.sum := by
  induction l with
  | nil => simp
  | cons a l ih => simp only [List.map_cons, List.sum_cons, ih]; ring

end Synphot
