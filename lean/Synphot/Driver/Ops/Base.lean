import Synphot.Driver.Json
import Synphot.Core.Binning
import Synphot.Core.PixRange
import Synphot.Core.Units
import Synphot.Core.Wave
import Synphot.Core.Trapz
import Synphot.Core.Interp
import Synphot.Core.WaveUnit
import Synphot.Driver.FloatTransc

open Lean Synphot

namespace Synphot.Driver

def parseFluxUnit (j : Json) : M (FluxUnit Rat) := do
  match j with
  | .str "photlam" => pure .photlam | .str "photnu" => pure .photnu
  | .str "flam" => pure .flam | .str "fnu" => pure .fnu
  | .str "stmag" => pure .stmag | .str "abmag" => pure .abmag
  | .str "count" => pure .count | .str "obmag" => pure .obmag | .str "vegamag" => pure .vegamag
  | .str s => .error s!"unknown flux unit {s}"
  | o => do
      let k ← fRat o "jy"
      pure (.jy k)

def parseConst (j : Json) : M (PhysConst Rat) := do
  pure { h := ← fRat j "h", c := ← fRat j "c", stZero := ← fRat j "st", abZero := ← fRat j "ab",
         jyFnu := ← fRat j "jy" }

def optRat (j : Json) (k : String) : M (Option Rat) :=
  match fOpt j k with
  | none => pure none
  | some v => (asRat v).map some

def optRats (j : Json) (k : String) : M (Option (List Rat)) :=
  match fOpt j k with
  | none => pure none
  | some v => (asRats v).map some

def dispatchBaseM (op : String) (j : Json) : M Json := do
  match op with
  | "bin_edges" => do
      let c ← fRats j "c"
      pure (outcome jRats (calcBinEdges c))
  | "bin_widths" => do
      let e ← fRats j "e"
      pure (outcome jRats (binWidths e))
  | "bin_centers" => do
      let e ← fRats j "e"
      pure (outcome jRats (binCenters e))
  | "wave_range" => do
      let bins ← fRats j "bins"
      let cen ← fRat j "cen"
      let isInt ← fBool j "npix_is_int"
      let npix ← fInt j "npix"
      let mode ← fStr j "mode"
      let r : Except Err (Rat × Rat) := waveRangeTop bins cen isInt npix mode
      pure (outcome (fun (p : Rat × Rat) => Json.arr #[jRat p.1, jRat p.2]) r)
  | "pixel_range" => do
      let bins ← fRats j "bins"
      let w0 ← fRat j "w0"
      let w1 ← fRat j "w1"
      let mode ← fStr j "mode"
      pure (outcome jRat (pixelRangeTop bins w0 w1 mode))
  | "convert_flux" => do
      let P ← getField j "const" >>= parseConst
      let w ← fRats j "w"
      let f ← fRats j "f"
      let uin ← getField j "uin" >>= parseFluxUnit
      let uout ← getField j "uout" >>= parseFluxUnit
      let area ← optRat j "area"
      let vega ← optRats j "vega"
      pure (outcome jRats (convertFlux P transcQ w f uin uout area vega))
  | "convert_flux_w" => do
      -- wavelengths given as (value, unit kind, factor); converted to Angstrom by the model
      let P ← getField j "const" >>= parseConst
      let wv ← fRats j "wv"
      let kind ← fStr j "wkind"
      let fac ← fRat j "wfac"
      let wu : WaveUnit Rat := match kind with
        | "length" => .length fac | "freq" => .freq fac | "wavenumber" => .wavenumber fac | _ => .other
      let f ← fRats j "f"
      let uin ← getField j "uin" >>= parseFluxUnit
      let uout ← getField j "uout" >>= parseFluxUnit
      let area ← optRat j "area"
      let vega ← optRats j "vega"
      let r : Except Err (List Rat) := do
        let w ← wv.mapM (wu.toAngstrom P.c)
        convertFlux P transcQ w f uin uout area vega
      pure (outcome jRats r)
  | "validate" => do
      let w ← fRats j "w"
      pure (outcome (fun _ => Json.null) (validateWavelengths w))
  | "merge" => do
      let a ← optRats j "a"
      let b ← optRats j "b"
      let thr ← fRat j "thr"
      pure (match mergeWavelengths thr a b with
        | none => Json.mkObj [("ok", Json.null)]
        | some l => Json.mkObj [("ok", jRats l)])
  | "trapz" => do
      let x ← fRats j "x"
      let y ← fRats j "y"
      pure (Json.mkObj [("ok", jRat (trapzXY x y))])
  | _ => .error s!"unknown op {op}"

/-- ops of C01, C04, C13 (merge), C18; `none`: not one of ours -/
def dispatchBase (op : String) (j : Json) : Option (M Json) :=
  if op ∈ ["bin_edges", "bin_widths", "bin_centers", "wave_range", "pixel_range", "convert_flux",
           "convert_flux_w", "validate", "merge", "trapz"] then some (dispatchBaseM op j) else none


end Synphot.Driver
