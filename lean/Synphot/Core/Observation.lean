/-
  Synphot.Core.Observation — `utils.overlap_status`, `SpectralElement.check_overlap`
  (spectrum.py:1450-1568), `Observation.__init__` / `_init_bins` / `sample_binned`
  (observation.py:77-289), both `calcbinflux` implementations (src/synphot_utils.c,
  binning.py:17-48), `BaseSpectrum.taper` / `force_extrapolation` on spectrum objects.
-/
import Synphot.Core.Spectrum
import Synphot.Core.Binning
import Synphot.Core.PixRange
import Synphot.Core.Trapz

namespace Synphot
variable {K : Type} [Field K] [LinearOrder K] [IsStrictOrderedRing K]

/-! ### overlap -/

inductive Overlap | full | part | none
  deriving DecidableEq, Repr

/-- `utils.overlap_status` on the end points `a1 ≤ a2`, `b1 ≤ b2` of the two arrays -/
def overlapStatus (a1 a2 b1 b2 : K) : Overlap :=
  if a1 ≥ b1 ∧ a2 ≤ b2 then .full
  else if a2 < b1 ∨ b2 < a1 then .none
  else .part

inductive Verdict | full | partialMost | partialNotMost | none
  deriving DecidableEq, Repr

def Verdict.name : Verdict → String
  | .full => "full" | .partialMost => "partial_most" | .partialNotMost => "partial_notmost"
  | .none => "none"

def listMin : List K → Option K
  | [] => Option.none
  | a :: t => some (t.foldl min a)

def listMax : List K → Option K
  | [] => Option.none
  | a :: t => some (t.foldl max a)

def sampleTree (E : Env K) (m : Tree K) (xs : List K) : Except Err (List K) := xs.mapM (m.eval E)

/-- `utils.validate_totalflux` (NaN/inf cannot occur in a field) -/
def validateTotalflux (v : K) : Except Err Unit := if v ≤ 0 then .error .synphotError else .ok ()

/-- `integrate(wavelengths=x, integration_type='trapezoid')`: `|trapz(|y|, x)|` after validating `x` -/
def integrateTrapz (E : Env K) (m : Tree K) (x : List K) : Except Err K := do
  validateWavelengths x
  let y ← sampleTree E m x
  pure |trapzXY x (y.map fun v => |v|)|

/-- parameters of the overlap test: merge threshold, `np.allclose` absolute tolerance (1e-8),
excluded-flux threshold (0.01) -/
structure OverlapPar (K : Type) where
  mergeThr : K
  allcloseAtol : K
  threshold : K

/-- `_validate_wavelengths(None)`: the validated waveset, `SynphotError` when undefined -/
def wavesetOrErr (thr : K) (m : Tree K) : Except Err (List K) := do
  match ← m.waveset thr with
  | some w => pure w
  | Option.none => .error .synphotError

/-- the decision at the end of `check_overlap`: end-point status, then — for a partial overlap —
the shortcut (`other` tapered or a simple analytic model, and zero at both ends of the
bandpass's sampling range), then the excluded fraction against the threshold -/
def gradeVerdict (st : Overlap) (zeroAtEnds : Bool) (excluded total threshold : K) : Verdict :=
  match st with
  | .full => .full
  | .none => .none
  | .part =>
      if zeroAtEnds then .full
      else if excluded / total < threshold then .partialMost else .partialNotMost

/-- `SpectralElement.check_overlap(other, wavelengths)` -/
def checkOverlap (E : Env K) (P : OverlapPar K) (band other : Spec K) (wl : Option (List K)) :
    Except Err Verdict := do
  let bm ← band.model
  let om ← other.model
  -- special cases without sampling wavelengths (each `.waveset` access validates)
  if wl.isNone then
    if (← om.waveset P.mergeThr).isNone then return .full
    if (← bm.waveset P.mergeThr).isNone then return .partialNotMost
  let x1 ← match wl with
    | some w => do validateWavelengths w; pure w
    | Option.none => wavesetOrErr P.mergeThr bm
  let y1 ← sampleTree E bm x1
  let a := ((x1.zip y1).filter fun p => decide (p.2 > 0)).map Prod.fst
  let b ← match wl with
    | some w => pure w
    | Option.none => wavesetOrErr P.mergeThr om
  match listMin a, listMax a, listMin b, listMax b with
  | some a1, some a2, some b1, some b2 =>
    match overlapStatus a1 a2 b1 b2 with
    | .full => pure (gradeVerdict .full false (0 : K) 1 P.threshold)
    | .none => pure (gradeVerdict .none false (0 : K) 1 P.threshold)
    | .part =>
      let shortcutKind : Bool := match om.rootTable? with
        | some t => t.isTapered
        | Option.none => !om.isCompound
      let ends : List K := match x1.head?, x1.getLast? with
        | some f, some l => [f, l]
        | _, _ => []
      let atEnds ← sampleTree E om ends
      if shortcutKind ∧ atEnds.all (fun v => decide (|v| ≤ P.allcloseAtol)) then
        pure (gradeVerdict .part true (0 : K) 1 P.threshold)
      else do
        let total ← integrateTrapz E bm x1
        validateTotalflux total
        let e1 ← if a1 < b1 then integrateTrapz E bm [a1, b1] else pure 0
        let e2 ← if a2 > b2 then integrateTrapz E bm [b2, a2] else pure 0
        pure (gradeVerdict .part false (e1 + e2) total P.threshold)
  | _, _, _, _ => .error .valueError      -- `.min()` of an empty array

/-! ### tapering / extrapolating a spectrum object -/

/-- `force_extrapolation()`: only an `Empirical1D` `_model` changes; returns whether it did -/
def Spec.forceExtrap (s : Spec K) : Spec K × Bool :=
  match s.tree with
  | .leaf (.table t) => ({ s with tree := .leaf (.table t.forceExtrap) }, true)
  | .leaf (.extinction t) => ({ s with tree := .leaf (.extinction t.forceExtrap) }, true)
  | _ => (s, false)

/-- `taper(wavelengths=None)`: `none` = the spectrum itself is returned -/
def Spec.taper (E : Env K) (thr : K) (s : Spec K) (wl : Option (List K)) :
    Except Err (Option (Spec K)) := do
  let m ← s.model
  let x ← match wl with
    | some w => do
        validateWavelengths w
        -- the end points are matched with the end values on ascending wavelengths (cfa13db)
        pure (if isDesc w then w.reverse else w)
    | Option.none => wavesetOrErr thr m
  match x with
  | x0 :: x1 :: _ =>
    let xl := x.getLastD x0
    let xl2 := (x.dropLast).getLastD x0
    let w1 := x0 ^ 2 / x1
    let w2 := xl ^ 2 / xl2
    let (y1, y2, keep) ← match s.tree.rootTable? with
      | some t => pure (t.vals.headD 0, t.vals.getLastD 0, t.keepNeg)
      | Option.none => do
          -- `self(w1)`, `self(w2)` validate the single wavelength first
          validateWavelengths [w1]
          let a ← m.eval E w1
          validateWavelengths [w2]
          let b ← m.eval E w2
          pure (a, b, true)
    if y1 = 0 ∧ y2 = 0 then pure Option.none
    else do
      let y ← sampleTree E m x
      let (xa, ya) := if y1 ≠ 0 then (w1 :: x, (0 : K) :: y) else (x, y)
      let (xb, yb) := if y2 ≠ 0 then (xa ++ [w2], ya ++ [0]) else (xa, ya)
      let (t, _) := mkTable xb yb keep
      pure (some (Spec.ofTree s.kind (.leaf (.table t))))
  | _ => .error .indexError

/-! ### admission of an observation -/

inductive Force | none | taper | extrap | invalid
  deriving DecidableEq, Repr

/-- `force.lower()`; `None` ↦ `'none'`; anything starting with `extrap` extrapolates -/
def Force.ofString (s : String) : Force :=
  let l := s.toLower
  if l = "none" then .none else if l = "taper" then .taper
  else if l.startsWith "extrap" then .extrap else .invalid

/-- `Observation.__init__` up to the product: the (possibly tapered / extrapolating) source and
whether a `PartialOverlap` warning is recorded -/
def obsAdmit (E : Env K) (P : OverlapPar K) (src band : Spec K) (force : Force) :
    Except Err (Spec K × Bool) := do
  let stat ← checkOverlap E P band src Option.none
  match stat with
  | .none => .error .disjointError
  | .full => pure (src, false)
  | _ =>
    match force with
    | .none => .error .partialOverlap
    | .taper => do
        match ← src.taper E P.mergeThr Option.none with
        | some t => pure (t, true)
        | Option.none => pure (src, true)
    | .extrap => pure ((src.forceExtrap).1, true)
    | .invalid => .error .synphotError

/-! ### binning -/

/-- the C loop: per bin `Σ avflux·dw / Σ dw` over `[first, last)`; `ZeroDivisionError` on an empty
or zero-width bin -/
def calcbinfluxC (ibeg iend : List Nat) (avflux deltaw : List K) : Except Err (List K × List K) := do
  let r ← (ibeg.zip iend).mapM fun (f, l) =>
    let dw := (deltaw.drop f).take (l - f)
    let av := (avflux.drop f).take (l - f)
    let ds := dw.sum
    let fs := ((av.zip dw).map fun (a, d) => a * d).sum
    if ds = 0 then (.error .zeroDivision : Except Err (K × K)) else .ok (fs / ds, ds)
  pure (r.map Prod.fst, r.map Prod.snd)

/-- `_slow_calcbinflux`: the same sums with NumPy slices; 0/0 is NaN, not an exception -/
def calcbinfluxPy (ibeg iend : List Nat) (avflux deltaw : List K) : Except Err (List K × List K) := do
  let r ← (ibeg.zip iend).mapM fun (f, l) =>
    let dw := (deltaw.drop f).take (l - f)
    let av := (avflux.drop f).take (l - f)
    let ds := dw.sum
    let fs := ((av.zip dw).map fun (a, d) => a * d).sum
    if ds = 0 then (.error .nan : Except Err (K × K)) else .ok (fs / ds, ds)
  pure (r.map Prod.fst, r.map Prod.snd)

def pairSums : List K → List K
  | a :: b :: t => (b + a) * (1/2) :: pairSums (b :: t)
  | _ => []

def pairDiffs : List K → List K
  | a :: b :: t => (b - a) :: pairDiffs (b :: t)
  | _ => []

structure Bins (K : Type) where
  binset : List K
  edges : List K
  binflux : List K
  /-- the merged grid and what was integrated on it (exposed for the conservation theorem / oracle) -/
  spwave : List K
  flux : List K
  ibeg : List Nat
  iend : List Nat

/-- `_init_bins` for an already validated binset in Angstrom -/
def initBins (E : Env K) (thr : K) (obsModel : Tree K) (binset0 : List K) (useC : Bool) :
    Except Err (Bins K) := do
  let binset := match binset0.head?, binset0.getLast? with
    | some f, some l => if f > l then binset0.reverse else binset0
    | _, _ => binset0
  let edges ← binEdges binset
  let sp1 := filterClose thr (union1d edges binset)
  let sp2 ← match ← obsModel.waveset thr with
    | some w => pure (filterClose thr (union1d sp1 w))
    | Option.none => pure sp1
  let sp := sp2.filter fun w => decide (w > 0)
  let idx := edges.map (searchLeft sp)
  let ibeg := idx.dropLast
  let iend := idx.drop 1
  let flux ← sampleTree E obsModel sp
  let avflux := pairSums flux
  let deltaw := pairDiffs sp
  let (bf, _) ← if useC then calcbinfluxC ibeg iend avflux deltaw else calcbinfluxPy ibeg iend avflux deltaw
  pure { binset := binset, edges := edges, binflux := bf, spwave := sp, flux := flux, ibeg := ibeg, iend := iend }

/-- default binset: the bandpass's waveset, else the source's, else `UndefinedBinset` -/
def defaultBinset (thr : K) (srcModel bandModel : Tree K) : Except Err (List K) := do
  match ← bandModel.waveset thr with
  | some w => pure w
  | Option.none =>
    match ← srcModel.waveset thr with
    | some w => pure w
    | Option.none => .error .undefinedBinset

/-- an observation -/
structure Obs (K : Type) where
  src : Spec K
  band : Spec K
  model : Tree K
  warned : Bool
  bins : Bins K

/-- `Observation(spec, band, binset, force)`; `binset` already converted to Angstrom -/
def mkObs (E : Env K) (P : OverlapPar K) (src band : Spec K) (binset : Option (List K)) (force : Force)
    (useC : Bool) : Except Err (Obs K) := do
  if src.kind ≠ .source then throw .synphotError
  if band.kind ≠ .bandpass then throw .synphotError
  let (s, warned) ← obsAdmit E P src band force
  let sm ← s.model
  let bm ← band.model
  let model := Tree.bin .mul sm bm
  let bs ← match binset with
    | some b => do validateWavelengths b; pure b
    | Option.none => defaultBinset P.mergeThr sm bm
  let bins ← initBins E P.mergeThr model bs useC
  pure { src := s, band := band, model := model, warned := warned, bins := bins }

/-- `np.allclose(binset[i], x)` for one element: `|a − b| ≤ 1e-8 + 1e-5·|b|` -/
def allcloseOne (atol rtol a b : K) : Bool := decide (|a - b| ≤ atol + rtol * |b|)

/-- the bin index `sample_binned` compares a wavelength with: `np.minimum(searchsorted(binset, v), size − 1)` -/
def binIndex (binset : List K) (v : K) : Int :=
  ((min (searchLeft binset v) (binset.length - 1) : Nat) : Int)

/-- `sample_binned(wavelengths)` in PHOTLAM: `searchsorted` (left), `allclose`, lookup -/
def sampleBinned (atol rtol : K) (b : Bins K) (x : List K) : Except Err (List K) := do
  validateWavelengths x
  let idx : List Int := x.map (binIndex b.binset)
  let hits ← idx.mapM (pyIndex b.binset)
  if !((hits.zip x).all fun (a, v) => allcloseOne atol rtol a v) then throw .interpolationNotAllowed
  idx.mapM (pyIndex b.binflux)

end Synphot
