/-
  Synphot.Lemmas.BlackBodyIntegral — the Stefan–Boltzmann integral for C16:
  `∫₀^∞ t³ e^{−(n+1)t} dt = 6/(n+1)⁴` (Gamma integral), `Σ 6/(n+1)⁴ = π⁴/15` (ζ(4)), the Bose integral
  `∫₀^∞ x³/(eˣ − 1) dx = π⁴/15` (termwise integration of the geometric series) and, by the substitutions
  `y = 1/λ`, `u = a y`, `∫₀^∞ A/(λ⁵(e^{a/λ} − 1)) dλ = (A/a⁴) π⁴/15`.
-/
import Mathlib.Analysis.SpecialFunctions.Gamma.Basic
import Mathlib.NumberTheory.ZetaValues
import Mathlib.MeasureTheory.Integral.DominatedConvergence
import Mathlib.MeasureTheory.Integral.IntegralEqImproper
import Mathlib.Analysis.SpecificLimits.Basic

set_option linter.unusedVariables false

open MeasureTheory Set Real

namespace Synphot.BlackBody

theorem integral_pow3_exp (n : ℕ) :
    ∫ t in Ioi (0:ℝ), t ^ 3 * exp (-(((n:ℝ) + 1) * t)) = 6 / ((n:ℝ) + 1) ^ 4 := by
  have h := integral_rpow_mul_exp_neg_mul_Ioi (a := 4) (r := (n:ℝ) + 1) (by norm_num) (by positivity)
  have hG : Real.Gamma 4 = 6 := by
    rw [show (4:ℝ) = ((3:ℕ):ℝ) + 1 by norm_num, Real.Gamma_nat_eq_factorial]
    norm_num [Nat.factorial]
  rw [hG] at h
  have e : ∀ t ∈ Ioi (0:ℝ), t ^ ((4:ℝ) - 1) * exp (-(((n:ℝ) + 1) * t)) = t ^ 3 * exp (-(((n:ℝ) + 1) * t)) := by
    intro t ht
    have : ((4:ℝ) - 1) = ((3:ℕ):ℝ) := by norm_num
    rw [this, Real.rpow_natCast]
  rw [setIntegral_congr_fun measurableSet_Ioi e] at h
  rw [h]
  have : (1 / ((n:ℝ) + 1)) ^ (4:ℝ) = (1 / ((n:ℝ) + 1)) ^ 4 := by
    have : (4:ℝ) = ((4:ℕ):ℝ) := by norm_num
    rw [this, Real.rpow_natCast]
  rw [this]
  field_simp

theorem hasSum_six_div_pow4 : HasSum (fun n : ℕ => 6 / ((n:ℝ) + 1) ^ 4) (π ^ 4 / 15) := by
  have h := (hasSum_nat_add_iff' 1).mpr hasSum_zeta_four
  simp only [Finset.range_one, Finset.sum_singleton, Nat.cast_zero] at h
  have h2 := h.mul_left 6
  have hfun : (fun n : ℕ => 6 / ((n:ℝ) + 1) ^ 4) = fun n : ℕ => 6 * (1 / ((n + 1 : ℕ) : ℝ) ^ 4) := by
    funext n; push_cast; ring
  have hval : π ^ 4 / 15 = 6 * (π ^ 4 / 90 - 1 / (0:ℝ) ^ 4) := by norm_num; ring
  rw [hfun, hval]; exact h2

theorem tsum_bose {x : ℝ} (hx : 0 < x) :
    HasSum (fun n : ℕ => x ^ 3 * exp (-(((n:ℝ) + 1) * x))) (x ^ 3 / (exp x - 1)) := by
  have hr0 : 0 ≤ exp (-x) := (exp_pos _).le
  have hr1 : exp (-x) < 1 := by rw [exp_lt_one_iff]; linarith
  have hg := (hasSum_geometric_of_lt_one hr0 hr1).mul_left (x ^ 3 * exp (-x))
  have hfun : (fun n : ℕ => x ^ 3 * exp (-(((n:ℝ) + 1) * x))) =
      fun n : ℕ => x ^ 3 * exp (-x) * exp (-x) ^ n := by
    funext n
    rw [← Real.exp_nat_mul, mul_assoc, ← Real.exp_add]
    congr 2; ring
  have hval : x ^ 3 / (exp x - 1) = x ^ 3 * exp (-x) * (1 - exp (-x))⁻¹ := by
    have hex : exp x - 1 ≠ 0 := by
      have : 1 < exp x := by rw [one_lt_exp_iff]; exact hx
      linarith
    have h1 : 1 - exp (-x) ≠ 0 := by linarith
    rw [Real.exp_neg] at h1 ⊢
    have hxp := (exp_pos x).ne'
    field_simp
  rw [hfun, hval]; exact hg

theorem integral_bose : ∫ x in Ioi (0:ℝ), x ^ 3 / (exp x - 1) = π ^ 4 / 15 := by
  set F : ℕ → ℝ → ℝ := fun n x => x ^ 3 * exp (-(((n:ℝ) + 1) * x)) with hF
  have hval : ∀ n, ∫ x in Ioi (0:ℝ), F n x = 6 / ((n:ℝ) + 1) ^ 4 := integral_pow3_exp
  have hint : ∀ n, Integrable (F n) (volume.restrict (Ioi 0)) := by
    intro n
    by_contra h
    have h0 := integral_undef h
    rw [hval n] at h0
    have : (6:ℝ) / ((n:ℝ) + 1) ^ 4 ≠ 0 := by positivity
    exact this h0
  have hnorm : ∀ n, ∫ x in Ioi (0:ℝ), ‖F n x‖ = 6 / ((n:ℝ) + 1) ^ 4 := by
    intro n
    rw [← hval n]
    apply setIntegral_congr_fun measurableSet_Ioi
    intro x hx
    have : 0 ≤ F n x := by
      have hx' : (0:ℝ) < x := hx
      simp only [hF]; positivity
    exact Real.norm_of_nonneg this
  have hsum : Summable fun n => ∫ x in Ioi (0:ℝ), ‖F n x‖ := by
    simp only [hnorm]; exact hasSum_six_div_pow4.summable
  have hs := hasSum_integral_of_summable_integral_norm hint hsum
  have hlim : ∫ x in Ioi (0:ℝ), ∑' n, F n x = ∫ x in Ioi (0:ℝ), x ^ 3 / (exp x - 1) := by
    apply setIntegral_congr_fun measurableSet_Ioi
    intro x hx
    exact (tsum_bose hx).tsum_eq
  rw [← hlim]
  simp only [hval] at hs
  exact hs.unique hasSum_six_div_pow4 |>.symm ▸ rfl

/-- `∫₀^∞ A / (λ⁵ (exp(a/λ) − 1)) dλ = (A / a⁴) π⁴/15` (substitutions `y = 1/λ`, `u = a y`) -/
theorem integral_planck_shape (A a : ℝ) (ha : 0 < a) :
    ∫ l in Ioi (0:ℝ), A / (l ^ 5 * (exp (a / l) - 1)) = A / a ^ 4 * (π ^ 4 / 15) := by
  have h1 := integral_comp_rpow_Ioi (fun y : ℝ => A * y ^ 3 / (exp (a * y) - 1)) (p := -1) (by norm_num)
  have e1 : ∀ x ∈ Ioi (0:ℝ), (|(-1:ℝ)| * x ^ ((-1:ℝ) - 1)) • ((fun y : ℝ => A * y ^ 3 / (exp (a * y) - 1)) (x ^ (-1:ℝ)))
      = A / (x ^ 5 * (exp (a / x) - 1)) := by
    intro x hx
    have hx0 : (0:ℝ) < x := hx
    have hE : exp (a / x) - 1 ≠ 0 := by
      have : 1 < exp (a / x) := by rw [one_lt_exp_iff]; positivity
      linarith
    have p1 : x ^ (-1:ℝ) = x⁻¹ := Real.rpow_neg_one x
    have p2 : x ^ ((-1:ℝ) - 1) = (x ^ 2)⁻¹ := by
      rw [show ((-1:ℝ) - 1) = -((2:ℕ):ℝ) by norm_num, Real.rpow_neg hx0.le, Real.rpow_natCast]
    simp only [p1, p2, abs_neg, abs_one, one_mul, smul_eq_mul]
    rw [show a * x⁻¹ = a / x by ring]
    field_simp
  rw [setIntegral_congr_fun measurableSet_Ioi e1] at h1
  rw [h1]
  have h2 := integral_comp_mul_left_Ioi (fun u : ℝ => u ^ 3 / (exp u - 1)) 0 ha
  rw [mul_zero, integral_bose] at h2
  have e2 : ∀ y ∈ Ioi (0:ℝ), A * y ^ 3 / (exp (a * y) - 1) = (A / a ^ 3) * ((a * y) ^ 3 / (exp (a * y) - 1)) := by
    intro y hy
    field_simp
  rw [setIntegral_congr_fun measurableSet_Ioi e2, integral_const_mul, h2, smul_eq_mul]
  field_simp

end Synphot.BlackBody
