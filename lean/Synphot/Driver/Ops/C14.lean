import Synphot.Driver.Json
import Synphot.Core.Specio

/-!
  Driver ops of C14 (FITS / ASCII I/O), K = ℚ.

  * `c14_unit`      validate_unit on a unit spec
  * `c14_write`     write_fits_spec → the stored file
  * `c14_read`      read_fits_spec on a stored file (or an unopenable one)
  * `c14_roundtrip` write, then read what was written
  * `c14_ascii`     read_ascii_spec on a list of lines

  `astro` is a JSON object: unit string ↦ astropy's generic string of the parsed unit, or null
  (ValueError); strings that are not keys count as unparsable.
-/

open Lean Synphot

namespace Synphot.Driver

def parseAstro (j : Json) : M Astro := do
  let a ← getField j "astro"
  pure (fun s => match a.getObjVal? s with
    | .ok (.str id) => some id
    | _ => none)

def parseUnitSpec (j : Json) : M UnitSpec :=
  match j with
  | .str "other" => pure .other
  | o =>
    match o.getObjVal? "str", o.getObjVal? "unit" with
    | .ok (.str s), _ => pure (.str s)
    | _, .ok (.str s) => pure (.unit s)
    | _, _ => .error "bad unit spec"

def parseOptUnitSpec (j : Json) (k : String) : M (Option UnitSpec) :=
  match fOpt j k with
  | none => pure none
  | some v => (parseUnitSpec v).map some

def parseDtype (s : String) : M Dtype :=
  match s with
  | "f4" => pure .f4 | "f8" => pure .f8 | "other" => pure .other
  | _ => .error s!"bad dtype {s}"

def dtypeStr : Dtype → String
  | .f4 => "f4" | .f8 => "f8" | .other => "other"

def parsePairs (j : Json) : M (List (String × String)) := do
  let l ← asArr j
  l.mapM (fun p => do
    match ← asArr p with
    | [k, v] => pure (← asStr k, ← asStr v)
    | _ => .error "expected [key, value]")

def jPairs (l : List (String × String)) : Json :=
  Json.arr (l.map (fun p => Json.arr #[Json.str p.1, Json.str p.2])).toArray

def jOptStr : Option String → Json
  | none => Json.null
  | some s => Json.str s

def parseOptStr (j : Json) (k : String) : M (Option String) :=
  match fOpt j k with
  | none => pure none
  | some v => (asStr v).map some

def parseWriteArgs (j : Json) : M (WriteArgs Rat) := do
  pure {
    filename := ← fStr j "filename"
    wave := ← fRats j "wave"
    flux := ← fRats j "flux"
    waveDtype := ← fStr j "wdt" >>= parseDtype
    fluxDtype := ← fStr j "fdt" >>= parseDtype
    waveSpec := ← getField j "wspec" >>= parseUnitSpec
    fluxSpec := ← getField j "fspec" >>= parseUnitSpec
    priHeader := ← getField j "pri" >>= parsePairs
    extHeader := ← getField j "ext" >>= parsePairs
    trimZero := ← fBool j "trim"
    padZeroEnds := ← fBool j "pad"
    precision := ← parseOptStr j "precision"
    epsilon := ← fRat j "eps"
    waveCol := ← fStr j "wcol"
    fluxCol := ← fStr j "fcol" }

def jColumn (c : Column Rat) : Json :=
  Json.mkObj [("name", Json.str c.name), ("tunit", jOptStr c.tunit), ("vals", jRats c.vals)]

def jHdu (h : TableHdu Rat) : Json :=
  Json.mkObj [("extname", Json.str h.extname), ("header", jPairs h.header),
              ("format", Json.str (dtypeStr h.format)), ("cols", Json.arr (h.cols.map jColumn).toArray)]

def jFile (f : FitsFile Rat) : Json :=
  Json.mkObj [("pri", jPairs f.pri), ("exts", Json.arr (f.exts.map jHdu).toArray)]

def parseColumn (j : Json) : M (Column Rat) := do
  pure { name := ← fStr j "name", tunit := ← parseOptStr j "tunit", vals := ← fRats j "vals" }

def parseHdu (j : Json) : M (TableHdu Rat) := do
  let cols ← fArr j "cols"
  pure { extname := ← fStr j "extname", header := ← getField j "header" >>= parsePairs,
         format := ← fStr j "format" >>= parseDtype, cols := ← cols.mapM parseColumn }

def parseFile (j : Json) : M (FitsFile Rat) := do
  let exts ← fArr j "exts"
  pure { pri := ← getField j "pri" >>= parsePairs, exts := ← exts.mapM parseHdu }

def parseExtSel (j : Json) : M ExtSel :=
  match j with
  | .str s => pure (.name s)
  | o => (asInt o).map ExtSel.idx

def jRead (r : ReadResult Rat) : Json :=
  Json.mkObj [("header", jPairs r.header), ("wunit", Json.str r.waveUnit), ("wave", jRats r.wave),
              ("funit", Json.str r.fluxUnit), ("flux", jRats r.flux)]

def parseAsciiLine (j : Json) : M (AsciiLine Rat) :=
  match j with
  | .str "c" => pure .comment
  | .str "b" => pure .blank
  | o => (asRats o).map AsciiLine.data

def dispatchC14M (op : String) (j : Json) : M Json := do
  let astro ← parseAstro j
  match op with
  | "c14_unit" => do
      let spec ← getField j "spec" >>= parseUnitSpec
      pure (outcome Json.str (validateUnit astro spec))
  | "c14_write" => do
      let a ← parseWriteArgs j
      pure (outcome jFile (writeFitsSpec astro a))
  | "c14_read" => do
      let file ← match fOpt j "file" with
        | none => pure none
        | some f => (parseFile f).map some
      let ext ← getField j "ext_sel" >>= parseExtSel
      let r := readFitsSpec astro (← fBool j "is_str") file ext (← fStr j "rwcol") (← fStr j "rfcol")
      pure (outcome jRead r)
  | "c14_roundtrip" => do
      let a ← parseWriteArgs j
      let w := writeFitsSpec astro a
      let rd : Json := match w with
        | .error _ => Json.null
        | .ok f => outcome jRead
            (readFitsSpec astro true (some f) (.idx 1) ((fStr j "rwcol").toOption.getD a.waveCol)
              ((fStr j "rfcol").toOption.getD a.fluxCol))
      pure (Json.mkObj [("write", outcome jFile w), ("read", rd)])
  | "c14_ascii" => do
      let file ← match fOpt j "lines" with
        | none => pure none
        | some l => do
            let ls ← asArr l
            (ls.mapM parseAsciiLine).map some
      let ws ← parseOptUnitSpec j "wspec"
      let fs ← parseOptUnitSpec j "fspec"
      let r := readAsciiSpec astro file ws fs
      pure (outcome (fun (p : String × List Rat × String × List Rat) =>
        Json.mkObj [("wunit", Json.str p.1), ("wave", jRats p.2.1), ("funit", Json.str p.2.2.1),
                    ("flux", jRats p.2.2.2)]) r)
  | _ => .error s!"unknown op {op}"

/-- ops of C14; `none`: not one of ours -/
def dispatchC14 (op : String) (j : Json) : Option (M Json) :=
  if op ∈ ["c14_unit", "c14_write", "c14_read", "c14_roundtrip", "c14_ascii"] then
    some (dispatchC14M op j) else none

end Synphot.Driver
