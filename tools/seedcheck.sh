#!/bin/bash
# tools/seedcheck.sh <Cxx> [more check ids...]
# Confirms a seeded change delivered in /tmp/seed_out/<Cxx> (patch.diff, demo.py, meta.json) against the scratch
# worktree /tmp/seed_<Cxx> (change applied there), runs ./check for the property (and any further ids given)
# against that worktree, and files the change under /verif/seeded/<Cxx>/ with what was run.
set -u
ID=$1; shift
# round 2: SEED_WT=/tmp/seed2_ SEED_OUT=/tmp/seed_out2 SEED_SUFFIX=b
WT=${SEED_WT:-/tmp/seed_}$ID; OUT=${SEED_OUT:-/tmp/seed_out}/$ID; DST=/verif/seeded/$ID${SEED_SUFFIX:-}
cd /verif
test -s $OUT/patch.diff || { echo "no patch"; exit 2; }
# the worktree is reset to exactly the delivered patch (git stash is shared between worktrees: never used here)
git -C $WT checkout -q -- . && git -C $WT checkout -q --detach $(git -C /repo rev-parse HEAD) && git -C $WT apply $OUT/patch.diff || { echo "patch does not apply"; exit 2; }
PYT=$(/venv/bin/python /verif/tools/seedtools/intree.py $WT pytest synphot 2>&1 | tail -1)
DEMO_BAD=$(/venv/bin/python /verif/tools/seedtools/intree.py $WT run $OUT/demo.py >/dev/null 2>&1; echo $?)
git -C $WT checkout -q -- .
DEMO_GOOD=$(/venv/bin/python /verif/tools/seedtools/intree.py $WT run $OUT/demo.py >/dev/null 2>&1; echo $?)
git -C $WT apply $OUT/patch.diff
echo "pytest on changed tree: $PYT"
echo "demo on changed tree exit=$DEMO_BAD (want != 0); on clean tree exit=$DEMO_GOOD (want 0)"
RES=""
for C in $ID "$@"; do
  L=$(SYNPHOT_REPO=$WT ./check $C ${CHECK_ARGS:-} 2>&1 | grep -v conda | grep -E "^C[0-9]+ tier|^VIOLATION" | head -4 | tr '\n' ';')
  echo "check $C on changed tree: $L"
  RES="$RES{\"check\":\"$C\",\"result\":\"$(echo $L | sed 's/"/\\"/g')\"},"
done
mkdir -p $DST
cp $OUT/patch.diff $OUT/demo.py $DST/
python3 - "$ID" "$PYT" "$DEMO_BAD" "$DEMO_GOOD" "[${RES%,}]" <<'PY'
import json,sys
pid,pyt,bad,good,res=sys.argv[1:6]
import os
m=json.load(open(os.environ.get('SEED_OUT','/tmp/seed_out')+'/%s/meta.json'%pid))
m['confirmed']={'pytest_on_changed_tree':pyt,'demo_exit_changed':int(bad),'demo_exit_clean':int(good),'checks_on_changed_tree':json.loads(res)}
json.dump(m,open('/verif/seeded/%s%s/meta.json'%(pid,os.environ.get('SEED_SUFFIX','')),'w'),indent=1)
PY
# leave /verif's generated tables as /repo defines them
./check $ID >/dev/null 2>&1
echo "filed under $DST"
