"""C16  Blackbody and thermal spectra obey Planck, Wien and Stefan-Boltzmann.

ops
  bb            SourceSpectrum(BlackBody1D | BlackBodyNorm1D, temperature=T)(w), .model.lambda_max,
                .integrate('analytical')                            -> model op "bb"
  thermal       ThermalSpectralElement(Empirical1D, T, fill, points, lookup_table).thermal_source()(w), then a
                history on the same element: assignments to temperature / beam_fill_factor interleaved with
                thermal_source() queries                            -> model op "thermal"
  thermal_file  ThermalSpectralElement.from_file(<scratch FITS>, temperature_key, beamfill_key) and its
                thermal source                                      -> model op "thermal_file"
  bb_laws       Wien peak and Stefan-Boltzmann integral on fine grids (oracle only, no model counterpart)
  constants     the package's constants against their definitions, incl. the Wien root (oracle only, once per run)

Tolerances: model comparison rtol 1e-9 everywhere (all generated points have h nu / kT <= 600, where
expm1 is well conditioned: its relative condition number is x e^x/(e^x-1) <= 601, so binary64 rounding of
the argument costs < 2e-13); closed-form oracle rtol 1e-9; Wien and Stefan-Boltzmann 1e-3.
"""
import math
import os
import shutil
import tempfile
from fractions import Fraction as F

from ..core import NP as np

from .. import core
from ..core import q, qs, guarded, same, unq

# ---- independent physical definitions (SI 2019 exact values), used by the oracle only
H_CGS = 6.62607015e-27           # erg s
C_AA = 2.99792458e18             # Angstrom / s
K_CGS = 1.380649e-16             # erg / K
HC_K = 6.62607015e-34 * 299792458.0 / 1.380649e-23      # h c / k_B   [m K]
R_SUN = 6.957e8                  # IAU 2015 nominal solar radius, m
AU = 149597870700.0              # m
KPC = 1000.0 * 648000.0 / math.pi * AU                  # IAU 2015 parsec
OMEGA = math.pi * (R_SUN / KPC) ** 2
SR_PER_ARCSEC2 = (math.pi / 648000.0) ** 2
SIGMA_CGS = 2 * math.pi ** 5 * K_CGS ** 4 / (15 * H_CGS ** 3 * (C_AA * 1e-8) ** 2)     # erg s-1 cm-2 K-4

XMAX = 600.0                     # h nu / kT above this is "underflow territory" (skipped)
TINY = 1e-300

# ---- spellings of quantity-valued inputs: name -> exact scale to the target unit (None: astropy cannot convert
# the unit to the target unit, the call must raise UnitConversionError).  Bare numbers come in the kinds below.
NUMKINDS = ['number', 'int', 'np.float64', 'np.int64', 'np.array0d']
INTKINDS = ('int', 'np.int64')
TFORMS = {'number': F(1), 'int': F(1), 'np.float64': F(1), 'np.int64': F(1), 'np.array0d': F(1),
          'K': F(1), 'mK': F(1, 1000), 'kK': F(1000), 'uK': F(1, 10 ** 6), 'MK': F(10 ** 6),
          'deg_C': None, 'm': None, 'eV': None, 'dimensionless': None}
FFORMS = {'number': F(1), 'int': F(1), 'np.float64': F(1), 'np.int64': F(1), 'np.array0d': F(1),
          '': F(1), 'one': F(1), 'percent': F(1, 100), 'Unit(0.5)': F(1, 2), 'cm/m': F(1, 100), 'cm/m:div': F(1, 100),
          'mm/m': F(1, 1000), 'm/cm': F(100), 'arcsec2/arcmin2': F(1, 3600), 'arcsec2/arcmin2:div': F(1, 3600),
          'm': None, 'rad': None, 'K': None, 'arcsec2': None}
RESERVED = ('XTENSION', 'BITPIX', 'NAXIS', 'PCOUNT', 'GCOUNT', 'TFIELDS', 'TTYPE', 'TFORM', 'TUNIT',
            'EXTNAME', 'EXTVER', 'SIMPLE', 'EXTEND', 'END', 'COMMENT', 'HISTORY', 'HIERARCH', 'CONTINUE',
            'TDISP', 'TNULL', 'TSCAL', 'TZERO', 'TDIM', 'THEAP', 'BLANK', 'BSCALE', 'BZERO', 'CHECKSUM',
            'DATASUM', 'EXTLEVEL', 'INHERIT', 'DATE', 'ORIGIN')


def wien_x0():
    """root of (x - 5) e^x + 5 = 0 (Newton)"""
    x = 5.0
    for _ in range(60):
        f = (x - 5) * math.exp(x) + 5
        x -= f / ((x - 4) * math.exp(x))
    return x


X0 = wien_x0()
B_WIEN = HC_K / X0               # m K


def fast_unit_errors():
    """`BaseSpectrum.__init__` compares an astropy unit with the strings 'wave', 'flux', 'noconv'; astropy parses
    each string, fails, and spends ~30 ms composing a "did you mean ...?" suggestion for an error message that
    `Unit.__eq__` then discards.  Replacing the suggestion helper by a constant changes the text of that
    discarded message only, and makes the public constructor ~40x faster (needed for the thorough budget)."""
    import astropy.units.format.base as fb
    fb.did_you_mean = lambda *a, **k: ''


def consts():
    """the constants the code under test uses, read from the running package"""
    from astropy import constants as const
    from synphot import units
    return {'h': q(const.h.cgs.value), 'c': q(const.c.to('AA/s').value), 'kB': q(const.k_B.cgs.value),
            'b_wien': q(const.b_wien.value), 'sigma_sb': q(const.sigma_sb.cgs.value),
            'r_sun': q(const.R_sun.value), 'kpc': q(const.kpc.value),
            'sr_per_arcsec2': q(float(units.SR_PER_ARCSEC2))}


def planck_photlam(lam, t):
    """Planck's B_lambda(T) as photons s-1 cm-2 A-1 sr-1, from the SI definitions"""
    return 2.0 * C_AA * 1e16 / lam ** 4 / math.expm1(H_CGS * C_AA / (lam * K_CGS * t))


def boltz_x(lam, t):
    return H_CGS * C_AA / (lam * K_CGS * t)


def temp_kelvin(case):
    """physical temperature in K of a case / step (None: the spelling is refused)"""
    sc = TFORMS[case['tform']]
    return None if sc is None else float(unq(case['tval'])) * float(sc)


def number_kind(v, kind):
    if kind == 'int':
        return int(v)
    if kind == 'np.int64':
        return np.int64(int(v))
    if kind == 'np.float64':
        return np.float64(v)
    if kind == 'np.array0d':
        return np.array(v)
    return v


def temp_arg(case):
    import astropy.units as u
    v = float(unq(case['tval']))
    form = case['tform']
    if form in NUMKINDS:
        return number_kind(v, form)
    if form == 'dimensionless':
        return u.Quantity(v)
    return v * u.Unit(form)


def fill_form(d):
    if 'fform' in d:
        return d['fform']
    return '' if d.get('fill_quantity') or d.get('quantity') else 'number'      # cases written before 'fform'


def fill_value(d):
    """physical beam filling factor of a case / step (None: refused)"""
    sc = FFORMS[fill_form(d)]
    return None if sc is None else float(unq(d['fill'])) * float(sc)


def fill_arg(d):
    """the beam filling factor as the caller spells it"""
    import astropy.units as u
    v = float(unq(d['fill']))
    form = fill_form(d)
    if form in NUMKINDS:
        return number_kind(v, form)
    if form == '':
        return v * u.dimensionless_unscaled
    if form == 'one':
        return u.Quantity(v)
    if form == 'Unit(0.5)':
        return v * u.Unit(0.5)
    if form.endswith(':div'):            # an unsimplified ratio of two like quantities
        a, b = form[:-4].split('/')
        return (2 * v * u.Unit(a)) / (2 * u.Unit(b))
    return v * u.Unit(form)


def qin(val, scale):
    """model spelling of a quantity-valued input"""
    if scale is None:
        return {'bad': val}
    return {'q': val, 'scale': q(scale)}


def temp_qin(d):
    return {'num': d['tval']} if d['tform'] in NUMKINDS else qin(d['tval'], TFORMS[d['tform']])


def fill_qin(d):
    form = fill_form(d)
    return {'num': d['fill']} if form in NUMKINDS else qin(d['fill'], FFORMS[form])


def floats(xs):
    return [float(unq(x)) for x in xs]


# ------------------------------------------------------------------ implementation calls
def bb_spec(case, tscale=1.0):
    from synphot import SourceSpectrum
    from synphot.models import BlackBody1D, BlackBodyNorm1D
    cls = BlackBodyNorm1D if case['kind'] == 'norm' else BlackBody1D
    t = temp_arg(case)
    return SourceSpectrum(cls, temperature=t if tscale == 1.0 else t * tscale)


def impl_bb(case):
    sp = bb_spec(case)
    w = floats(case['w'])
    out = {'sample': guarded(lambda: sp(w).value),
           'lambda_max': guarded(lambda: float(sp.model.lambda_max)),
           'integrate': guarded(lambda: sp.integrate(integration_type='analytical').value)}
    if case.get('hot') is not None:
        hot = bb_spec(case, float(unq(case['hot'])))
        out['sample_hot'] = guarded(lambda: hot(w).value)
    # NaN-free plain dict; 'integrate' travels as a bare number like in the model
    if 'ok' in out['integrate']:
        out['integrate'] = out['integrate']['ok']
    return out


def mk_thermal(case):
    import astropy.units as u
    from synphot.thermal import ThermalSpectralElement
    from synphot.models import Empirical1D
    return ThermalSpectralElement(Empirical1D, temp_arg(case), beam_fill_factor=fill_arg(case),
                                  points=floats(case['pts']), lookup_table=floats(case['vals']))


def query(th, w):
    """one `thermal_source()` query on the element as it is now: its attributes, the meta of the returned source
    and the source sampled at w"""
    def f():
        sp = th.thermal_source()
        return {'meta_temp': float(sp.meta['temperature'].to_value('K')),
                'meta_fill': float(sp.meta['beam_fill_factor']), 'sample': guarded(lambda: sp(w).value)}
    o = guarded(f)
    o = o['ok'] if 'ok' in o else {'sample': o}
    o['temp'] = float(th.temperature.to_value('K'))
    o['fill'] = float(th.beam_fill_factor)
    return o


def run_steps(th, w, steps):
    """the history on ONE element object: assignments to the attributes interleaved with queries"""
    import astropy.units as u
    hist, assign = [], []
    for st in steps:
        if st['act'] == 'query':
            hist.append(query(th, w))
            continue
        try:
            if st['act'] == 'set_T':
                th.temperature = temp_arg(st)
            else:
                th.beam_fill_factor = fill_arg(st)
            assign.append('ok')
        except Exception as e:  # noqa
            assign.append(core.exc_name(e))
    return hist, assign


def thermal_outcome(th, w, case):
    out = {'temp': float(th.temperature.to_value('K')), 'fill': float(th.beam_fill_factor),
           'emis': [float(x) for x in np.atleast_1d(th(w).value)]}
    if case.get('fresh_query', True):
        o = query(th, w)
        out.update({'sample': o['sample'], 'meta_temp': o.get('meta_temp'), 'meta_fill': o.get('meta_fill')})
    out['history'], out['assign'] = run_steps(th, w, case.get('steps', []))
    return out


def impl_thermal(case):
    w = floats(case['w'])
    try:
        import warnings
        with warnings.catch_warnings():
            warnings.simplefilter('ignore')
            th = mk_thermal(case)
            return thermal_outcome(th, w, case)
    except Exception as e:  # noqa
        return {'err': core.exc_name(e), 'msg': str(e)[:200]}


def fits_path(case):
    return os.path.join(case['dir'], case['fname'])


def write_fits(case):
    """the scratch thermal file of a case: WAVELENGTH (Angstrom) / EMISSIVITY columns in double precision,
    the numeric cards of case['cards'] in the table-extension header"""
    from astropy.io import fits

    def table(d):
        cols = [fits.Column(name='WAVELENGTH', format='D', unit='angstrom', array=np.array(floats(d['pts']))),
                fits.Column(name='EMISSIVITY', format='D', array=np.array(floats(d['vals'])))]
        t = fits.BinTableHDU.from_columns(cols)
        for k, v, isint in d['cards']:
            t.header[k] = int(unq(v)) if isint else float(unq(v))
        return t
    # the extension the case describes sits at index target_ext(case); the other table extensions (same
    # keywords, other temperatures / beam filling factors / emissivity tables) are distractors
    others = list(case.get('other_exts', []))
    hdus = [fits.PrimaryHDU()]
    for i in range(1, len(others) + 2):
        hdus.append(table(case) if i == target_ext(case) else table(others.pop(0)))
    fits.HDUList(hdus).writeto(fits_path(case), overwrite=True)


def target_ext(case):
    """index of the table extension the case describes (`ext=` argument; 1 when the caller does not pass it)"""
    return case.get('ext_arg') or 1


def stored_cards(case):
    """numeric, non-structural cards as the file really holds them (the model's header)"""
    from astropy.io import fits
    hdr = fits.getheader(fits_path(case), ext=target_ext(case))
    out = []
    for k in hdr:
        v = hdr[k]
        if any(k.startswith(r) for r in RESERVED) or isinstance(v, (bool, str)) or not isinstance(v, (int, float)):
            continue
        out.append([k, q(v)])
    return out


def prepare(case):
    """write the scratch file (if the case names a FITS file) and record what it holds"""
    if case['op'] != 'thermal_file':
        return case
    c = dict(case)
    if c['is_fits']:
        write_fits(c)
        c['hdr'] = stored_cards(c)
    else:
        with open(fits_path(c), 'w') as f:
            f.write('# not a FITS file\n')
        c['hdr'] = [[k, v] for k, v, _ in c['cards']]
    return c


def impl_thermal_file(case):
    from synphot.thermal import ThermalSpectralElement
    w = floats(case['w'])
    kw = {}
    if case['tkey_arg'] is not None:
        kw['temperature_key'] = case['tkey_arg']
    if case['bkey_arg'] is not None:
        kw['beamfill_key'] = case['bkey_arg']
    if case.get('ext_arg') is not None:
        kw['ext'] = case['ext_arg']

    def f():
        th = ThermalSpectralElement.from_file(fits_path(case), **kw)
        o = thermal_outcome(th, w, case)
        # the table the element was built from (ascending, as Empirical1D stores it)
        o['table'] = [[float(x) for x in np.ravel(th.model.points[0])], [float(y) for y in np.ravel(th.model.lookup_table)]]
        return o
    try:
        return guarded(f)
    finally:
        try:
            os.remove(fits_path(case))
        except OSError:
            pass


def impl_laws(case):
    """Wien peak of the energy density and Stefan-Boltzmann integral, from samples of the implementation"""
    sp = bb_spec(case)
    t = temp_kelvin(case)
    scale = OMEGA if case['kind'] == 'norm' else 1.0

    def f():
        lmax = float(sp.model.lambda_max)
        n = case['ngrid']
        wg = lmax * (1 + 0.1 * (np.arange(2 * n + 1) - n) / n)
        e = sp(wg).value / wg                         # energy density up to the constant h c
        i = int(np.argmax(e))
        # Stefan-Boltzmann: x = hc/(lambda k T) from 60 down to 0.004 on a log grid
        x = np.logspace(math.log10(60.0), math.log10(0.004), case['nint'])
        wl = (HC_K * 1e10 / t) / x
        flam = sp(wl).value * (H_CGS * C_AA) / wl     # erg s-1 cm-2 A-1 (sr-1)
        integ = float(np.trapezoid(flam, wl))
        ana = float(sp.integrate(integration_type='analytical').value)
        return {'wien_ratio': float(wg[i] / lmax), 'edge': i in (0, 2 * n), 'sb_ratio': integ / ana,
                'lambda_max': lmax, 'analytic': ana}
    return guarded(f)


def impl_constants(case):
    """the constants of the running package (values the theorems treat as parameters)"""
    def f():
        from astropy import constants as const
        from synphot import units
        from synphot.models import BlackBodyNorm1D
        return {'h': const.h.cgs.value, 'c': const.c.to('AA/s').value, 'kB': const.k_B.cgs.value,
                'b_wien': const.b_wien.value, 'sigma_sb': const.sigma_sb.cgs.value,
                'omega': float(BlackBodyNorm1D(temperature=5000)._omega),
                'sr_per_arcsec2': float(units.SR_PER_ARCSEC2)}
    return guarded(f)


def impl_call(case):
    op = case['op']
    if op == 'constants':
        return impl_constants(case)
    if op == 'bb':
        try:
            return impl_bb(case)
        except Exception as e:  # noqa
            return {'err': core.exc_name(e), 'msg': str(e)[:200]}
    if op == 'thermal':
        return impl_thermal(case)
    if op == 'thermal_file':
        return impl_thermal_file(case)
    if op == 'bb_laws':
        return impl_laws(case)
    raise KeyError(op)


# ------------------------------------------------------------------ model lines
def model_case(case):
    op = case['op']
    K = case['_const']
    if op == 'bb':
        return {'op': 'bb', 'const': K, 'kind': case['kind'], 'tq': temp_qin(case), 'w': case['w']}
    if op == 'thermal':
        return {'op': 'thermal', 'const': K, 'tq': temp_qin(case), 'fq': fill_qin(case), 'pts': case['pts'], 'vals': case['vals'], 'w': case['w'],
                'steps': model_steps(case)}
    if op == 'thermal_file':
        return {'op': 'thermal_file', 'const': K, 'is_fits': case['is_fits'], 'hdr': case['hdr'],
                'tkey': case['tkey_arg'] if case['tkey_arg'] is not None else 'DEFT',
                'bkey': case['bkey_arg'] if case['bkey_arg'] is not None else 'BEAMFILL',
                'pts': case['pts'], 'vals': case['vals'], 'w': case['w'], 'steps': model_steps(case)}
    return None


def model_steps(case):
    out = []
    for st in case.get('steps', []):
        if st['act'] == 'set_T':
            out.append({'act': 'set_T', 'tq': temp_qin(st)})
        elif st['act'] == 'set_fill':
            out.append({'act': 'set_fill', 'fq': fill_qin(st)})
        else:
            out.append({'act': 'query'})
    return out


def compare(case, o, m):
    if case['op'] in ('bb', 'thermal') and isinstance(m, dict) and 'ok' in m:
        m = m['ok']          # the model wraps the constructed object's results in "ok" (construction may raise)
        if 'err' in o:
            return 'impl %s vs model ok' % core._short(o)
    if case['op'] == 'bb' and case['class'] in ('T<0', 'T=0') and isinstance(m, dict):
        # `BaseSpectrum.integrate` first validates the model's default sampling set, which does not exist for
        # T <= 0 (outside the property's domain); only sampling and lambda_max are compared there
        m = {k: v for k, v in m.items() if k != 'integrate'}
    if case['op'] in ('thermal', 'thermal_file') and not case.get('fresh_query', True):
        # no query was made on the fresh element: the model's value for it has no counterpart
        if 'ok' in m and case['op'] == 'thermal_file':
            m = {'ok': {k: v for k, v in m['ok'].items() if k != 'sample'}}
        elif 'err' not in m:
            m = {k: v for k, v in m.items() if k != 'sample'}
    return same(o, m, rtol=1e-9)


# ------------------------------------------------------------------ property oracle (implementation alone)
def in_domain(case):
    """the property's own domain: T > 0 and valid wavelengths away from underflow"""
    return case.get('class', 'plain') == 'plain'


def rel(a, b):
    return abs(a - b) <= 1e-9 * abs(b)


def oracle_bb(rep, case, out):
    if not in_domain(case):
        return
    kind = case['kind']
    if 'err' in out:
        rep.oracle_fail('bb:%s:construct:%s' % (kind, out['err']), 'constructing / sampling raised %s' % out, case, out)
        return
    t = temp_kelvin(case)
    w = floats(case['w'])
    scale = OMEGA if kind == 'norm' else 1.0
    s = out['sample']
    if 'err' in s:
        rep.oracle_fail('bb:%s:sample:%s' % (kind, s['err']), 'valid sampling raised %s' % s, case, out)
        return
    hot = out.get('sample_hot')
    for i, (lam, v) in enumerate(zip(w, s['ok'])):
        expect = planck_photlam(lam, t) * scale
        if boltz_x(lam, t) > XMAX or expect < TINY:
            continue
        if not rel(v, expect):
            rep.oracle_fail('bb:%s:planck-closed-form:value-differs' % kind,
                            'sample %d at %r A, T=%r K: got %r, Planck photon radiance is %r' % (i, lam, t, v, expect),
                            case, out)
            return
        if not v > 0:
            rep.oracle_fail('bb:%s:positivity:nonpositive' % kind, 'sample %d: %r is not positive' % (i, v), case, out)
            return
        if hot is not None:
            if 'err' in hot:
                rep.oracle_fail('bb:%s:hotter:%s' % (kind, hot['err']), 'hotter black body raised %s' % hot, case, out)
                return
            if not hot['ok'][i] > v:
                rep.oracle_fail('bb:%s:monotone-in-T:not-increasing' % kind,
                                'sample %d at %r A: T=%r gives %r, T x %r gives %r' % (
                                    i, lam, t, v, float(unq(case['hot'])), hot['ok'][i]), case, out)
                return
    lm = out['lambda_max']
    if 'err' in lm or not rel(lm['ok'], B_WIEN / t * 1e10):
        rep.oracle_fail('bb:%s:lambda_max:not-b_wien/T' % kind,
                        'lambda_max %r, Wien displacement gives %r A' % (lm, B_WIEN / t * 1e10), case, out)
    ig = out['integrate']
    exp_ig = SIGMA_CGS * t ** 4 / math.pi * scale
    if isinstance(ig, dict) or not rel(ig, exp_ig):
        rep.oracle_fail('bb:%s:integrate:not-sigmaT4/pi' % kind,
                        'analytic integral %r, sigma T^4/pi%s is %r' % (ig, ' x Omega' if kind == 'norm' else '', exp_ig),
                        case, out)


def check_product(rep, case, out, s, emis, t, fill, sig, what):
    """thermal source = B(T) x sr/arcsec^2 x fill x emissivity at every wavelength"""
    w = floats(case['w'])
    if 'err' in s:
        rep.oracle_fail('%s:sample:%s' % (sig, s['err']), '%s: sampling the thermal source raised %s' % (what, s), case, out)
        return
    for i, (lam, v, em) in enumerate(zip(w, s['ok'], emis)):
        expect = planck_photlam(lam, t) * SR_PER_ARCSEC2 * fill * em
        if boltz_x(lam, t) > XMAX or (expect != 0 and abs(expect) < TINY):
            continue
        if not rel(v, expect):
            rep.oracle_fail('%s:pointwise-product:value-differs' % sig,
                            '%s: sample %d at %r A: thermal source %r, B(T=%r) x sr/arcsec2 x fill(%r) x emissivity = %r '
                            '(ratio %r)' % (what, i, lam, v, t, fill, expect, v / expect if expect else None), case, out)
            return


def check_query(rep, case, out, qo, emis, t, fill, tag, label, what, forms=('?', '?')):
    """one query against the element's CURRENT attributes (t, fill): attributes as assigned, meta of the
    returned source, pointwise product"""
    sig = '%s:%s' % (tag, label)
    if not rel(qo['temp'], t) or not rel(qo['fill'], fill):
        which = 'T as %s' % forms[0] if not rel(qo['temp'], t) else 'fill as %s' % forms[1]
        rep.oracle_fail('%s:attributes:%s:not-the-physical-value' % (sig, which),
                        '%s: element has T=%r K, fill=%r; the values assigned (T as %s, fill as %s) are T=%r K, fill=%r' % (
                            what, qo['temp'], qo['fill'], forms[0], forms[1], t, fill), case, out)
        return
    if 'meta_temp' in qo and qo['meta_temp'] is not None and (qo['meta_temp'] != qo['temp'] or qo['meta_fill'] != qo['fill']):
        rep.oracle_fail('%s:meta:not-current' % sig,
                        '%s: source meta T=%r fill=%r, element T=%r fill=%r' % (
                            what, qo['meta_temp'], qo['meta_fill'], qo['temp'], qo['fill']), case, out)
    check_product(rep, case, out, qo['sample'], emis, t, fill, sig, what)


MUST_REFUSE_T = ('m', 'eV', 'dimensionless')       # deg_C: a temperature; its refusal is the code's choice (model only)


def check_history(rep, case, out, o, t, fill, tag, forms=('number', 'number')):
    """replay the case's history: after every query the source must be the product for the attribute values
    assigned last (the element as it is when asked), whatever was assigned or asked before; an assignment in an
    inconvertible unit must raise and leave the element as it was"""
    since, asked = set(), False
    forms = list(forms)
    if case.get('fresh_query', True):
        check_query(rep, case, out, {k: o.get(k) for k in ('temp', 'fill', 'meta_temp', 'meta_fill', 'sample')},
                    o['emis'], t, fill, tag, 'fresh', 'query 0 (fresh element)', forms)
        asked = True
    hist = list(o.get('history', []))
    assign = list(o.get('assign', []))
    nq = na = 0
    for k, st in enumerate(case.get('steps', [])):
        if st['act'] == 'query':
            if nq >= len(hist):
                rep.oracle_fail('%s:history:missing-result' % tag, 'query at step %d has no result' % k, case, out)
                return
            label = ('after-' + '+'.join(sorted(since))) if since else ('repeat' if asked else 'fresh')
            check_query(rep, case, out, hist[nq], o['emis'], t, fill, tag, 'history:' + label,
                        'step %d (query %s)' % (k, label), forms)
            nq += 1
            since, asked = set(), True
            continue
        res = assign[na] if na < len(assign) else 'missing'
        na += 1
        if st['act'] == 'set_T':
            new, form, must = temp_kelvin(st), st['tform'], st['tform'] in MUST_REFUSE_T
        else:
            new, form, must = fill_value(st), fill_form(st), True
        if new is None:
            if must and res == 'ok':
                rep.oracle_fail('%s:history:%s as %s:not-refused' % (tag, st['act'], form),
                                'step %d: assigning a value in %s was accepted' % (k, form), case, out)
                return
            since.add(st['act'] + '-refused')
            continue
        if res != 'ok':
            rep.oracle_fail('%s:history:%s as %s:%s' % (tag, st['act'], form, res),
                            'step %d: a valid assignment raised %s' % (k, res), case, out)
            return
        if st['act'] == 'set_T':
            t, forms[0] = new, form
        else:
            fill, forms[1] = new, form
        since.add(st['act'])


def oracle_thermal(rep, case, out):
    t = temp_kelvin(case)
    fill = fill_value(case)
    fform = fill_form(case)
    if t is None or fill is None:
        # an argument in a unit that cannot be converted must be refused (deg_C: the code's choice, model only)
        must = fill is None or case['tform'] in MUST_REFUSE_T
        if must and out.get('err') != 'UnitError':
            rep.oracle_fail('thermal:construct:%s:not-refused' % (
                'fill as ' + fform if fill is None else 'T as ' + case['tform']),
                'an argument in an inconvertible unit was not refused with a unit error: %s' % core._short(out), case, out)
        return
    if 'err' in out:
        rep.oracle_fail('thermal:construct:%s' % out['err'], 'valid thermal element (T as %s, fill as %s) raised %s' % (
            case['tform'], fform, out), case, out)
        return
    if not rel(out['temp'], t):
        rep.oracle_fail('thermal:temperature:%s:not-converted' % case['tform'],
                        'temperature %r K for input %r %s' % (out['temp'], float(unq(case['tval'])), case['tform']), case, out)
    if not rel(out['fill'], fill):
        rep.oracle_fail('thermal:beam_fill_factor:fill as %s:not-the-physical-value' % fform,
                        'beam_fill_factor %r for input %r %s (= %r)' % (out['fill'], float(unq(case['fill'])), fform, fill),
                        case, out)
    check_history(rep, case, out, out, t, fill, 'thermal', (case['tform'], fform))


def caller_key(case, which):
    arg = case[which + 'key_arg']
    return (arg if arg is not None else {'t': 'DEFT', 'b': 'BEAMFILL'}[which]).upper()


def oracle_thermal_file(rep, case, out):
    hdr = {k: float(unq(v)) for k, v in case['hdr']}
    tk, bk = caller_key(case, 't'), caller_key(case, 'b')
    if not case['is_fits'] or tk not in hdr:
        if out.get('err') != 'SynphotError':
            rep.oracle_fail('from_file:%s:%s' % ('not-fits' if not case['is_fits'] else 'temperature-key-missing',
                                                 out.get('err', 'returned')),
                            'expected SynphotError, got %s' % core._short(out), case, out)
        return
    if 'err' in out:
        rep.oracle_fail('from_file:valid:%s' % out['err'], 'loading a valid thermal file raised %s' % out, case, out)
        return
    o = out['ok']
    ext = 'ext=%s of %d' % (case.get('ext_arg', None) if case.get('ext_arg') is not None else 'default',
                            len(case.get('other_exts', [])) + 1)
    # the emissivity table is the one of the table extension the caller names
    pts, vals = floats(case['pts']), [max(v, 0.0) for v in floats(case['vals'])]
    if pts[-1] < pts[0]:
        pts, vals = pts[::-1], vals[::-1]
    if 'table' in o and (o['table'][0] != pts or o['table'][1] != vals):
        rep.oracle_fail('from_file:ext-%s:emissivity-table:not-the-named-extension' % (
            'default' if case.get('ext_arg') is None else 'named'),
            '%s: the element\'s table %s is not the WAVELENGTH/EMISSIVITY table of that extension %s' % (
                ext, core._short(o['table']), core._short([pts, vals])), case, out)
    if o['temp'] != hdr[tk]:
        rep.oracle_fail('from_file:temperature_key%s:not-honoured' % ('' if tk == 'DEFT' else '-not-DEFT'),
                        '%s: temperature %r, keyword %s holds %r there' % (ext, o['temp'], tk, hdr[tk]), case, out)
    want = hdr.get(bk, 1.0)
    if o['fill'] != want:
        observed = 'reads-BEAMFILL' if o['fill'] == hdr.get('BEAMFILL', 1.0) else 'other-value'
        rep.oracle_fail('from_file:beamfill_key%s:%s' % ('' if bk == 'BEAMFILL' else '-not-BEAMFILL', observed),
                        'beam_fill_factor %r, keyword %s %s (BEAMFILL card: %s)' % (
                            o['fill'], bk, 'holds %r' % hdr[bk] if bk in hdr else 'is absent so 1 is expected',
                            hdr.get('BEAMFILL', 'absent')), case, out)
    # the loaded element's thermal source is the pointwise product with what was loaded, and follows later
    # assignments
    check_history(rep, case, out, o, o['temp'], o['fill'], 'from_file')


def oracle_laws(rep, case, out):
    kind = case['kind']
    if 'err' in out:
        rep.oracle_fail('bb_laws:%s:%s' % (kind, out['err']), 'fine-grid sampling raised %s' % out, case, out)
        return
    o = out['ok']
    if o['edge'] or abs(o['wien_ratio'] - 1) > 1e-3:
        rep.oracle_fail('bb_laws:%s:wien:peak-not-at-lambda_max' % kind,
                        'energy density peaks at %r x lambda_max (lambda_max = %r A)' % (o['wien_ratio'], o['lambda_max']),
                        case, out)
    if abs(o['sb_ratio'] - 1) > 1e-3:
        rep.oracle_fail('bb_laws:%s:stefan-boltzmann:integral-differs' % kind,
                        'trapezoid of the energy density / analytic integral = %r (analytic %r)' % (
                            o['sb_ratio'], o['analytic']), case, out)


def oracle_constants(rep, case, out):
    """the numerical identities the Lean theorems leave to the constants: x0 = hc/(k b_wien) solves (x-5)e^x+5 = 0
    (`lambda_max_stationary_iff`), sigma = 2 pi^5 k^4/(15 h^3 c^2), Omega = pi (R_sun/kpc)^2, sr/arcsec^2"""
    if 'err' in out:
        rep.oracle_fail('constants:%s' % out['err'], 'reading the constants raised %s' % out, case, out)
        return
    o = out['ok']
    x = o['h'] * o['c'] / (o['kB'] * o['b_wien'] * 1e10)
    checks = [('h', o['h'], H_CGS), ('c', o['c'], C_AA), ('kB', o['kB'], K_CGS), ('wien-root', x, X0),
              ('b_wien', o['b_wien'], B_WIEN), ('sigma_sb', o['sigma_sb'], SIGMA_CGS), ('omega', o['omega'], OMEGA),
              ('sr_per_arcsec2', o['sr_per_arcsec2'], SR_PER_ARCSEC2)]
    for name, got, want in checks:
        if not rel(got, want):
            rep.oracle_fail('constants:%s:differs-from-definition' % name, '%s = %r, definition gives %r' % (name, got, want),
                            case, out)
    if abs((x - 5) * math.exp(x) + 5) > 1e-6:
        rep.oracle_fail('constants:wien-root:residual', '(x-5)e^x+5 = %r at x = hc/(k b_wien) = %r' % (
            (x - 5) * math.exp(x) + 5, x), case, out)


def oracle(rep, case, out):
    {'constants': oracle_constants, 'bb': oracle_bb, 'thermal': oracle_thermal, 'thermal_file': oracle_thermal_file,
     'bb_laws': oracle_laws}[case['op']](rep, case, out)


# ------------------------------------------------------------------ generators
T_GOOD = ['number', 'number', 'int', 'np.float64', 'np.int64', 'np.array0d', 'K', 'K', 'mK', 'mK', 'kK', 'uK', 'MK']
T_BAD = [k for k, v in TFORMS.items() if v is None]
F_GOOD = ['number', 'number', 'int', 'np.float64', 'np.int64', 'np.array0d', '', '', 'one', 'percent', 'percent',
          'Unit(0.5)', 'cm/m', 'cm/m:div', 'mm/m', 'm/cm', 'arcsec2/arcmin2', 'arcsec2/arcmin2:div']
F_BAD = [k for k, v in FFORMS.items() if v is None]


def gen_temp(rng, allow_bad=False):
    """T in 3..1e6 K in any spelling: a number (float, int, NumPy scalar, 0-d array) or a Quantity in K, mK, kK,
    uK, MK; with allow_bad, ~4% in a unit astropy cannot convert to K"""
    t = 10 ** rng.uniform(math.log10(3.0), 6.0)
    if rng.random() < 0.1:
        t = float(rng.choice([3, 10, 100, 300, 5000, 5778, 10000, 1000000]))
    if allow_bad and rng.random() < 0.04:
        return t, rng.choice(T_BAD)
    tform = rng.choice(T_GOOD)
    if tform in INTKINDS:
        t = float(max(3, round(t)))
    tval = t / float(TFORMS[tform])
    return tval, tform


def gen_waves(rng, t, n, lo=10.0, hi=1e8):
    """n distinct wavelengths in [lo, hi] A with h nu / kT <= XMAX, ascending or descending"""
    lmin = max(lo, HC_K * 1e10 / (XMAX * t) * 1.001)
    w = sorted({10 ** rng.uniform(math.log10(lmin), math.log10(hi)) for _ in range(n)})
    if rng.random() < 0.3:
        w = w[::-1]
    return w


def gen_bb(rng, K, nmax):
    tval, tform = gen_temp(rng, True)
    case = {'op': 'bb', 'kind': rng.choice(['plain', 'norm']), 'tval': q(tval), 'tform': tform, '_const': K,
            'class': 'plain'}
    t = temp_kelvin(case)
    if t is None:               # a temperature in a unit that cannot be converted to K: refused at construction
        case['class'] = 'T-refused'
        case['w'] = qs(gen_waves(rng, 300.0, rng.randint(1, nmax)))
        return case
    w = gen_waves(rng, t, rng.randint(1, nmax))
    r = rng.random()
    if r < 0.012:
        case['class'] = 'bad-wavelengths'
        bad = rng.choice(['zero', 'neg', 'dup', 'unsorted'])
        if bad == 'zero':
            w = sorted(w + [0.0])
        elif bad == 'neg':
            w = sorted(w + [-w[0]])
        elif bad == 'dup':
            w = sorted(w + [w[0]])
        else:
            w = sorted(gen_waves(rng, t, 3))
            w = [w[1], w[0], w[2]] if len(w) == 3 else [0.0]
    elif r < 0.02:
        case['class'] = 'T<0'
        case['tval'] = q(-tval)
    elif r < 0.026:
        case['class'] = 'T=0'
        case['tval'] = q(0.0)
    case['w'] = qs(w)
    if case['class'] == 'plain' and rng.random() < 0.5:
        case['hot'] = q(1 + 10 ** rng.uniform(-6, 0.5))
    return case


def gen_table(rng, nmax):
    """emissivity table: positive ascending (or descending) wavelengths, values mostly in [0, 1]; some
    tapered (zero ends), some with negative entries (which the constructor clips to zero)"""
    n = rng.randint(2, nmax)
    lo = 10 ** rng.uniform(1.5, 6)
    pts = [lo]
    for _ in range(n - 1):
        pts.append(pts[-1] * (1 + 10 ** rng.uniform(-3, 0)))
    vals = [rng.choice([rng.random(), rng.random(), round(rng.random(), 2), 0.0, 1.0]) for _ in pts]
    if rng.random() < 0.25:
        vals[0] = vals[-1] = 0.0
    if rng.random() < 0.1:
        vals[rng.randrange(n)] = -rng.random()
    if rng.random() < 0.25:
        pts, vals = pts[::-1], vals[::-1]
    return pts, vals


def gen_table_waves(rng, t, pts, n):
    """sampling wavelengths around a table: inside, on knots, beyond both ends"""
    lmin = HC_K * 1e10 / (XMAX * t) * 1.001
    a, b = min(pts), max(pts)
    pool = set()
    for _ in range(n):
        r = rng.random()
        if r < 0.55:
            x = rng.uniform(a, b)
        elif r < 0.75:
            x = rng.choice(pts)
        elif r < 0.88:
            x = b * (1 + 10 ** rng.uniform(-3, 1))
        else:
            x = a / (1 + 10 ** rng.uniform(-3, 1))
        if x > lmin and x > 0:
            pool.add(x)
    if not pool:
        pool = set(gen_waves(rng, t, 2, lo=max(lmin, 1.0), hi=max(1e8, 10 * lmin)))
    w = sorted(pool)
    return w[::-1] if rng.random() < 0.2 else w


def gen_fill(rng):
    """a beam filling factor in any spelling: (value in the unit, spelling).  Numbers of several kinds, unscaled
    dimensionless Quantities, and dimensionless-but-scaled units (percent, Unit(0.5), cm/m, arcsec2/arcmin2, also as
    unsimplified ratios of two Quantities); ~4% in a unit that is not dimensionless (must be refused)"""
    f = rng.choice([1.0, 0.5, round(rng.uniform(0.001, 1.0), 4), rng.uniform(0.001, 2.0), 2.0])
    if rng.random() < 0.04:
        return f, rng.choice(F_BAD)
    form = rng.choice(F_GOOD)
    if form in INTKINDS:
        f = float(rng.choice([1, 2]))
    return f / float(FFORMS[form]), form


def gen_steps(rng, nmax):
    """a short history on one element: queries interleaved with assignments; ends with a query"""
    steps = []
    for _ in range(rng.randint(1, nmax)):
        r = rng.random()
        if r < 0.45:
            steps.append({'act': 'query'})
        elif r < 0.7:
            tval, tform = gen_temp(rng, True)
            steps.append({'act': 'set_T', 'tval': q(tval), 'tform': tform})
        else:
            fv, fform = gen_fill(rng)
            steps.append({'act': 'set_fill', 'fill': q(fv), 'fform': fform})
    if steps[-1]['act'] != 'query':
        steps.append({'act': 'query'})
    return steps


def steps_tmin(steps, t):
    ts = [temp_kelvin(st) for st in steps if st['act'] == 'set_T']
    return min([x for x in [t] + ts if x is not None] or [300.0])


def gen_thermal(rng, K, nmax):
    tval, tform = gen_temp(rng, True)
    case = {'op': 'thermal', 'tval': q(tval), 'tform': tform, '_const': K}
    case['steps'] = gen_steps(rng, 6) if rng.random() < 0.8 else []
    case['fresh_query'] = rng.random() < 0.75
    t = steps_tmin(case['steps'], temp_kelvin(case))
    pts, vals = gen_table(rng, nmax)
    fv, fform = gen_fill(rng)
    case.update({'pts': qs(pts), 'vals': qs(vals), 'fill': q(fv), 'fform': fform,
                 'w': qs(gen_table_waves(rng, t, pts, rng.randint(1, 8)))})
    return case


KEYCHARS = 'ABCDEFGHIJKLMNOPQRSTUVWXYZ0123456789_-'


def gen_key(rng, avoid):
    while True:
        k = rng.choice(KEYCHARS[:26]) + ''.join(rng.choice(KEYCHARS) for _ in range(rng.randint(1, 7)))
        if k not in avoid and not any(k.startswith(r) for r in RESERVED):
            return k


def recase(rng, k):
    r = rng.random()
    return k if r < 0.6 else k.lower() if r < 0.8 else ''.join(ch.lower() if rng.random() < 0.5 else ch for ch in k)


def gen_file(rng, K, nmax, scratch, idx):
    """a thermal FITS file whose table header carries the temperature / beam filling factor under the default
    or under caller-named keywords (with cards of other values under the default names as distractors)"""
    t = round(10 ** rng.uniform(math.log10(3.0), 6.0), rng.choice([0, 1, 3]))
    t = max(t, 3.0)
    pts, vals = gen_table(rng, nmax)
    fill = round(rng.uniform(0.001, 1.5), rng.choice([1, 2, 4]))
    if rng.random() < 0.1:      # whole-numbered factors, zero included (an empty beam), as float or integer cards
        fill = float(rng.choice([0, 0, 1, 2]))
    fill_int = fill == int(fill) and rng.random() < 0.5
    cards = []
    tkey_arg = bkey_arg = None
    mode_t = rng.choice(['default', 'named', 'named', 'missing'] if rng.random() < 0.2 else ['default', 'named', 'named'])
    mode_b = rng.choice(['default', 'named', 'named', 'named-absent', 'default-absent'])
    used = {'DEFT', 'BEAMFILL'}
    if mode_t == 'default':
        cards.append(['DEFT', q(t), t == int(t) and rng.random() < 0.5])
        if rng.random() < 0.5:
            tkey_arg = recase(rng, 'DEFT')
    elif mode_t == 'named':
        k = gen_key(rng, used)
        used.add(k)
        cards.append([k, q(t), t == int(t) and rng.random() < 0.5])
        tkey_arg = recase(rng, k)
        if rng.random() < 0.6:          # a DEFT card of another temperature is also present
            cards.append(['DEFT', q(round(t * rng.uniform(1.1, 3.0), 2)), False])
    else:
        tkey_arg = rng.choice([None, gen_key(rng, used)])
        if tkey_arg is not None and rng.random() < 0.5:
            cards.append(['DEFT', q(t), False])
    if mode_b == 'default':
        cards.append(['BEAMFILL', q(fill), fill_int])
        if rng.random() < 0.5:
            bkey_arg = recase(rng, 'BEAMFILL')
    elif mode_b == 'named':
        k = gen_key(rng, used)
        used.add(k)
        cards.append([k, q(fill), fill_int])
        bkey_arg = recase(rng, k)
        if rng.random() < 0.6:          # a BEAMFILL card of another value is also present
            cards.append(['BEAMFILL', q(round(fill * rng.uniform(1.2, 3.0) + 0.01, 3)), False])
    elif mode_b == 'named-absent':      # caller names a keyword the file does not have: 1 by the docstring
        bkey_arg = recase(rng, gen_key(rng, used))
        if rng.random() < 0.6:
            cards.append(['BEAMFILL', q(fill), fill_int])
    # 'default-absent': no card, no argument -> 1
    rng.shuffle(cards)
    is_fits = rng.random() > 0.03
    case = {'op': 'thermal_file', '_const': K, 'dir': scratch,
            'fname': 'th_%06d.%s' % (idx, 'fits' if is_fits else rng.choice(['txt', 'dat'])),
            'is_fits': is_fits, 'cards': cards, 'tkey_arg': tkey_arg, 'bkey_arg': bkey_arg,
            'mode': 't:%s b:%s' % (mode_t, mode_b), 'pts': qs(pts), 'vals': qs(vals)}
    # temperature the source will have if loading succeeds (for choosing wavelengths away from underflow):
    # the coldest card, to stay clear of underflow whichever card is read
    # further table extensions: the same keywords with other values and another emissivity table.  ext_arg None:
    # the caller does not pass `ext` (extension 1, distractors after it); 2 / 3: distractors before (and after) it
    temps = []
    if is_fits and rng.random() < 0.55:
        n_other = rng.choice([1, 1, 2])
        others = []
        for _ in range(n_other):
            oc = []
            for k, v, isint in cards:
                x = float(unq(v))
                if x >= 3.0:                      # a temperature card
                    nx = max(3.0, round(x * rng.uniform(0.4, 2.5), 1))
                    temps.append(nx)
                else:
                    nx = round(x * rng.uniform(1.3, 3.0) + 0.01, 3)
                oc.append([k, q(nx), False])
            if rng.random() < 0.25 and oc:        # or lacking one of the cards
                oc.pop(rng.randrange(len(oc)))
            opts, ovals = gen_table(rng, nmax)
            others.append({'cards': oc, 'pts': qs(opts), 'vals': qs(ovals)})
        case['other_exts'] = others
        case['ext_arg'] = rng.choice([None, 1] + list(range(2, n_other + 2)) * 2)
        case['ext_mode'] = 'ext=%s of %d' % (case['ext_arg'] or 'default', n_other + 1)
    case['steps'] = gen_steps(rng, 5) if rng.random() < 0.6 else []
    case['fresh_query'] = rng.random() < 0.75
    tmin = steps_tmin(case['steps'], min([float(unq(v)) for k, v, _ in cards if float(unq(v)) >= 3.0] + [t] + temps))
    case['w'] = qs(gen_table_waves(rng, tmin, pts, rng.randint(1, 6)))
    return case


def gen_laws(rng, K, thorough):
    tval, tform = gen_temp(rng)
    return {'op': 'bb_laws', 'kind': rng.choice(['plain', 'norm']), 'tval': q(tval), 'tform': tform, '_const': K,
            'ngrid': 2000, 'nint': 6000 if thorough else 4000}


# ------------------------------------------------------------------ run
def tags(c, o):
    op = c['op']
    if op == 'bb':
        return ['bb:' + c['kind'], 'bb:T as ' + c['tform'], 'bb:class:' + c['class']]
    if op == 'thermal':
        return ['thermal', 'thermal:T as ' + c['tform'], 'thermal:fill as ' + (fill_form(c) or 'unscaled'),
                'thermal:history steps=%d' % min(len(c.get('steps', [])), 7)]
    if op == 'thermal_file':
        return ['thermal_file', 'thermal_file:' + c['mode'], 'thermal_file:' + c.get('ext_mode', 'single extension'),
                'thermal_file:outcome:' + (o.get('err') or 'ok')]
    return [op]


def nontrivial(c, o):
    if c['op'] == 'bb':
        return c['class'] == 'plain'
    return 'err' not in o


def strip(c):
    return {k: v for k, v in c.items() if k not in ('_const', 'dir')}


def build_cases(rep, rng, K, scratch, n_bb, n_th, n_file, n_laws, nmax_w, nmax_tab, thorough):
    cases = [gen_bb(rng, K, nmax_w) for _ in range(n_bb)]
    # the (T, lambda) corners of the stated domain
    for t in (3.0, 1e6):
        for kind in ('plain', 'norm'):
            lmin = max(10.0, HC_K * 1e10 / (XMAX * t) * 1.001)
            cases.append({'op': 'bb', 'kind': kind, 'tval': q(t), 'tform': 'number', '_const': K, 'class': 'plain',
                          'w': qs([lmin, 1e8]), 'hot': q(1.000001)})
    cases += [gen_thermal(rng, K, nmax_tab) for _ in range(n_th)]
    cases += [gen_file(rng, K, nmax_tab, scratch, i) for i in range(n_file)]
    cases += [gen_laws(rng, K, thorough) for _ in range(n_laws)]
    cases.append({'op': 'constants', '_const': K})
    return cases


def execute(rep, cases):
    fast_unit_errors()
    cases = core.pmap(prepare, cases)
    core.run_cases(rep, cases, impl_call, model_case, oracle, tags_fn=tags, nontrivial_fn=nontrivial,
                   compare_fn=compare)
    return cases


def run(rep):
    thorough = rep.tier == 'thorough'
    rng = rep.rng('c16')
    K = consts()
    scratch = tempfile.mkdtemp(prefix='verif_c16_', dir='/tmp')
    try:
        if thorough:
            cases = build_cases(rep, rng, K, scratch, 145000, 26000, 12000, 2500, 8, 40, True)
        else:
            cases = build_cases(rep, rng, K, scratch, 2200, 450, 300, 60, 6, 12, False)
        # minimised past failures run first
        corpus = [dict(c, _const=K, dir=scratch) for c in core.load_corpus('C16')]
        cases = corpus + cases
        execute(rep, cases)
    finally:
        shutil.rmtree(scratch, ignore_errors=True)
    rep.rule = ('bb: T log-uniform in 3..1e6 K (plus round values) in every spelling of the same physical value: float, int, '
                'np.float64, np.int64, 0-d array, Quantity in K, mK, kK, uK, MK (~4%% in deg_C, m, eV, dimensionless: refused); '
                'BlackBody1D or BlackBodyNorm1D; 1..%d distinct wavelengths log-uniform in 10..1e8 A restricted to '
                'h nu/kT <= 600, ascending or descending; for half of them a second temperature T(1+d), d log-uniform '
                '1e-6..3, for monotonicity; ~2.6%% cases outside the domain (invalid wavelengths, T<0, T=0) for the model only. '
                'thermal: emissivity tables of 2..%d points (ascending/descending, tapered, negative entries, values in [0,1]) '
                'x beam filling factors in every spelling (number kinds, unscaled Quantity, percent, Unit(0.5), cm/m, mm/m, m/cm, '
                'arcsec2/arcmin2, unsimplified ratios of two Quantities; ~4%% in m, rad, K, arcsec2: must be refused) x T spellings, sampled inside, on knots and beyond '
                'both ends; on 80%% (files: 60%%) of the elements a history of up to 7 steps on the ONE element object - '
                'thermal_source() queries interleaved with assignments to temperature (all spellings) and '
                'beam_fill_factor (numbers, Quantities), repeated queries, 25%% without a query on the fresh element - '
                'every query compared with the model and the formula for the attribute values assigned last. thermal_file: scratch FITS files whose table header carries temperature / beam filling factor '
                'under the default or caller-named keywords (any letter case), with distractor DEFT / BEAMFILL cards, missing '
                'cards, 55%% with two or three table extensions (same keywords, other values, other emissivity tables) loaded '
                'with ext= naming the described one (default, 1, 2, 3), '
                'non-FITS names. bb_laws: argmax of the energy density on a 4001-point grid around lambda_max; '
                'trapezoid over x = hc/(lambda kT) in 0.004..60 on a log grid vs the analytic integral. '
                'Non-trivial: inside the property\'s domain and not an error outcome.' % (8 if thorough else 6, 40 if thorough else 12))
    rep.samples = [strip(s) if isinstance(s, dict) and 'truncated_case' not in s else s for s in rep.samples]
    rep.extra['tolerances'] = {'model_rtol': 1e-9, 'closed_form_rtol': 1e-9, 'wien': 1e-3, 'stefan_boltzmann': 1e-3,
                               'domain': 'h nu / kT <= 600 and value >= 1e-300'}
    rep.oracle_failures = [(s, m, strip(c) if isinstance(c, dict) else c, o) for s, m, c, o in rep.oracle_failures]
    rep.mismatches = [(op, m, strip(c) if isinstance(c, dict) else c, o, mo) for op, m, c, o, mo in rep.mismatches]


def search(rep, mismatches):
    """directed hunt after a model/implementation mismatch: the oracles alone, larger budget, around the ops
    that disagreed"""
    sub = core.Report(rep.pid, 'thorough', rep.seed + 1)
    rng = sub.rng('c16-search')
    K = consts()
    ops = {m[0] for m in mismatches}
    fast_unit_errors()
    scratch = tempfile.mkdtemp(prefix='verif_c16s_', dir='/tmp')
    try:
        n = {'bb': 300, 'thermal': 300, 'thermal_file': 150}
        for op in ops:
            n[op] = n.get(op, 0) * 10
        cases = build_cases(sub, rng, K, scratch, n['bb'], n['thermal'], n['thermal_file'], 40, 8, 20, False)
        cases = core.pmap(prepare, cases)
        impl = core.pmap(impl_call, cases)
        for c, o in zip(cases, impl):
            oracle(sub, c, o)
    finally:
        shutil.rmtree(scratch, ignore_errors=True)
    rep.notes.append('directed search after mismatch: %d cases, %d oracle failures' % (len(cases), len(sub.oracle_failures)))
    return [(s, m, strip(c), o) for s, m, c, o in sub.oracle_failures]


def replay(rep, payload):
    c = dict(payload['case'])
    c['_const'] = consts()
    scratch = tempfile.mkdtemp(prefix='verif_c16r_', dir='/tmp')
    try:
        c['dir'] = scratch
        execute(rep, [c])
    finally:
        shutil.rmtree(scratch, ignore_errors=True)
