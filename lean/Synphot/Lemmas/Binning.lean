import Mathlib.Tactic.Ring
import Mathlib.Tactic.FieldSimp
import Mathlib.Tactic.Linarith
import Synphot.Core.Binning
import Synphot.Lemmas.Wave

set_option linter.unusedSectionVars false
set_option linter.unusedSimpArgs false

namespace Synphot
variable {K : Type} [Field K] [LinearOrder K] [IsStrictOrderedRing K]

theorem centersLoop_mids (a x : K) (t : List K) :
    centersLoop a (mids (a :: t) ++ [x]) = t := by
  induction t generalizing a with
  | nil => simp [mids, centersLoop]
  | cons b t ih =>
    have hne : mids (b :: t) ++ [x] ≠ [] := by simp
    obtain ⟨y, ys, hy⟩ := List.exists_cons_of_ne_nil hne
    simp only [mids, List.cons_append]
    rw [hy]
    simp only [centersLoop]
    have : 2 * ((b + a) * (1 / 2)) - a = b := by ring
    rw [this, ← hy, ih]

theorem binCenters_binEdges (c e : List K) (h : binEdges c = .ok e) : binCenters e = .ok c := by
  rcases c with _ | ⟨a, _ | ⟨b, t⟩⟩
  · simp [binEdges, mids] at h
  · simp [binEdges, mids] at h
  · simp only [binEdges, mids] at h
    injection h with h
    subst h
    simp only [binCenters, List.cons_append]
    have h0 : (2 * a - (b + a) * (1 / 2) + (b + a) * (1 / 2)) / 2 = a := by
      field_simp; ring
    rw [h0]
    have := centersLoop_mids a (2 * (a :: b :: t).getLastD a - ((b + a) * (1 / 2) :: mids (b :: t)).getLastD ((b + a) * (1 / 2))) (b :: t)
    simp only [mids, List.cons_append] at this
    rw [this]

/-! ### explicit form of the edge list; monotonicity, widths (C18) -/

/-- explicit recursive form of the edge list behind the first edge: `prev` is the centre to the left -/
def edgesAux (prev : K) : List K → List K
  | [] => []
  | [x] => [(x + prev) * (1/2), 2 * x - (x + prev) * (1/2)]
  | x :: y :: t => (x + prev) * (1/2) :: edgesAux x (y :: t)

theorem mids_tail_eq_edgesAux (a b : K) (t : List K) :
    mids (a :: b :: t) ++ [2 * (b :: t).getLastD a - (mids (a :: b :: t)).getLastD ((b + a) * (1/2))]
      = edgesAux a (b :: t) := by
  induction t generalizing a b with
  | nil => simp [mids, edgesAux]
  | cons c t ih =>
    have := ih b c
    simp only [mids, List.getLastD_cons, List.cons_append, edgesAux] at this ⊢
    rw [← this]

theorem binEdges_cons_cons (a b : K) (t : List K) :
    binEdges (a :: b :: t) = .ok ((2 * a - (b + a) * (1/2)) :: edgesAux a (b :: t)) := by
  have := mids_tail_eq_edgesAux a b t
  simp only [binEdges, mids, List.getLastD_cons, List.cons_append] at this ⊢
  rw [← this]

theorem binEdges_ok_iff (c : List K) : (∃ e, binEdges c = .ok e) ↔ 2 ≤ c.length := by
  rcases c with _ | ⟨a, _ | ⟨b, t⟩⟩
  · simp [binEdges, mids]
  · simp [binEdges, mids]
  · simp [binEdges_cons_cons]

theorem binEdges_short (c : List K) (h : c.length < 2) : binEdges c = .error .synphotError := by
  rcases c with _ | ⟨a, _ | ⟨b, t⟩⟩
  · simp [binEdges, mids]
  · simp [binEdges, mids]
  · simp only [List.length_cons] at h; omega

theorem edgesAux_length (p x : K) (t : List K) : (edgesAux p (x :: t)).length = t.length + 2 := by
  induction t generalizing p x with
  | nil => simp [edgesAux]
  | cons y t ih => simp [edgesAux, ih]


theorem edgesAux_head (p x : K) (t : List K) : ∃ r, edgesAux p (x :: t) = (x + p) * (1/2) :: r := by
  cases t <;> simp [edgesAux]

theorem edgesAux_getElem? (l : List K) : ∀ (p : K) (j : Nat) (x y : K), l[j]? = some x → (p :: l)[j]? = some y →
    (edgesAux p l)[j]? = some ((x + y) * (1/2)) := by
  induction l with
  | nil => intro p j x y h; simp at h
  | cons x0 t ih =>
    intro p j x y hx hy
    cases t with
    | nil =>
      cases j with
      | zero => simp at hx hy; subst hx; subst hy; simp [edgesAux]
      | succ j => simp at hx
    | cons y0 t =>
      cases j with
      | zero => simp at hx hy; subst hx; subst hy; simp [edgesAux]
      | succ j =>
        simp only [List.getElem?_cons_succ] at hx hy
        simp only [edgesAux, List.getElem?_cons_succ]
        exact ih x0 j x y hx hy

theorem edgesAux_last (l : List K) : ∀ (p xl m : K), l.getLast? = some xl →
    (edgesAux p l)[l.length - 1]? = some m → (edgesAux p l)[l.length]? = some (2 * xl - m) := by
  induction l with
  | nil => intro p xl m h; simp at h
  | cons x0 t ih =>
    intro p xl m hx hm
    cases t with
    | nil =>
      simp [edgesAux] at hx hm ⊢
      subst hx; subst hm; rfl
    | cons y0 t =>
      rw [List.getLast?_cons_cons] at hx
      simp only [edgesAux, List.length_cons, Nat.add_sub_cancel, List.getElem?_cons_succ] at hm ⊢
      exact ih x0 xl m hx (by simpa using hm)

theorem edgesAux_strictAsc (t : List K) : ∀ (p x : K), StrictAsc (p :: x :: t) → StrictAsc (edgesAux p (x :: t)) := by
  induction t with
  | nil =>
    intro p x h
    simp only [StrictAsc, and_true] at h
    simp only [edgesAux, StrictAsc, and_true]
    linarith
  | cons y t ih =>
    intro p x h
    obtain ⟨hpx, hxy⟩ := h
    have h2 := ih x y hxy
    obtain ⟨r, hr⟩ := edgesAux_head x y t
    simp only [edgesAux]
    rw [hr] at h2 ⊢
    exact ⟨by have := hxy.1; linarith, h2⟩

theorem edgesAux_strictDesc (t : List K) : ∀ (p x : K), StrictDesc (p :: x :: t) → StrictDesc (edgesAux p (x :: t)) := by
  induction t with
  | nil =>
    intro p x h
    simp only [StrictDesc, and_true] at h
    simp only [edgesAux, StrictDesc, and_true]
    linarith
  | cons y t ih =>
    intro p x h
    obtain ⟨hpx, hxy⟩ := h
    have h2 := ih x y hxy
    obtain ⟨r, hr⟩ := edgesAux_head x y t
    simp only [edgesAux]
    rw [hr] at h2 ⊢
    exact ⟨by have := hxy.1; linarith, h2⟩

theorem binEdges_strictAsc (c e : List K) (hc : StrictAsc c) (h : binEdges c = .ok e) : StrictAsc e := by
  rcases c with _ | ⟨a, _ | ⟨b, t⟩⟩
  · simp [binEdges, mids] at h
  · simp [binEdges, mids] at h
  · rw [binEdges_cons_cons] at h
    injection h with h
    subst h
    obtain ⟨r, hr⟩ := edgesAux_head a b t
    have h2 := edgesAux_strictAsc t a b hc
    rw [hr] at h2 ⊢
    exact ⟨by have := hc.1; linarith, h2⟩

theorem binEdges_strictDesc (c e : List K) (hc : StrictDesc c) (h : binEdges c = .ok e) : StrictDesc e := by
  rcases c with _ | ⟨a, _ | ⟨b, t⟩⟩
  · simp [binEdges, mids] at h
  · simp [binEdges, mids] at h
  · rw [binEdges_cons_cons] at h
    injection h with h
    subst h
    obtain ⟨r, hr⟩ := edgesAux_head a b t
    have h2 := edgesAux_strictDesc t a b hc
    rw [hr] at h2 ⊢
    exact ⟨by have := hc.1; linarith, h2⟩

theorem absDiffs_length (l : List K) : (absDiffs l).length = l.length - 1 := by
  induction l with
  | nil => simp [absDiffs]
  | cons a t ih =>
    cases t with
    | nil => simp [absDiffs]
    | cons b t => simp [absDiffs, ih]

theorem centersLoop_length (l : List K) : ∀ p : K, (centersLoop p l).length = l.length - 1 := by
  induction l with
  | nil => intro p; simp [centersLoop]
  | cons a t ih =>
    intro p
    cases t with
    | nil => simp [centersLoop]
    | cons b t => simp [centersLoop, ih]

theorem absDiffs_pos_of_strictAsc (l : List K) (h : StrictAsc l) : ∀ w ∈ absDiffs l, 0 < w := by
  induction l with
  | nil => simp [absDiffs]
  | cons a t ih =>
    cases t with
    | nil => simp [absDiffs]
    | cons b t =>
      intro w hw
      simp only [absDiffs, List.mem_cons] at hw
      rcases hw with rfl | hw
      · exact abs_pos.mpr (by have := h.1; intro h0; linarith)
      · exact ih h.2 w hw

theorem absDiffs_pos_of_strictDesc (l : List K) (h : StrictDesc l) : ∀ w ∈ absDiffs l, 0 < w := by
  induction l with
  | nil => simp [absDiffs]
  | cons a t ih =>
    cases t with
    | nil => simp [absDiffs]
    | cons b t =>
      intro w hw
      simp only [absDiffs, List.mem_cons] at hw
      rcases hw with rfl | hw
      · exact abs_pos.mpr (by have := h.1; intro h0; linarith)
      · exact ih h.2 w hw

theorem absDiffs_sum_of_strictAsc (t : List K) : ∀ a : K, StrictAsc (a :: t) →
    (absDiffs (a :: t)).sum = t.getLastD a - a := by
  induction t with
  | nil => intro a _; simp [absDiffs]
  | cons b t ih =>
    intro a h
    simp only [absDiffs, List.sum_cons, List.getLastD_cons, ih b h.2]
    rw [abs_of_pos (by have := h.1; linarith)]
    ring

theorem absDiffs_sum_of_strictDesc (t : List K) : ∀ a : K, StrictDesc (a :: t) →
    (absDiffs (a :: t)).sum = a - t.getLastD a := by
  induction t with
  | nil => intro a _; simp [absDiffs]
  | cons b t ih =>
    intro a h
    simp only [absDiffs, List.sum_cons, List.getLastD_cons, ih b h.2]
    rw [abs_of_neg (by have := h.1; linarith)]
    ring

theorem strictAsc_head_le_last (t : List K) : ∀ a : K, StrictAsc (a :: t) → a ≤ t.getLastD a := by
  induction t with
  | nil => intro a _; simp
  | cons b t ih =>
    intro a h
    rw [List.getLastD_cons]
    exact le_trans (le_of_lt h.1) (ih b h.2)

theorem strictDesc_last_le_head (t : List K) : ∀ a : K, StrictDesc (a :: t) → t.getLastD a ≤ a := by
  induction t with
  | nil => intro a _; simp
  | cons b t ih =>
    intro a h
    rw [List.getLastD_cons]
    exact le_trans (ih b h.2) (le_of_lt h.1)

/-- on valid centres the public function is the midpoint geometry -/
theorem calcBinEdges_eq (c e : List K) (hv : validateWavelengths c = .ok ()) (he : binEdges c = .ok e) :
    calcBinEdges c = .ok e := by
  have h2 : 2 ≤ c.length := (binEdges_ok_iff c).mp ⟨e, he⟩
  unfold calcBinEdges
  rw [if_neg (by omega)]
  simp [hv, he, bind, Except.bind]

/-- invalid centres are rejected with the validator's own error -/
theorem calcBinEdges_rejects (c : List K) (err : Err) (h2 : 2 ≤ c.length)
    (hv : validateWavelengths c = .error err) : calcBinEdges c = .error err := by
  unfold calcBinEdges
  rw [if_neg (by omega)]
  simp [hv, bind, Except.bind]

end Synphot
