#!/bin/bash
# tools/seedrun_wt.sh [Cxx ...]: the same loop as tools/seedrun.sh against a scratch worktree ($SEED_TREE, default /tmp/clean_wt) instead of /repo, for re-validation while /repo is in use
# The protocol of the brief, literally: apply a kept seeded change to /repo's working tree, run the registered quick
# check of its property, undo the change straight afterwards.  Never commits anything in /repo.  Prints one line per
# seed: CAUGHT (exit 1 + VIOLATION line with a failing input), CAUGHT-NOINPUT (VIOLATION … no-failing-input-found)
# or MISSED, and after all seeds re-runs nothing: the last action on /repo is always `git checkout -- .`.
set -u
cd /verif; WT=${SEED_TREE:-/tmp/clean_wt}
IDS=${@:-$(ls seeded)}
test -z "$(git -C $WT status --porcelain --untracked-files=no)" || { echo "/repo working tree not clean"; exit 2; }
for ID in $IDS; do
  P=seeded/$ID/patch.diff
  test -s $P || continue
  git -C $WT apply $PWD/$P || { echo "$ID: patch does not apply"; continue; }
  PID=${ID:0:3}
  OUT=$(SYNPHOT_REPO=$WT ./check $PID --no-build 2>&1 | grep -v conda)
  RC=$?
  git -C $WT checkout -- .
  LINE=$(echo "$OUT" | grep -E "^$PID tier" | head -1)
  if echo "$OUT" | grep -q "^VIOLATION property=$PID .*no-failing-input-found"; then R=CAUGHT-NOINPUT
  elif echo "$OUT" | grep -q "^VIOLATION property=$PID"; then R=CAUGHT
  else R=MISSED; fi
  echo "$ID: $R  [$LINE]"
done
test -z "$(git -C $WT status --porcelain --untracked-files=no)" && echo "/repo clean"
