/-
  C06 — An observation is source × bandpass, admitted only with adequate overlap.
-/
import Synphot.Core.Observation
import Synphot.Lemmas.Spectrum
import Synphot.Props.C03

set_option linter.unusedSectionVars false
set_option linter.unusedVariables false

namespace Synphot.C06
open Synphot
variable {K : Type} [Field K] [LinearOrder K] [IsStrictOrderedRing K]

/-! ### the end-point classifier -/

/-- 'none' exactly when the two ranges are disjoint (strict `<`: a shared end point overlaps) -/
theorem status_none_iff (a1 a2 b1 b2 : K) (ha : a1 ≤ a2) (hb : b1 ≤ b2) :
    overlapStatus a1 a2 b1 b2 = .none ↔ (a2 < b1 ∨ b2 < a1) := by
  unfold overlapStatus
  constructor
  · intro h
    split_ifs at h with h1 h2
    exact h2
  · intro h
    have h1 : ¬ (a1 ≥ b1 ∧ a2 ≤ b2) := by
      rintro ⟨h1, h2⟩
      rcases h with h | h
      · exact absurd (lt_of_le_of_lt (le_trans h1 ha) h) (lt_irrefl _)
      · exact absurd (lt_of_le_of_lt h2 (lt_of_lt_of_le h ha)) (lt_irrefl _)
    rw [if_neg h1, if_pos h]

/-- 'full' exactly when the first range is contained in the second (`≤`: equal ends count) -/
theorem status_full_iff (a1 a2 b1 b2 : K) :
    overlapStatus a1 a2 b1 b2 = .full ↔ (b1 ≤ a1 ∧ a2 ≤ b2) := by
  unfold overlapStatus
  constructor
  · intro h
    split_ifs at h with h1
    exact h1
  · intro h; rw [if_pos h]

/-- 'partial' in every other case -/
theorem status_partial_iff (a1 a2 b1 b2 : K) :
    overlapStatus a1 a2 b1 b2 = .part ↔ (¬ (b1 ≤ a1 ∧ a2 ≤ b2) ∧ ¬ (a2 < b1 ∨ b2 < a1)) := by
  unfold overlapStatus
  constructor
  · intro h
    split_ifs at h with h1 h2
    exact ⟨h1, h2⟩
  · rintro ⟨h1, h2⟩
    rw [if_neg h1, if_neg h2]

/-! ### grading -/

/-- 'none' exactly when the end-point status is 'none' -/
theorem grade_none_iff (st : Overlap) (z : Bool) (e t thr : K) :
    gradeVerdict st z e t thr = .none ↔ st = .none := by
  cases st <;> simp [gradeVerdict] <;> split_ifs <;> simp

/-- 'full' when contained; otherwise only through the zero-at-both-ends shortcut -/
theorem grade_full_iff (st : Overlap) (z : Bool) (e t thr : K) :
    gradeVerdict st z e t thr = .full ↔ (st = .full ∨ (st = .part ∧ z = true)) := by
  cases st <;> cases z <;> simp [gradeVerdict] <;> split_ifs <;> simp

/-- the remaining cases are graded by the excluded fraction against the threshold -/
theorem grade_partial (z : Bool) (e t thr : K) (hz : z = false) :
    (gradeVerdict .part z e t thr = .partialMost ↔ e / t < thr) ∧
    (gradeVerdict .part z e t thr = .partialNotMost ↔ ¬ e / t < thr) := by
  subst hz
  simp only [gradeVerdict, Bool.false_eq_true, if_false]
  constructor <;> split_ifs <;> simp_all

/-! ### admission -/

/-- what `Observation.__init__` does with a verdict and a `force` value -/
theorem admit_table (E : Env K) (P : OverlapPar K) (src band : Spec K) (force : Force) (v : Verdict)
    (hv : checkOverlap E P band src Option.none = .ok v) :
    (v = .none → obsAdmit E P src band force = .error .disjointError) ∧
    (v = .full → obsAdmit E P src band force = .ok (src, false)) ∧
    ((v = .partialMost ∨ v = .partialNotMost) →
      (force = .none → obsAdmit E P src band force = .error .partialOverlap) ∧
      (force = .invalid → obsAdmit E P src band force = .error .synphotError) ∧
      (force = .extrap → obsAdmit E P src band force = .ok ((src.forceExtrap).1, true)) ∧
      (force = .taper → ∀ r, src.taper E P.mergeThr Option.none = .ok r →
          obsAdmit E P src band force = .ok (r.getD src, true))) := by
  refine ⟨?_, ?_, ?_⟩
  · intro h; subst h; simp [obsAdmit, hv, bind, Except.bind]
  · intro h; subst h; simp [obsAdmit, hv, bind, Except.bind, pure, Except.pure]
  · intro h
    refine ⟨?_, ?_, ?_, ?_⟩
    · intro hf; subst hf; rcases h with rfl | rfl <;> simp [obsAdmit, hv, bind, Except.bind]
    · intro hf; subst hf; rcases h with rfl | rfl <;> simp [obsAdmit, hv, bind, Except.bind]
    · intro hf; subst hf; rcases h with rfl | rfl <;> simp [obsAdmit, hv, bind, Except.bind, pure, Except.pure]
    · intro hf r hr; subst hf
      rcases h with rfl | rfl <;> cases r <;>
        simp [obsAdmit, hv, hr, bind, Except.bind, pure, Except.pure]

/-- a disjoint pair is refused whatever `force` says -/
theorem disjoint_always_refused (E : Env K) (P : OverlapPar K) (src band : Spec K) (force : Force)
    (hv : checkOverlap E P band src Option.none = .ok .none) :
    obsAdmit E P src band force = .error .disjointError :=
  (admit_table E P src band force .none hv).1 rfl

/-- the values `force` accepts: 'none', 'taper', anything starting with 'extrap', in any case -/
theorem force_strings :
    Force.ofString "none" = .none ∧ Force.ofString "TAPER" = .taper ∧
    Force.ofString "extrap" = .extrap ∧ Force.ofString "Extrapolate" = .extrap ∧
    Force.ofString "bogus" = .invalid := by decide +kernel

/-! ### evaluation -/

/-- an observation evaluates at every wavelength to source′(λ) × bandpass(λ), where source′ is the
admitted (possibly tapered or extrapolating) source -/
theorem obs_eval (E : Env K) (P : OverlapPar K) (src band : Spec K) (binset : Option (List K))
    (force : Force) (useC : Bool) (o : Obs K) (h : mkObs E P src band binset force useC = .ok o)
    (x vs vb : K) (hs : o.src.evalAt E x = .ok vs) (hb : o.band.evalAt E x = .ok vb) :
    o.model.eval E x = .ok (vs * vb) := by
  unfold mkObs at h
  simp only [bind, Except.bind, pure, Except.pure] at h
  split_ifs at h with h1 h2
  all_goals try (cases h; done)
  cases ha : obsAdmit E P src band force with
  | error e => simp [ha] at h
  | ok sw =>
    obtain ⟨s, w⟩ := sw
    simp only [ha] at h
    cases hsm : s.model with
    | error e => simp [hsm] at h
    | ok sm =>
      cases hbm : band.model with
      | error e => simp [hsm, hbm] at h
      | ok bm =>
        simp only [hsm, hbm] at h
        -- whatever the binset and the bins are, the stored source, band and model are these
        have key : ∀ o', (o' : Obs K) = o → o'.src = s → o'.band = band → o'.model = .bin .mul sm bm →
            o.model.eval E x = .ok (vs * vb) := by
          intro o' ho hs' hb' hm
          subst ho
          rw [hs'] at hs; rw [hb'] at hb
          obtain ⟨m1, hm1, he1⟩ := evalAt_ok hs
          obtain ⟨m2, hm2, he2⟩ := evalAt_ok hb
          rw [hsm] at hm1; cases hm1
          rw [hbm] at hm2; cases hm2
          rw [hm, eval_bin_of he1 he2]; rfl
        revert h
        cases binset with
        | none =>
          simp only []
          cases hd : defaultBinset P.mergeThr sm bm with
          | error e => intro h; simp at h
          | ok bs =>
            simp only []
            cases hb2 : initBins E P.mergeThr (Tree.bin BinOp.mul sm bm) bs useC with
            | error e => intro h; simp at h
            | ok bins => intro h; simp at h; exact key _ h rfl rfl rfl
        | some b =>
          simp only []
          cases hvw : validateWavelengths b with
          | error e => intro h; simp at h
          | ok u =>
            simp only []
            cases hb2 : initBins E P.mergeThr (Tree.bin BinOp.mul sm bm) b useC with
            | error e => intro h; simp at h
            | ok bins => intro h; simp at h; exact key _ h rfl rfl rfl

/-- forced extrapolation: a tabulated source is held at its end value outside its own range -/
theorem extrap_holds_end_value (t : Table K) (x : K) (hx : x < t.forceExtrap.pts.headD 0)
    (h0 : t.keepNeg = true ∨ 0 ≤ t.vals.headD 0) : t.forceExtrap.eval x = t.vals.headD 0 := by
  have := C03.eval_below t.forceExtrap x hx (by simpa [Table.forceExtrap] using h0)
  simpa [Table.forceExtrap] using this

end Synphot.C06
