/-
  C15 — Model parameters with units build the same spectrum as internal-unit numbers.

  `Params.processArgs` is `BaseSpectrum.__init__` up to the call of the model class, `Params.build`
  the model classes, `Params.construct` both (`Core/Params.lean`).  The two dictionaries the
  constructor consults are the ones regenerated from the source on every run
  (`Generated/ParamTable.lean`): `param_kinds` is re-checked against what the source says now.

  Statements hold for every ordered field `K` (hence ℝ), every lawful family `T` of transcendental
  functions (`Transc.real_lawful`: the real ones are lawful), positive constants and wavelengths.
  The photon-unit integral of the total-flux Gaussian is proved at `K = ℝ` with Mathlib's integral.

  Two instances of the property were false of the code as found (`Const1D` received a Quantity
  amplitude unconverted; `ExtinctionModel1D` had a flux-like `lookup_table` but no reference
  wavelength, so a flux-unit table in a `SourceSpectrum` became NaN).  Both were found by this check
  and repaired in /repo (0d4a51b, e50ecea); the model follows the repaired code and the two
  equivalences are theorems (`const1_quantity_eq_number`, `extinction_table_converted`).

  Modelled, not verified: astropy's `Quantity.to` / `u.spectral()` / `u.spectral_density()` (the
  real-number conversion rules are the model's), binary64 rounding, the Float-backed functions of
  the driver.
-/
import Synphot.Lemmas.Params
import Synphot.Lemmas.Analytic
import Synphot.Generated.ParamTable

set_option linter.unusedSectionVars false
set_option linter.unusedVariables false
set_option linter.unusedSimpArgs false

namespace Synphot.C15
open Synphot Synphot.Params
variable {K : Type} [Field K] [LinearOrder K] [IsStrictOrderedRing K]
variable {P : PhysConst K} {T : Transc K}

/-! ## the dictionaries of the source follow the statement's rule -/

/-- wavelength-like parameter names -/
def waveNames : List String :=
  ["x_0", "mean", "x_break", "points", "x_cutoff", "width", "stddev", "fwhm", "sigma"]

/-- flux-like parameter names -/
def fluxNames : List String := ["amplitude", "lookup_table"]

/-- reference-wavelength parameters: the position of the feature, the knots of a table -/
def refNames : List String := ["x_0", "mean", "x_break", "points"]

/-- classes whose amplitude keeps the unit it was given in (they convert on evaluation) -/
def ownUnitModels : List String := ["ConstFlux1D", "PowerLawFlux1D"]

/-- the rule of the statement: wavelength-like parameters go through the spectral equivalence,
flux-like ones are converted at the reference wavelength, classes with a unit of their own receive
their parameters untouched (`PowerLawFlux1D` converts its `x_0` itself, `GaussianFlux1D` its
`total_flux`), temperatures are Kelvin, everything else is a pure number -/
def expectedKind (m p : String) : String :=
  if p ∈ fluxNames then (if m ∈ ownUnitModels then "noconv" else "flux")
  else if p ∈ waveNames then (if m = "PowerLawFlux1D" then "noconv" else "wave")
  else if p = "total_flux" then "noconv"
  else if p = "temperature" then "unit:K"
  else "unit:dimensionless_unscaled"

def kindsOk (tbl : ParamTable) : Bool :=
  tbl.all fun m => m.2.all fun p => p.2 == expectedKind m.1 p.1

/-- every class with a flux-like parameter names, as the wavelength of the conversion, one of its own
wavelength-like position parameters; a class without any wavelength-like parameter (`Const1D`) has no
such entry (and then only takes flux Quantities in the internal unit, `no_reference_only_internal`) -/
def refsOk (tbl : ParamTable) (fconv : FconvTable) : Bool :=
  tbl.all fun m =>
    !(m.2.any fun p => p.2 == "flux") ||
      (if m.2.any (fun p => p.2 == "wave") then
         match fconv.lookup m.1 with
         | some r => r ∈ refNames && m.2.lookup r == some "wave"
         | none => false
       else fconv.lookup m.1 == none)

/-- every entry of `_model_fconv_wav` is about a supported class and one of its wave-like parameters -/
def fconvOk (tbl : ParamTable) (fconv : FconvTable) : Bool :=
  fconv.all fun e =>
    match tbl.lookup e.1 with
    | some ps => ps.lookup e.2 == some "wave"
    | none => false

/-- [core] the dictionaries regenerated from the source agree with the statement's rule -/
theorem param_kinds :
    kindsOk Generated.modelParamTable = true ∧
    refsOk Generated.modelParamTable Generated.modelFconvWav = true ∧
    fconvOk Generated.modelParamTable Generated.modelFconvWav = true := by
  decide +kernel

/-- … in quantified form: the kind of every listed parameter of every listed class -/
theorem kind_of_listed (m : String) (ps : List (String × String)) (p k : String)
    (hm : (m, ps) ∈ Generated.modelParamTable) (hp : (p, k) ∈ ps) : k = expectedKind m p := by
  have h := param_kinds.1
  unfold kindsOk at h
  rw [List.all_eq_true] at h
  have h1 := h (m, ps) hm
  rw [List.all_eq_true] at h1
  have h2 := h1 (p, k) hp
  simpa using h2

/-! ## what each kind of processing computes -/

/-- a wave-like keyword is processed by `_process_wave_param` -/
theorem wave_kind_processed (cls : SpecClass) (z : K) (w : Option (List K)) (kinds : List (String × String))
    (p : String × Arg K) (h : kinds.lookup p.1 = some "wave") :
    processOne P T cls z w kinds p = (processWave P p.2).map fun v => (p.1, Arg.num v) := by
  unfold processOne; rw [h]; simp

/-- a flux-like keyword is processed by `_process_flux_param` with the processed reference wavelength -/
theorem flux_kind_processed (cls : SpecClass) (z : K) (w : Option (List K)) (kinds : List (String × String))
    (p : String × Arg K) (h : kinds.lookup p.1 = some "flux") :
    processOne P T cls z w kinds p = (processFlux P T cls z w p.2).map fun v => (p.1, Arg.num v) := by
  unfold processOne; rw [h]; simp

/-- an unconverted keyword reaches the model class as given -/
theorem noconv_kind_processed (cls : SpecClass) (z : K) (w : Option (List K)) (kinds : List (String × String))
    (p : String × Arg K) (h : kinds.lookup p.1 = some "noconv") :
    processOne P T cls z w kinds p = .ok p := by
  unfold processOne; rw [h]; simp

/-- for every class of the source's dictionary, every wavelength-like parameter the class lists is
processed through the spectral equivalence (the one exception converts its `x_0` itself, see
`powerlaw_x0_own_conversion`) -/
theorem wave_like_through_spectral (m : String) (ps : List (String × String)) (cls : SpecClass) (z : K)
    (w : Option (List K)) (p : String × Arg K) (k : String)
    (hm : (m, ps) ∈ Generated.modelParamTable) (hk : ps.lookup p.1 = some k)
    (hw : p.1 ∈ waveNames) (hne : m ≠ "PowerLawFlux1D") :
    processOne P T cls z w ps p = (processWave P p.2).map fun v => (p.1, Arg.num v) := by
  have hk' : k = expectedKind m p.1 := kind_of_listed m ps p.1 k hm (mem_of_lookup ps p.1 k hk)
  have hnf : p.1 ∉ fluxNames := by
    intro hf
    have : ∀ s ∈ waveNames, s ∉ fluxNames := by decide
    exact this p.1 hw hf
  have : k = "wave" := by
    rw [hk']; unfold expectedKind; rw [if_neg hnf, if_pos hw, if_neg hne]
  subst this
  exact wave_kind_processed cls z w ps p hk

/-- the spectral equivalence, unit class by unit class: `length × scale`, `c/ν`, `1/k`, `hc/E` -/
theorem spectral_equivalence (v k : K) (hv : v ≠ 0) :
    waveToAA P (.length k) v = .ok (v * k) ∧
    waveToAA P (.freq k) v = .ok (P.c / (v * k)) ∧
    waveToAA P (.wavenumber k) v = .ok (1 / (v * k)) ∧
    waveToAA P (.energy k) v = .ok (P.h * P.c / (v * k)) := by
  simp [waveToAA, WaveUnit.toAngstrom, nanOnZeroDiv, hv]

/-- a unit that is not a wavelength, frequency, wavenumber or photon energy is refused -/
theorem wave_unit_rejected (v : K) (u : QUnit K)
    (h : match u with | .length _ | .freq _ | .wavenumber _ | .energy _ => False | _ => True) :
    waveToAA P u v = .error .unitError := by
  cases u <;> simp [waveToAA] at h ⊢

/-- [core] a flux density on a `SourceSpectrum` is converted at the reference wavelength × (1+z), every
element of a table at its own wavelength -/
theorem flux_at_redshifted_reference (z : K) (u : FluxUnit K) (hu : u ≠ .photlam)
    (hfd : isFluxDensity u = true) (w f : List K) (hz : zeroRef z (some w) = false) :
    processFlux P T .source z (some w) { vals := f, unit := some (.flux u) } = convEach P T z u w f := by
  unfold processFlux
  simp only [hfd, if_true, hz, Bool.false_and, Bool.false_eq_true, if_false]
  exact convertAtRef_eq P T z u hu hfd w f

/-- a reference wavelength of exactly zero: the per-frequency units would divide by it (NumPy: inf / nan) -/
theorem zero_reference_nan (z : K) (u : FluxUnit K) (hfd : isFluxDensity u = true) (hn : needsInvLam u = true)
    (w f : List K) (hz : zeroRef z (some w) = true) :
    processFlux P T .source z (some w) { vals := f, unit := some (.flux u) } = .error .nan := by
  simp [processFlux, hfd, hz, hn]

/-- … for a scalar amplitude: `toPhotlam` at `w (1+z)` -/
theorem amplitude_at_redshifted_reference (z : K) (u : FluxUnit K) (hu : u ≠ .photlam)
    (hfd : isFluxDensity u = true) (w f : K) (hz : w * (1 + z) ≠ 0) :
    processFlux P T .source z (some [w]) { vals := [f], unit := some (.flux u) } =
      (toPhotlam P T (plainSamp (w * (1 + z))) u f).map fun p => [p] := by
  rw [flux_at_redshifted_reference z u hu hfd [w] [f] (by simp [zeroRef]; exact mul_ne_zero_iff.mp hz)]
  simp only [convEach]
  cases toPhotlam P T (plainSamp (w * (1 + z))) u f <;> rfl

/-- a PHOTLAM Quantity is taken as it is -/
theorem photlam_untouched (z : K) (w : Option (List K)) (f : List K) :
    processFlux P T .source z w { vals := f, unit := some (.flux .photlam) } = .ok f := by
  unfold processFlux
  cases w with
  | none => simp [isFluxDensity, convertAtRef, needsInvLam]
  | some w => simp [isFluxDensity, convertAtRef, convertFlux, needsInvLam]

theorem plainSamp_pos (x : K) (hx : 0 < x) : (plainSamp x : Samp K).Pos :=
  ⟨hx, (fun _ h => by cases h), (fun _ h => by cases h)⟩

/-- sampled in the unit it was given in, at the redshifted reference wavelength, the amplitude
comes back (C01's round trip) -/
theorem amplitude_roundtrip (hP : P.Pos) (hT : T.Lawful) (z : K) (u : FluxUnit K) (hup : u.Pos)
    (hu : u ≠ .photlam) (hfd : isFluxDensity u = true) (w f p : K) (hw : 0 < w * (1 + z))
    (h : processFlux P T .source z (some [w]) { vals := [f], unit := some (.flux u) } = .ok [p]) :
    ofPhotlam P T (plainSamp (w * (1 + z))) u p = .ok f := by
  rw [amplitude_at_redshifted_reference z u hu hfd w f hw.ne'] at h
  obtain ⟨p', hp', hpp⟩ := map_ok_inv _ _ _ h
  have : p = p' := by injection hpp with h1
  subst this
  exact ofPhotlam_toPhotlam hP hT (plainSamp_pos _ hw) u hup hp'

/-- throughput of the unitless classes: a dimensionless Quantity is reduced to a pure number -/
theorem throughput_dimensionless (z : K) (w : Option (List K)) (f : List K) (k : K) :
    processFlux P T .unitless z w { vals := f, unit := some (.dimensionless k) } = .ok (f.map (· * k)) := rfl

/-- temperatures are converted to Kelvin, exponents to pure numbers -/
theorem generic_units (f : List K) (k : K) :
    processGeneric "unit:K" { vals := f, unit := some (.temperature k) } = .ok (f.map (· * k)) ∧
    processGeneric "unit:dimensionless_unscaled" { vals := f, unit := some (.dimensionless k) } =
      .ok (f.map (· * k)) := by
  constructor <;> simp [processGeneric, BlackBody.tempKelvin]

/-! ## a Quantity and the number it converts to build the same object -/

/-- [core] the equation the correspondence tests on every case: if the constructor turns the keywords
`r.args` into `ma` (numbers in Angstrom / PHOTLAM / pure numbers, and the Quantities the model
classes convert themselves), then calling it with `ma` instead gives the model class the very same
keywords -/
theorem quantity_eq_number (tbl : ParamTable) (fconv : FconvTable) (r : Request K) (ma : Args K)
    (h : processArgs P T tbl fconv r = .ok ma) :
    processArgs P T tbl fconv { r with args := ma } = .ok ma := by
  unfold processArgs at h ⊢
  by_cases hn : r.nModels ≠ 1
  · rw [if_pos hn] at h; cases h
  rw [if_neg hn] at h; rw [if_neg hn]
  by_cases hc : (!r.isModelClass) = true
  · rw [if_pos hc] at h; cases h
  rw [if_neg hc] at h; rw [if_neg hc]
  cases hk : tbl.lookup r.model with
  | none => rw [hk] at h; cases h
  | some kinds =>
    rw [hk] at h
    simp only at h ⊢
    cases hf : fconv.lookup r.model with
    | none =>
      rw [hf] at h
      simp only at h ⊢
      exact mapM_idem _ (processOne_idem P T r.cls r.z none kinds) r.args ma h
    | some pw =>
      rw [hf] at h
      simp only at h ⊢
      cases ha : r.args.lookup pw with
      | none => rw [ha] at h; cases h
      | some aw =>
        rw [ha] at h
        simp only at h
        cases hw : processWave P aw with
        | error e => rw [hw] at h; cases h
        | ok w =>
          rw [hw] at h
          change (do
            let rest ← (popKey pw r.args).mapM (processOne P T r.cls r.z (some w) kinds)
            pure ((pw, Arg.num w) :: rest)) = .ok ma at h
          cases hr : (popKey pw r.args).mapM (processOne P T r.cls r.z (some w) kinds) with
          | error e => rw [hr] at h; cases h
          | ok rest =>
            rw [hr] at h
            have hma : ma = (pw, Arg.num w) :: rest := by
              injection h with h; exact h.symm
            subst hma
            have h1 : List.lookup pw ((pw, Arg.num w) :: rest) = some (Arg.num w) := List.lookup_cons_self
            rw [h1]
            simp only
            rw [processWave_num]
            have h2 : popKey pw ((pw, Arg.num w) :: rest) = rest := by simp [popKey]
            rw [h2]
            have h3 := mapM_idem _ (processOne_idem P T r.cls r.z (some w) kinds) _ rest hr
            show (do
              let w' ← (Except.ok w : Except Err (List K))
              let rest' ← rest.mapM (processOne P T r.cls r.z (some w') kinds)
              pure ((pw, Arg.num w') :: rest')) = _
            simp only [bind, Except.bind, h3]
            rfl

/-- … hence the same object -/
theorem construct_quantity_eq_number (tbl : ParamTable) (fconv : FconvTable) (keepNeg : Bool)
    (r : Request K) (ma : Args K) (h : processArgs P T tbl fconv r = .ok ma) :
    construct P T tbl fconv keepNeg { r with args := ma } = construct P T tbl fconv keepNeg r := by
  unfold construct
  rw [quantity_eq_number tbl fconv r ma h, h]

/-- `GaussianFlux1D`: a total flux given as a Quantity and the number of erg s⁻¹ cm⁻² it converts to
are the same thing to the class -/
theorem total_flux_quantity_eq_number (v k : K) :
    totalFluxCgs ({ vals := [v], unit := some (.irradiance k) } : Arg K) = totalFluxCgs (Arg.num [v * k]) := rfl

/-- `PowerLawFlux1D` converts its own `x_0` through the same spectral equivalence -/
theorem powerlaw_x0_own_conversion (args : Args K) (a ax : Arg K) (v x al : K) (u : FluxUnit K)
    (ha : args.lookup "amplitude" = some a) (hx : args.lookup "x_0" = some ax)
    (hal : scalarD args "alpha" 0 = .ok al) (hav : a = { vals := [v], unit := some (.flux u) })
    (hfd : isFluxDensity u = true) (hxv : processWave P ax = .ok [x]) :
    mkPowerLawFlux P args = .ok (.powerLaw v x al u) := by
  unfold mkPowerLawFlux
  rw [ha, hx]
  simp only [hal, hav, hfd, hxv, bind, Except.bind, if_true, pure, Except.pure]

/-- a class without reference wavelength (`Const1D`) takes a flux Quantity on a source only in the
internal unit; any other flux density is refused (there is no wavelength to convert it at) -/
theorem no_reference_only_internal (z : K) (f : List K) (u : FluxUnit K) (hfd : isFluxDensity u = true) :
    processFlux P T .source z none { vals := f, unit := some (.flux u) } =
      if u = .photlam then .ok f else .error .synphotError := by
  simp [processFlux, hfd, convertAtRef, zeroRef]

/-- [core] `Const1D` on a source: the amplitude given as a PHOTLAM Quantity builds the object the plain
number builds (repaired by 0d4a51b; before, the Quantity reached astropy unconverted) -/
theorem const1_quantity_eq_number (z a : K) :
    construct P T Generated.modelParamTable Generated.modelFconvWav false
      { cls := .source, z := z, isModelClass := true, model := "Const1D", nModels := 1,
        args := [("amplitude", { vals := [a], unit := some (.flux .photlam) })] } =
    construct P T Generated.modelParamTable Generated.modelFconvWav false
      { cls := .source, z := z, isModelClass := true, model := "Const1D", nModels := 1,
        args := [("amplitude", Arg.num [a])] } ∧
    construct P T Generated.modelParamTable Generated.modelFconvWav false
      { cls := .source, z := z, isModelClass := true, model := "Const1D", nModels := 1,
        args := [("amplitude", Arg.num [a])] } = .ok (.leaf (.const1 a)) := by
  have hl : Generated.modelParamTable.lookup "Const1D" = some [("amplitude", "flux")] := by decide +kernel
  have hf : Generated.modelFconvWav.lookup "Const1D" = none := by decide +kernel
  constructor <;>
    simp [construct, processArgs, hl, hf, processOne, processFlux, isFluxDensity, convertAtRef, build, zeroRef,
      bind, Except.bind, List.lookup, pure, Except.pure, Arg.num, Except.map]

/-- … on a unitless class: a dimensionless Quantity (`percent` ↦ 1/100) is the number it stands for -/
theorem const1_throughput_eq_number (a k : K) :
    construct P T Generated.modelParamTable Generated.modelFconvWav false
      { cls := .unitless, z := 0, isModelClass := true, model := "Const1D", nModels := 1,
        args := [("amplitude", { vals := [a], unit := some (.dimensionless k) })] } =
      .ok (.leaf (.const1 (a * k))) := by
  have hl : Generated.modelParamTable.lookup "Const1D" = some [("amplitude", "flux")] := by decide +kernel
  have hf : Generated.modelFconvWav.lookup "Const1D" = none := by decide +kernel
  simp [construct, processArgs, hl, hf, processOne, processFlux, build,
    bind, Except.bind, List.lookup, pure, Except.pure, Arg.num, Except.map]

/-- `Const1D` on a source with an amplitude in any other flux density: refused with `SynphotError` -/
theorem const1_other_unit_rejected (z a : K) (u : FluxUnit K) (hu : u ≠ .photlam) (keepNeg : Bool) :
    construct P T Generated.modelParamTable Generated.modelFconvWav keepNeg
      { cls := .source, z := z, isModelClass := true, model := "Const1D", nModels := 1,
        args := [("amplitude", { vals := [a], unit := some (.flux u) })] } = .error .synphotError := by
  have hl : Generated.modelParamTable.lookup "Const1D" = some [("amplitude", "flux")] := by decide +kernel
  have hf : Generated.modelFconvWav.lookup "Const1D" = none := by decide +kernel
  by_cases hfd : isFluxDensity u = true
  · simp [construct, processArgs, hl, hf, processOne, processFlux, hfd, convertAtRef, hu, zeroRef,
      bind, Except.bind, List.lookup, Except.map]
  · have hfd' : isFluxDensity u = false := by simpa using hfd
    simp [construct, processArgs, hl, hf, processOne, processFlux, hfd',
      bind, Except.bind, List.lookup, Except.map]

/-- [core] `ExtinctionModel1D` in a `SourceSpectrum`: a flux-unit table is converted element by element at
its own wavelengths × (1+z), exactly as for `Empirical1D` (repaired by e50ecea; before, the class had no
reference wavelength and the table became NaN) -/
theorem extinction_table_converted (z : K) (w f : List K) (u : FluxUnit K) (hu : u ≠ .photlam)
    (hfd : isFluxDensity u = true) (hz : zeroRef z (some w) = false) :
    processArgs P T Generated.modelParamTable Generated.modelFconvWav
      { cls := .source, z := z, isModelClass := true, model := "ExtinctionModel1D", nModels := 1,
        args := [("points", Arg.num w), ("lookup_table", { vals := f, unit := some (.flux u) })] }
      = (convEach P T z u w f).map fun v => [("points", Arg.num w), ("lookup_table", Arg.num v)] := by
  have hl : Generated.modelParamTable.lookup "ExtinctionModel1D" =
      some [("points", "wave"), ("lookup_table", "flux")] := by decide +kernel
  have hf : Generated.modelFconvWav.lookup "ExtinctionModel1D" = some "points" := by decide +kernel
  have hc := flux_at_redshifted_reference (P := P) (T := T) z u hu hfd w f hz
  have hp : processOne P T SpecClass.source z (some w) [("points", "wave"), ("lookup_table", "flux")]
      ("lookup_table", { vals := f, unit := some (QUnit.flux u) }) =
      (convEach P T z u w f).map fun v => ("lookup_table", Arg.num v) := by
    rw [flux_kind_processed (P := P) (T := T) SpecClass.source z (some w) _ _ (by simp [List.lookup]), hc]
  have hw : processWave P (Arg.num w) = .ok w := rfl
  simp [processArgs, hl, hf, List.lookup, popKey, hw, mapM_cons', mapM_nil', bind, Except.bind, pure,
    Except.pure, hp]
  cases convEach P T z u w f <;> simp [Except.map]

/-! ## GaussianFlux1D -/

section gaussflux
variable (args : Args K) (F m w : K)

/-- σ of a Gaussian given by its FWHM `w` -/
def sigmaOf (T : Transc K) (w : K) : K := w / (2 * T.sqrt (2 * T.ln 2))

/-- [core] `GaussianFlux1D(total_flux=F, mean=m, fwhm=w)` is the Gaussian with
σ = w / (2√(2 ln 2)), centre `m` and peak `F / (σ√(2π))` FLAM, i.e. `F / (σ√(2π)) · m/(hc)` PHOTLAM -/
theorem gaussflux_relations
    (hF : args.lookup "total_flux" = some (Arg.num [F])) (hm : args.lookup "mean" = some (Arg.num [m]))
    (hw : args.lookup "fwhm" = some (Arg.num [w])) (ha : args.lookup "amplitude" = none)
    (hs : args.lookup "stddev" = none) (hne : T.sqrt (2 * T.pi) * sigmaOf T w ≠ 0) :
    gaussFluxParams P T args =
      .ok (F / (T.sqrt (2 * T.pi) * sigmaOf T w) * m / (P.h * P.c), m, sigmaOf T w) := by
  have hsd : w * fwhmToSigma T = sigmaOf T w := by
    unfold fwhmToSigma sigmaOf; rw [mul_one_div]
  have hne' : sqrt2pi T * sigmaOf T w ≠ 0 := hne
  unfold gaussFluxParams scalarD
  simp only [ha, hm, hs, hw, hF, Arg.num, bind, Except.bind, pure, Except.pure, totalFluxCgs, hsd,
    toPhotlam, plainSamp, if_neg hne']
  rfl

/-- the peak, expressed as a flux density per wavelength at the centre, is `F / (σ√(2π))` -/
theorem gaussflux_peak_flam (hne : T.sqrt (2 * T.pi) * sigmaOf T w ≠ 0) (hm0 : m ≠ 0) (hh : P.h * P.c ≠ 0) :
    ofPhotlam P T (plainSamp m) .flam (F / (T.sqrt (2 * T.pi) * sigmaOf T w) * m / (P.h * P.c)) =
      .ok (F / (sigmaOf T w * T.sqrt (2 * T.pi))) := by
  obtain ⟨h1, h2⟩ := mul_ne_zero_iff.mp hne
  obtain ⟨h3, h4⟩ := mul_ne_zero_iff.mp hh
  simp only [ofPhotlam, plainSamp]
  congr 1
  field_simp

end gaussflux

/-- [core, K = ℝ] the photon-unit integral of that Gaussian over the whole line is `F m / (h c)`
(photons s⁻¹ cm⁻²): Mathlib's Gaussian integral, as in C12's `gauss_integral` -/
theorem gaussflux_photon_integral (P : PhysConst ℝ) (F m w : ℝ) (hw : 0 < w) (hh : P.h * P.c ≠ 0) :
    ∫ x : ℝ, F / (Transc.real.sqrt (2 * Transc.real.pi) * sigmaOf Transc.real w) * m / (P.h * P.c) *
        Real.exp (-(1 / 2) * (x - m) ^ 2 / (sigmaOf Transc.real w) ^ 2) = F * m / (P.h * P.c) := by
  have hl2 : 0 < Real.sqrt (2 * Real.log 2) :=
    Real.sqrt_pos.mpr (mul_pos two_pos (Real.log_pos one_lt_two))
  have hsig : 0 < sigmaOf Transc.real w := by
    unfold sigmaOf; simp only [Transc.real_sqrt, Transc.real_ln]; positivity
  have hpi : 0 < Real.sqrt (2 * Real.pi) := Real.sqrt_pos.mpr (mul_pos two_pos Real.pi_pos)
  rw [integral_gauss _ m _ hsig]
  simp only [Transc.real_sqrt, Transc.real_pi]
  have h1 := hsig.ne'
  have h2 := hpi.ne'
  field_simp

/-- the model leaf evaluates the same closed form (`Leaf.gaussian` writes the exponent as
`-(x-m)² / (2σ²)`) -/
theorem gaussian_leaf_eval (E : Env K) (a m s x : K) :
    (Leaf.gaussian a m s none).eval E x = .ok (a * E.T.exp (-(x - m) ^ 2 / (2 * s ^ 2))) := rfl

/-- [K = ℝ] `w` really is the full width at half maximum of the Gaussian with σ = w/(2√(2 ln 2)) -/
theorem sigma_gives_fwhm (a m w : ℝ) (hw : 0 < w) :
    a * Real.exp (-((m + w / 2) - m) ^ 2 / (2 * (sigmaOf Transc.real w) ^ 2)) = a / 2 := by
  have hlog : 0 < Real.log 2 := Real.log_pos one_lt_two
  have hsq : Real.sqrt (2 * Real.log 2) ^ 2 = 2 * Real.log 2 :=
    Real.sq_sqrt (mul_pos two_pos hlog).le
  have hs0 : Real.sqrt (2 * Real.log 2) ≠ 0 := (Real.sqrt_pos.mpr (mul_pos two_pos hlog)).ne'
  have harg : -((m + w / 2) - m) ^ 2 / (2 * (sigmaOf Transc.real w) ^ 2) = -Real.log 2 := by
    unfold sigmaOf
    simp only [Transc.real_sqrt, Transc.real_ln]
    have hw0 := hw.ne'
    have : (m + w / 2 - m) = w / 2 := by ring
    have h2 : (w / (2 * Real.sqrt (2 * Real.log 2))) ^ 2 = w ^ 2 / (4 * (2 * Real.log 2)) := by
      rw [div_pow, mul_pow, hsq]; norm_num
    rw [this, h2]
    have hl0 := hlog.ne'
    field_simp
    ring
  rw [harg, Real.exp_neg, Real.exp_log two_pos]
  ring

/-! ## ConstFlux1D and PowerLawFlux1D in the unit they were specified in -/

/-- [core] a constant-flux spectrum sampled in the unit of its amplitude is that amplitude at every
wavelength (STmag / ABmag amplitudes are stored as FLAM / FNU and come back as the magnitude) -/
theorem constflux_constant (hP : P.Pos) (hT : T.Lawful) (u : FluxUnit K) (hup : u.Pos)
    (hfd : isFluxDensity u = true) (a x p : K) (hx : 0 < x) (l : Leaf K)
    (hl : mkConstFlux P T { vals := [a], unit := some (.flux u) } = .ok l)
    (hp : l.eval { P := P, T := T } x = .ok p) :
    ofPhotlam P T (plainSamp x) u p = .ok a := by
  have hs := plainSamp_pos x hx
  have hh := hP.h; have hc := hP.c; have hst := hP.st; have hab := hP.ab
  have hhne := hh.ne'; have hcne := hc.ne'; have hxne := hx.ne'
  cases u with
  | stmag =>
    have hne : (FluxUnit.stmag : FluxUnit K) ≠ .flam := by intro h; cases h
    simp only [mkConstFlux, convertOne, if_neg hne, toPhotlam, ofPhotlam, plainSamp, bind, Except.bind, pure,
      Except.pure] at hl
    injection hl with hl; subst hl
    simp only [Leaf.eval, toPhotlam, plainSamp] at hp
    injection hp with hp; subst hp
    simp only [ofPhotlam, plainSamp]
    have hstne := hst.ne'
    have e : ofMag T a * P.stZero * 1 / (P.h * P.c) * (P.h * P.c) / 1 * x / (P.h * P.c) * (P.h * P.c) / x / P.stZero
        = ofMag T a := by field_simp
    rw [toMag_congr e, toMag_ofMag hT]
  | abmag =>
    have hne : (FluxUnit.abmag : FluxUnit K) ≠ .fnu := by intro h; cases h
    simp only [mkConstFlux, convertOne, if_neg hne, toPhotlam, ofPhotlam, plainSamp, bind, Except.bind, pure,
      Except.pure] at hl
    injection hl with hl; subst hl
    simp only [Leaf.eval, toPhotlam, plainSamp] at hp
    injection hp with hp; subst hp
    simp only [ofPhotlam, plainSamp]
    have habne := hab.ne'
    have e : ofMag T a * P.abZero * P.c / 1 ^ 2 * 1 / (P.h * P.c) * (P.h * P.c) / 1 * 1 ^ 2 / P.c * P.c / x ^ 2 * x /
        (P.h * P.c) * (P.h * P.c) / x * x ^ 2 / P.c / P.abZero = ofMag T a := by field_simp
    rw [toMag_congr e, toMag_ofMag hT]
  | count => simp [isFluxDensity] at hfd
  | obmag => simp [isFluxDensity] at hfd
  | vegamag => simp [isFluxDensity] at hfd
  | photlam =>
    simp only [mkConstFlux, isFluxDensity, if_true] at hl
    injection hl with hl; subst hl
    exact ofPhotlam_toPhotlam hP hT hs _ hup hp
  | photnu =>
    simp only [mkConstFlux, isFluxDensity, if_true] at hl
    injection hl with hl; subst hl
    exact ofPhotlam_toPhotlam hP hT hs _ hup hp
  | flam =>
    simp only [mkConstFlux, isFluxDensity, if_true] at hl
    injection hl with hl; subst hl
    exact ofPhotlam_toPhotlam hP hT hs _ hup hp
  | fnu =>
    simp only [mkConstFlux, isFluxDensity, if_true] at hl
    injection hl with hl; subst hl
    exact ofPhotlam_toPhotlam hP hT hs _ hup hp
  | jy k =>
    simp only [mkConstFlux, isFluxDensity, if_true] at hl
    injection hl with hl; subst hl
    exact ofPhotlam_toPhotlam hP hT hs _ hup hp

/-- [core] a power-law-flux spectrum sampled in the unit of its amplitude is the pure power law
`amplitude × (λ/λ₀)^(−α)` -/
theorem powerlaw_pure (hP : P.Pos) (hT : T.Lawful) (u : FluxUnit K) (hup : u.Pos) (a x0 al x p : K)
    (hx : 0 < x) (hp : (Leaf.powerLaw a x0 al u).eval { P := P, T := T } x = .ok p) :
    ofPhotlam P T (plainSamp x) u p = .ok (a * T.rpow (x / x0) (-al)) :=
  ofPhotlam_toPhotlam hP hT (plainSamp_pos x hx) u hup hp

/-! ## what is rejected -/

/-- [core] a multi-model set is refused whatever else is asked -/
theorem reject_n_models (tbl : ParamTable) (fconv : FconvTable) (keepNeg : Bool) (r : Request K)
    (h : r.nModels ≠ 1) : construct P T tbl fconv keepNeg r = .error .synphotError := by
  simp [construct, processArgs, h, bind, Except.bind]

/-- something that is not a model class is refused -/
theorem reject_not_model_class (tbl : ParamTable) (fconv : FconvTable) (keepNeg : Bool) (r : Request K)
    (h : r.isModelClass = false) : construct P T tbl fconv keepNeg r = .error .synphotError := by
  unfold construct processArgs
  by_cases hn : r.nModels ≠ 1
  · simp [hn, bind, Except.bind]
  · simp [hn, h, bind, Except.bind]

/-- [core] a model class outside `_model_param_dict` is refused -/
theorem reject_unsupported_class (tbl : ParamTable) (fconv : FconvTable) (keepNeg : Bool) (r : Request K)
    (h : tbl.lookup r.model = none) : construct P T tbl fconv keepNeg r = .error .synphotError := by
  unfold construct processArgs
  by_cases hn : r.nModels ≠ 1
  · simp [hn, bind, Except.bind]
  · by_cases hc : r.isModelClass
    · simp [hn, hc, h, bind, Except.bind]
    · simp [hn, hc, bind, Except.bind]

example : Generated.modelParamTable.lookup "Sersic1D" = none := by decide +kernel

/-- [core] on a source, an amplitude in counts, mag(OB) or mag(VEGA) — or in any unit that is not a
flux at all — is refused with `SynphotError` -/
theorem reject_non_flux_density (z : K) (w : Option (List K)) (f : List K) (u : QUnit K)
    (h : match u with | .flux fu => isFluxDensity fu = false | _ => True) :
    processFlux P T .source z w { vals := f, unit := some u } = .error .synphotError := by
  cases u with
  | flux fu => simp only at h; simp [processFlux, h]
  | _ => rfl

example (z : K) (f : List K) :
    processFlux P T .source z (some [5000]) { vals := f, unit := some (.flux .vegamag) } = .error .synphotError :=
  reject_non_flux_density z _ f _ rfl

/-- [core] a throughput with a dimension is refused with astropy's unit-conversion error -/
theorem reject_dimensioned_throughput (z : K) (w : Option (List K)) (f : List K) (u : QUnit K)
    (h : match u with | .dimensionless _ => False | _ => True) :
    processFlux P T .unitless z w { vals := f, unit := some u } = .error .unitError := by
  cases u <;> first | rfl | (simp only at h)

/-- a rejected keyword rejects the whole construction: no object is built (classes without a reference
wavelength) -/
theorem construct_rejected_noref (tbl : ParamTable) (fconv : FconvTable) (keepNeg : Bool) (r : Request K)
    (kinds : List (String × String)) (hk : tbl.lookup r.model = some kinds) (hf : fconv.lookup r.model = none)
    (p : String × Arg K) (hp : p ∈ r.args) (he : ∃ e, processOne P T r.cls r.z none kinds p = .error e) :
    ∃ e, construct P T tbl fconv keepNeg r = .error e := by
  unfold construct processArgs
  by_cases hn : r.nModels ≠ 1
  · exact ⟨.synphotError, by simp [hn, bind, Except.bind]⟩
  by_cases hc : r.isModelClass
  · obtain ⟨e, hm⟩ := mapM_error_of_mem _ r.args p hp he
    exact ⟨e, by simp [hn, hc, hk, hf, hm, bind, Except.bind]⟩
  · exact ⟨.synphotError, by simp [hn, hc, bind, Except.bind]⟩

/-- … and for classes with a reference wavelength: a rejected keyword other than the reference
parameter rejects the construction -/
theorem construct_rejected_ref (tbl : ParamTable) (fconv : FconvTable) (keepNeg : Bool) (r : Request K)
    (kinds : List (String × String)) (pw : String) (aw : Arg K) (w : List K)
    (hk : tbl.lookup r.model = some kinds) (hf : fconv.lookup r.model = some pw)
    (ha : r.args.lookup pw = some aw) (hw : processWave P aw = .ok w)
    (p : String × Arg K) (hp : p ∈ r.args) (hne : p.1 ≠ pw)
    (he : ∃ e, processOne P T r.cls r.z (some w) kinds p = .error e) :
    ∃ e, construct P T tbl fconv keepNeg r = .error e := by
  unfold construct processArgs
  by_cases hn : r.nModels ≠ 1
  · exact ⟨.synphotError, by simp [hn, bind, Except.bind]⟩
  by_cases hc : r.isModelClass
  · obtain ⟨e, hm⟩ := mapM_error_of_mem _ (popKey pw r.args) p (mem_popKey pw r.args p hp hne) he
    exact ⟨e, by simp [hn, hc, hk, hf, ha, hw, hm, bind, Except.bind]⟩
  · exact ⟨.synphotError, by simp [hn, hc, bind, Except.bind]⟩

/-- a missing reference parameter is a `KeyError` -/
theorem missing_reference (tbl : ParamTable) (fconv : FconvTable) (r : Request K) (kinds : List (String × String))
    (pw : String) (hn : r.nModels = 1) (hc : r.isModelClass = true) (hk : tbl.lookup r.model = some kinds)
    (hf : fconv.lookup r.model = some pw) (ha : r.args.lookup pw = none) :
    processArgs P T tbl fconv r = .error .lookupError := by
  simp [processArgs, hn, hc, hk, hf, ha]

/-- the own-unit classes refuse what is not a flux density with `NotImplementedError` -/
theorem constflux_rejects (a : K) (u : FluxUnit K) (h : isFluxDensity u = false) :
    mkConstFlux P T { vals := [a], unit := some (.flux u) } = .error .notImplemented := by
  cases u <;> simp [isFluxDensity] at h <;> simp [mkConstFlux, isFluxDensity]

/-! ## non-vacuity -/

/-- a Gaussian with its amplitude in FLAM and its centre in nanometres, redshift 1/2: the keywords the
model class receives are the centre in Angstrom and the amplitude in PHOTLAM at 1.5 × the centre -/
example (P : PhysConst ℚ) (T : Transc ℚ) :
    processArgs P T Generated.modelParamTable Generated.modelFconvWav
      { cls := .source, z := 1 / 2, isModelClass := true, model := "Gaussian1D", nModels := 1,
        args := [("amplitude", { vals := [3], unit := some (.flux .flam) }),
                 ("mean", { vals := [500], unit := some (.length 10) }), ("stddev", Arg.num [20])] } =
      .ok [("mean", Arg.num [500 * 10]), ("amplitude", Arg.num [3 * (500 * 10 * (1 + 1 / 2)) / (P.h * P.c)]),
           ("stddev", Arg.num [20])] := by
  have hl : Generated.modelParamTable.lookup "Gaussian1D" =
      some [("amplitude", "flux"), ("mean", "wave"), ("stddev", "wave")] := by decide +kernel
  have hf : Generated.modelFconvWav.lookup "Gaussian1D" = some "mean" := by decide +kernel
  have hne : (FluxUnit.flam : FluxUnit ℚ) ≠ .photlam := by intro h; cases h
  simp [needsInvLam, processArgs, hl, hf, processOne, List.lookup, processWave, Arg.num, processFlux, isFluxDensity,
    convertAtRef, convertFlux, hne, countFactorsFor, FluxUnit.needsArea, mkSamples, convertAll, convertOne,
    toPhotlam, ofPhotlam, waveToAA, WaveUnit.toAngstrom, popKey, Except.map, bind, Except.bind, pure, Except.pure]

end Synphot.C15
