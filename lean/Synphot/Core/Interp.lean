/-
  Synphot.Core.Interp — `models.Empirical1D` (synphot/models.py:315-451): table
  construction (order, negative clipping, fill value), linear interpolation as
  `scipy.interpolate.interpn` performs it, nearest-end extrapolation, `is_tapered`;
  and `BaseSpectrum.taper` / `force_extrapolation` on a table (spectrum.py:624-702).
-/
import Synphot.Core.Basic

namespace Synphot
variable {K : Type} [Field K] [LinearOrder K] [IsStrictOrderedRing K]

/-- state of an `Empirical1D` after `__init__`: ascending points, processed values,
`keep_neg` flag and the fill rule (`fill_value is np.nan` ↔ `fillNaN`) -/
structure Table (K : Type) where
  pts : List K
  vals : List K
  keepNeg : Bool
  fillNaN : Bool
  deriving Repr

/-- `_process_neg_flux` on an array: clipped values and whether a warning was recorded -/
def clipNeg (keepNeg : Bool) (y : List K) : List K × Bool :=
  if keepNeg then (y, false)
  else (y.map (fun v => if v < 0 then 0 else v), y.any (fun v => decide (v < 0)))

/-- `lookup_table[::size-1] == [0, 0]` -/
def endsZero (y : List K) : Bool :=
  match y.head?, y.getLast? with
  | some a, some b => decide (a = 0) && decide (b = 0)
  | _, _ => false

/-- `x[-1] < x[0]` -/
def isDesc (x : List K) : Bool :=
  match x.head?, x.getLast? with
  | some a, some b => decide (b < a)
  | _, _ => false

/-- `Empirical1D(points=x, lookup_table=y, keep_neg=…)`; second component: `'NegativeFlux'`
warning recorded. -/
def mkTable (x y : List K) (keepNeg : Bool) : Table K × Bool :=
  let x' := if isDesc x then x.reverse else x
  let y' := if isDesc x then y.reverse else y
  let yc := clipNeg keepNeg y'
  ({ pts := x', vals := yc.1, keepNeg := keepNeg, fillNaN := !endsZero yc.1 }, yc.2)

def Table.isTapered (t : Table K) : Bool := endsZero t.vals

/-- linear interpolation on ascending knots for `x₀ ≤ x ≤ xₙ`
(`y₀ (1−t) + y₁ t` with `t = (x − x₀)/(x₁ − x₀)` on the bracketing interval) -/
def interpAsc : List K → List K → K → K
  | x0 :: x1 :: xs, y0 :: y1 :: ys, x =>
      if x ≤ x1 then let t := (x - x0) / (x1 - x0); y0 * (1 - t) + y1 * t
      else interpAsc (x1 :: xs) (y1 :: ys) x
  | _, y0 :: _, _ => y0
  | _, _, _ => 0

/-- `Empirical1D.evaluate` at one wavelength -/
def Table.eval (t : Table K) (x : K) : K :=
  let x0 := t.pts.headD 0
  let xn := t.pts.getLastD 0
  let raw :=
    if x < x0 then (if t.fillNaN then t.vals.headD 0 else 0)
    else if x > xn then (if t.fillNaN then t.vals.getLastD 0 else 0)
    else interpAsc t.pts t.vals x
  if t.keepNeg then raw else (if raw < 0 then 0 else raw)

/-- `force_extrapolation` on an `Empirical1D` -/
def Table.forceExtrap (t : Table K) : Table K := { t with fillNaN := true }

/-- `BaseSpectrum.taper` when the underlying model is a table, sampled on the ascending
grid `x` (the table's own points when no wavelengths are given); `f` is the sampled function
(the spectrum itself, redshift included).  Returns `none` when the spectrum itself is returned
(both end values already zero).  The new table is built with the constructor's defaults,
i.e. `keep_neg=False`. -/
def taperPts (x : List K) (first last : K) (f : K → K) : Option (List K × List K) :=
  match x with
  | x0 :: x1 :: _ =>
    let xl := x.getLastD x0
    let xl2 := (x.dropLast).getLastD x0
    let w1 := x0 ^ 2 / x1
    let w2 := xl ^ 2 / xl2
    if first = 0 ∧ last = 0 then none
    else
      let y := x.map f
      let (xa, ya) := if first ≠ 0 then (w1 :: x, (0 : K) :: y) else (x, y)
      let (xb, yb) := if last ≠ 0 then (xa ++ [w2], ya ++ [0]) else (xa, ya)
      some (xb, yb)
  | _ => none

/-- `taper()` (no wavelengths) of a spectrum whose model is this table at z = 0: the tapered table, or
`none` when the spectrum itself is returned; the table's `keep_neg` flag is propagated (9c64e64) -/
def Table.taper (t : Table K) : Option (Table K) :=
  match taperPts t.pts (t.vals.headD 0) (t.vals.getLastD 0) t.eval with
  | none => none
  | some (px, py) => some (mkTable px py t.keepNeg).1

end Synphot
