/-
  Synphot.Lemmas.PixRange — lemma library for C18: Python indexing on in-range indices, searchsorted as
  takeWhile length, np.modf, the padded bins, and the normal forms of pixel_range / wave_range on valid bins.
-/
import Mathlib.Tactic.Ring
import Mathlib.Tactic.FieldSimp
import Mathlib.Tactic.Linarith
import Mathlib.Tactic.Push
import Mathlib.Algebra.Order.Floor.Ring
import Synphot.Core.PixRange
import Synphot.Lemmas.Binning

set_option linter.unusedSectionVars false
set_option linter.unusedSimpArgs false

namespace Synphot
variable {K : Type} [Field K] [LinearOrder K] [IsStrictOrderedRing K]

/-! ### the `Except` monad, concretely -/
@[simp] theorem ok_bind {α β : Type} (a : α) (f : α → Except Err β) : (Except.ok a >>= f) = f a := rfl
@[simp] theorem error_bind {α β : Type} (e : Err) (f : α → Except Err β) :
    ((Except.error e : Except Err α) >>= f) = .error e := rfl
@[simp] theorem throw_eq {α : Type} (e : Err) : (throw e : Except Err α) = .error e := rfl
@[simp] theorem pure_eq {α : Type} (a : α) : (pure a : Except Err α) = .ok a := rfl

/-! ### Python indexing on in-range indices -/
theorem pyIndex_nat {α : Type} (l : List α) (k : Nat) (h : k < l.length) (d : α) :
    pyIndex l (k : Int) = .ok (l.getD k d) := by
  unfold pyIndex
  have h1 : ¬ ((k : Int) < 0) := by omega
  simp only [h1, if_false, false_or]
  rw [if_neg (by omega)]
  simp only [Int.toNat_natCast]
  rw [List.getElem?_eq_getElem h, List.getD_eq_getElem?_getD, List.getElem?_eq_getElem h]
  rfl

theorem pyIndex_zero {α : Type} (l : List α) (h : 0 < l.length) (d : α) :
    pyIndex l 0 = .ok (l.getD 0 d) := by
  have := pyIndex_nat l 0 h d
  simpa using this

theorem pyIndex_one {α : Type} (l : List α) (h : 1 < l.length) (d : α) :
    pyIndex l 1 = .ok (l.getD 1 d) := by
  have := pyIndex_nat l 1 h d
  simpa using this

theorem pyIndex_pred {α : Type} (l : List α) (k : Nat) (h0 : 1 ≤ k) (h : k ≤ l.length) (d : α) :
    pyIndex l ((k : Int) - 1) = .ok (l.getD (k - 1) d) := by
  have := pyIndex_nat l (k - 1) (by omega) d
  rw [← this]; congr 1; omega

theorem pyIndex_neg {α : Type} (l : List α) (k : Nat) (h0 : 1 ≤ k) (h : k ≤ l.length) (d : α) :
    pyIndex l (-(k : Int)) = .ok (l.getD (l.length - k) d) := by
  unfold pyIndex
  have h1 : (-(k : Int) < 0) := by omega
  simp only [h1, if_true]
  have h2 : ¬ (-(k : Int) + (l.length : Int) < 0 ∨ (l.length : Int) ≤ -(k : Int) + (l.length : Int)) := by omega
  simp only [h2, if_false]
  have h3 : (-(k : Int) + (l.length : Int)).toNat = l.length - k := by omega
  have h4 : l.length - k < l.length := by omega
  rw [h3, List.getElem?_eq_getElem h4, List.getD_eq_getElem?_getD, List.getElem?_eq_getElem h4]
  rfl

theorem pyIndex_neg_one {α : Type} (l : List α) (h : 1 ≤ l.length) (d : α) :
    pyIndex l (-1) = .ok (l.getD (l.length - 1) d) := by
  have := pyIndex_neg l 1 (le_refl _) h d
  simpa using this

theorem pyIndex_neg_two {α : Type} (l : List α) (h : 2 ≤ l.length) (d : α) :
    pyIndex l (-2) = .ok (l.getD (l.length - 2) d) := by
  have := pyIndex_neg l 2 (by omega) h d
  simpa using this

theorem pyClip_nat (n k : Nat) (h : k ≤ n) : pyClip n (k : Int) = k := by
  unfold pyClip
  have h1 : ¬ ((k : Int) < 0) := by omega
  have h2 : ¬ ((n : Int) < (k : Int)) := by omega
  simp [h1, h2]

/-- `l[k:k+2].mean()` of two in-range elements -/
theorem sliceMean_two (l : List K) (k : Nat) (h : k + 1 < l.length) :
    sliceMean l (k : Int) ((k : Int) + 2) = .ok ((l.getD k 0 + l.getD (k + 1) 0) / 2) := by
  unfold sliceMean pySlice
  have e2 : ((k : Int) + 2) = ((k + 2 : Nat) : Int) := by push_cast; ring
  rw [e2, pyClip_nat _ k (by omega), pyClip_nat _ (k + 2) (by omega)]
  dsimp only
  have hk : k < l.length := by omega
  rw [List.drop_eq_getElem_cons hk, List.drop_eq_getElem_cons h]
  have : k + 2 - k = 2 := by omega
  rw [this]
  simp only [List.take_succ_cons, List.take_zero, meanOf, List.isEmpty_cons, Bool.false_eq_true, if_false,
    List.sum_cons, List.sum_nil, List.length_cons, List.length_nil]
  rw [List.getD_eq_getElem?_getD, List.getD_eq_getElem?_getD, List.getElem?_eq_getElem hk, List.getElem?_eq_getElem h]
  simp only [Option.getD_some]
  norm_num


/-! ### `takeWhile` length = `searchsorted` -/
theorem tw_le_length {α : Type} (p : α → Bool) (l : List α) : (l.takeWhile p).length ≤ l.length := by
  induction l with
  | nil => simp
  | cons a t ih =>
    simp only [List.takeWhile_cons]
    split
    · simp only [List.length_cons]; omega
    · simp

theorem tw_lt {α : Type} (p : α → Bool) (d : α) (l : List α) :
    ∀ j, j < (l.takeWhile p).length → p (l.getD j d) = true := by
  induction l with
  | nil => intro j hj; simp at hj
  | cons a t ih =>
    intro j hj
    simp only [List.takeWhile_cons] at hj
    by_cases hp : p a = true
    · simp only [hp, if_true, List.length_cons] at hj
      cases j with
      | zero => simpa using hp
      | succ j => simpa using ih j (by omega)
    · simp [hp] at hj

theorem tw_stop {α : Type} (p : α → Bool) (d : α) (l : List α) :
    (l.takeWhile p).length < l.length → p (l.getD (l.takeWhile p).length d) = false := by
  induction l with
  | nil => intro h; simp at h
  | cons a t ih =>
    intro h
    simp only [List.takeWhile_cons] at h ⊢
    by_cases hp : p a = true
    · simp only [hp, if_true, List.length_cons] at h ⊢
      simpa using ih (by omega)
    · simp only [hp, Bool.false_eq_true, if_false, List.length_nil] at h ⊢
      simpa using hp

theorem tw_mono {α : Type} (p q : α → Bool) (hpq : ∀ x, p x = true → q x = true) (l : List α) :
    (l.takeWhile p).length ≤ (l.takeWhile q).length := by
  induction l with
  | nil => simp
  | cons a t ih =>
    simp only [List.takeWhile_cons]
    by_cases hp : p a = true
    · simp only [hp, hpq a hp, if_true, List.length_cons]; omega
    · simp [hp]

theorem searchLeft_le_length (l : List K) (v : K) : searchLeft l v ≤ l.length := tw_le_length _ l
theorem searchRight_le_length (l : List K) (v : K) : searchRight l v ≤ l.length := tw_le_length _ l

/-- every element before the insertion point is `< v` … -/
theorem searchLeft_lt (l : List K) (v d : K) (j : Nat) (hj : j < searchLeft l v) : l.getD j d < v := by
  have := tw_lt (fun x => decide (x < v)) d l j hj
  simpa using this

/-- … and the element at the insertion point is `≥ v` -/
theorem searchLeft_ge (l : List K) (v d : K) (h : searchLeft l v < l.length) :
    v ≤ l.getD (searchLeft l v) d := by
  have := tw_stop (fun x => decide (x < v)) d l h
  simpa [searchLeft] using this

theorem searchRight_le (l : List K) (v d : K) (j : Nat) (hj : j < searchRight l v) : l.getD j d ≤ v := by
  have := tw_lt (fun x => decide (x ≤ v)) d l j hj
  simpa using this

theorem searchRight_gt (l : List K) (v d : K) (h : searchRight l v < l.length) :
    v < l.getD (searchRight l v) d := by
  have := tw_stop (fun x => decide (x ≤ v)) d l h
  simpa [searchRight] using this

theorem searchLeft_mono (l : List K) (v v' : K) (h : v ≤ v') : searchLeft l v ≤ searchLeft l v' :=
  tw_mono _ _ (fun x hx => by simp at hx ⊢; exact lt_of_lt_of_le hx h) l

theorem searchRight_mono (l : List K) (v v' : K) (h : v ≤ v') : searchRight l v ≤ searchRight l v' :=
  tw_mono _ _ (fun x hx => by simp at hx ⊢; exact le_trans hx h) l

theorem searchLeft_le_searchRight (l : List K) (v : K) : searchLeft l v ≤ searchRight l v :=
  tw_mono _ _ (fun x hx => by simp at hx ⊢; exact le_of_lt hx) l

/-- an element `≥ v` at position `k` bounds the insertion point -/
theorem searchLeft_le_of (l : List K) (v d : K) (k : Nat) (h : v ≤ l.getD k d) : searchLeft l v ≤ k := by
  by_contra hc
  have := searchLeft_lt l v d k (by omega)
  exact absurd this (not_lt.mpr h)

theorem searchRight_le_of (l : List K) (v d : K) (k : Nat) (h : v < l.getD k d) : searchRight l v ≤ k := by
  by_contra hc
  have := searchRight_le l v d k (by omega)
  exact absurd this (not_le.mpr h)

/-- an element `< v` at position `k`, all earlier ones being `< v` too … (here: position 0) -/
theorem searchLeft_pos (l : List K) (v d : K) (hl : 0 < l.length) (h : l.getD 0 d < v) : 1 ≤ searchLeft l v := by
  by_contra hc
  have h0 : searchLeft l v = 0 := by omega
  have := searchLeft_ge l v d (by omega)
  rw [h0] at this
  exact absurd h (not_lt.mpr this)

theorem searchRight_pos (l : List K) (v d : K) (hl : 0 < l.length) (h : l.getD 0 d ≤ v) : 1 ≤ searchRight l v := by
  by_contra hc
  have h0 : searchRight l v = 0 := by omega
  have := searchRight_gt l v d (by omega)
  rw [h0] at this
  exact absurd h (not_le.mpr this)

/-! ### `np.modf` / `int()` -/
section Floor
variable [FloorRing K]

theorem truncZ_of_nonneg (x : K) (h : 0 ≤ x) : truncZ x = ⌊x⌋ := by simp [truncZ, h]

theorem fracZ_of_nonneg (x : K) (h : 0 ≤ x) : fracZ x = Int.fract x := by
  simp only [fracZ, truncZ, h, if_true, Int.fract]

theorem fracZ_nonneg (x : K) (h : 0 ≤ x) : 0 ≤ fracZ x := by
  rw [fracZ_of_nonneg x h]; exact Int.fract_nonneg x

theorem fracZ_lt_one (x : K) (h : 0 ≤ x) : fracZ x < 1 := by
  rw [fracZ_of_nonneg x h]; exact Int.fract_lt_one x

theorem truncZ_add_fracZ (x : K) : (truncZ x : K) + fracZ x = x := by simp [fracZ]

theorem truncZ_nonneg (x : K) (h : 0 ≤ x) : 0 ≤ truncZ x := by
  rw [truncZ_of_nonneg x h]; exact Int.floor_nonneg.mpr h

theorem truncZ_mono_nonneg (x y : K) (hx : 0 ≤ x) (hxy : x ≤ y) : truncZ x ≤ truncZ y := by
  rw [truncZ_of_nonneg x hx, truncZ_of_nonneg y (le_trans hx hxy)]
  exact Int.floor_le_floor hxy

/-- in `(-1, 0)` truncation gives `0` and the fractional part is the (negative) number itself -/
theorem truncZ_of_neg (x : K) (h0 : x < 0) (h1 : -1 < x) : truncZ x = 0 := by
  have : ¬ (0 ≤ x) := not_le.mpr h0
  simp only [truncZ, this, if_false]
  rw [Int.ceil_eq_iff]
  constructor
  · simpa using h1
  · simpa using le_of_lt h0

theorem fracZ_of_neg (x : K) (h0 : x < 0) (h1 : -1 < x) : fracZ x = x := by
  simp [fracZ, truncZ_of_neg x h0 h1]

end Floor


/-! ### strictly increasing lists by index -/
theorem strictAsc_getD_lt (l : List K) (h : StrictAsc l) (i j : Nat) (hij : i < j) (hj : j < l.length) (d : K) :
    l.getD i d < l.getD j d := by
  rw [strictAsc_iff_chain, List.isChain_iff_pairwise, List.pairwise_iff_getElem] at h
  have := h i j (by omega) hj hij
  rw [List.getD_eq_getElem?_getD, List.getD_eq_getElem?_getD, List.getElem?_eq_getElem hj,
    List.getElem?_eq_getElem (by omega : i < l.length)]
  simpa using this

theorem strictAsc_getD_le (l : List K) (h : StrictAsc l) (i j : Nat) (hij : i ≤ j) (hj : j < l.length) (d : K) :
    l.getD i d ≤ l.getD j d := by
  rcases Nat.lt_or_eq_of_le hij with h1 | h1
  · exact le_of_lt (strictAsc_getD_lt l h i j h1 hj d)
  · subst h1; exact le_refl _

theorem strictAsc_of_getD (l : List K) (h : ∀ i, i + 1 < l.length → l.getD i 0 < l.getD (i + 1) 0) :
    StrictAsc l := by
  rw [strictAsc_iff_chain, List.isChain_iff_getElem]
  intro i hi
  have := h i hi
  rw [List.getD_eq_getElem?_getD, List.getD_eq_getElem?_getD, List.getElem?_eq_getElem hi,
    List.getElem?_eq_getElem (by omega : i < l.length)] at this
  simpa using this

/-! ### the bins the two functions work on -/

/-- lower outer bin edge `bins[0] - (bins[0:2].mean() - bins[0])` -/
def minWave (bins : List K) : K :=
  bins.getD 0 0 - ((bins.getD 0 0 + bins.getD 1 0) / 2 - bins.getD 0 0)

/-- upper outer bin edge `bins[-1] + (bins[-1] - bins[-2:].mean())` -/
def maxWave (bins : List K) : K :=
  bins.getD (bins.length - 1) 0 +
    (bins.getD (bins.length - 1) 0 - (bins.getD (bins.length - 2) 0 + bins.getD (bins.length - 1) 0) / 2)

/-- the padded array, as a total function of the bins -/
def padded (bins : List K) : List K :=
  (2 * bins.getD 0 0 - bins.getD 1 0) :: bins ++
    [2 * bins.getD (bins.length - 1) 0 - bins.getD (bins.length - 2) 0]

theorem padded_length (bins : List K) : (padded bins).length = bins.length + 2 := by
  simp [padded]

theorem padded_getD_zero (bins : List K) (d : K) :
    (padded bins).getD 0 d = 2 * bins.getD 0 0 - bins.getD 1 0 := by
  simp [padded]

theorem padded_getD_succ (bins : List K) (i : Nat) (hi : i < bins.length) (d : K) :
    (padded bins).getD (i + 1) d = bins.getD i 0 := by
  simp only [padded, List.cons_append, List.getD_eq_getElem?_getD, List.getElem?_cons_succ]
  rw [List.getElem?_append_left hi]
  rw [List.getElem?_eq_getElem hi]
  rfl

theorem padded_getD_last (bins : List K) (d : K) :
    (padded bins).getD (bins.length + 1) d =
      2 * bins.getD (bins.length - 1) 0 - bins.getD (bins.length - 2) 0 := by
  simp only [padded, List.cons_append, List.getD_eq_getElem?_getD, List.getElem?_cons_succ]
  rw [List.getElem?_append_right (le_refl _)]
  simp

theorem padded_strictAsc (bins : List K) (h : StrictAsc bins) (h2 : 2 ≤ bins.length) :
    StrictAsc (padded bins) := by
  apply strictAsc_of_getD
  intro i hi
  rw [padded_length] at hi
  rcases Nat.eq_zero_or_pos i with h0 | h0
  · subst h0
    rw [padded_getD_zero, padded_getD_succ bins 0 (by omega)]
    have := strictAsc_getD_lt bins h 0 1 (by omega) (by omega) 0
    linarith
  · obtain ⟨k, rfl⟩ : ∃ k, i = k + 1 := ⟨i - 1, by omega⟩
    rw [padded_getD_succ bins k (by omega)]
    by_cases hk : k + 1 < bins.length
    · rw [padded_getD_succ bins (k + 1) hk]
      exact strictAsc_getD_lt bins h k (k + 1) (by omega) hk 0
    · have hk' : k + 1 = bins.length := by omega
      rw [hk', padded_getD_last]
      have hk2 : k = bins.length - 1 := by omega
      rw [hk2]
      have := strictAsc_getD_lt bins h (bins.length - 2) (bins.length - 1) (by omega) (by omega) 0
      linarith

theorem ascBins_of_strictAsc (bins : List K) (h : StrictAsc bins) (h1 : 1 ≤ bins.length) :
    ascBins bins = .ok bins := by
  unfold ascBins
  rw [pyIndex_zero bins (by omega) 0, pyIndex_neg_one bins h1 0]
  simp only [ok_bind, pure_eq]
  have := strictAsc_getD_le bins h 0 (bins.length - 1) (by omega) (by omega) 0
  rw [if_neg (not_lt.mpr this)]

theorem ascBins_of_strictDesc (bins : List K) (h : StrictDesc bins) (h2 : 2 ≤ bins.length) :
    ascBins bins = .ok bins.reverse := by
  unfold ascBins
  rw [pyIndex_zero bins (by omega) 0, pyIndex_neg_one bins (by omega) 0]
  simp only [ok_bind, pure_eq]
  have hr : StrictAsc bins.reverse := (strictAsc_reverse bins).mpr h
  have := strictAsc_getD_lt bins.reverse hr 0 (bins.length - 1) (by omega) (by simp; omega) 0
  have e1 : bins.reverse.getD 0 0 = bins.getD (bins.length - 1) 0 := by
    simp only [List.getD_eq_getElem?_getD]
    rw [List.getElem?_reverse (by omega)]
    congr 2
  have e2 : bins.reverse.getD (bins.length - 1) 0 = bins.getD 0 0 := by
    simp only [List.getD_eq_getElem?_getD]
    rw [List.getElem?_reverse (by omega)]
    congr 2; omega
  rw [e1, e2] at this
  rw [if_pos this]

theorem padBins_eq (bins : List K) (h2 : 2 ≤ bins.length) : padBins bins = .ok (padded bins) := by
  unfold padBins padded
  rw [pyIndex_zero bins (by omega) 0, pyIndex_one bins (by omega) 0, pyIndex_neg_one bins (by omega) 0,
    pyIndex_neg_two bins h2 0]
  rfl

theorem sliceMean_first (bins : List K) (h2 : 2 ≤ bins.length) :
    sliceMean bins 0 2 = .ok ((bins.getD 0 0 + bins.getD 1 0) / 2) := by
  have := sliceMean_two bins 0 (by omega)
  simpa using this

theorem sliceMean_last (bins : List K) (h2 : 2 ≤ bins.length) :
    sliceMean bins (-2) (bins.length : Int) =
      .ok ((bins.getD (bins.length - 2) 0 + bins.getD (bins.length - 1) 0) / 2) := by
  have := sliceMean_two bins (bins.length - 2) (by omega)
  have e : bins.length - 2 + 1 = bins.length - 1 := by omega
  rw [e] at this
  rw [← this]
  have c1 : pyClip bins.length (-2) = bins.length - 2 := by
    unfold pyClip
    have a1 : ((-2 : Int) < 0) := by omega
    have a2 : ¬ ((-2 : Int) + (bins.length : Int) < 0) := by omega
    have a3 : ¬ ((bins.length : Int) < (-2 : Int) + (bins.length : Int)) := by omega
    simp only [a1, a2, a3, if_true, if_false]
    omega
  have c2 : pyClip bins.length ((bins.length - 2 : Nat) : Int) = bins.length - 2 :=
    pyClip_nat _ _ (by omega)
  have e3 : ((bins.length - 2 : Nat) : Int) + 2 = (bins.length : Int) := by omega
  unfold sliceMean pySlice
  rw [e3, c1, c2]


theorem divE_ok (a b : K) (hb : b ≠ 0) : divE a b = .ok (a / b) := by simp [divE, hb]

theorem padded_first_lt_minWave (bins : List K) (h : StrictAsc bins) (h2 : 2 ≤ bins.length) (d : K) :
    (padded bins).getD 0 d < minWave bins := by
  rw [padded_getD_zero]
  have := strictAsc_getD_lt bins h 0 1 (by omega) (by omega) 0
  unfold minWave
  linarith

theorem maxWave_lt_padded_last (bins : List K) (h : StrictAsc bins) (h2 : 2 ≤ bins.length) (d : K) :
    maxWave bins < (padded bins).getD (bins.length + 1) d := by
  rw [padded_getD_last]
  have := strictAsc_getD_lt bins h (bins.length - 2) (bins.length - 1) (by omega) (by omega) 0
  unfold maxWave
  linarith

/-- index validity of `searchsorted(side='left')` on the padded bins: `1 ≤ ind ≤ n+1` and
`pb[ind-1] < w ≤ pb[ind]` -/
theorem searchLeft_padded (bins : List K) (h : StrictAsc bins) (h2 : 2 ≤ bins.length) (w : K)
    (hlo : minWave bins ≤ w) (hhi : w ≤ maxWave bins) :
    1 ≤ searchLeft (padded bins) w ∧ searchLeft (padded bins) w ≤ bins.length + 1 ∧
    (padded bins).getD (searchLeft (padded bins) w - 1) 0 < w ∧
    w ≤ (padded bins).getD (searchLeft (padded bins) w) 0 := by
  have h1 : 1 ≤ searchLeft (padded bins) w :=
    searchLeft_pos _ w 0 (by rw [padded_length]; omega)
      (lt_of_lt_of_le (padded_first_lt_minWave bins h h2 0) hlo)
  have h3 : searchLeft (padded bins) w ≤ bins.length + 1 :=
    searchLeft_le_of _ w 0 _ (le_trans hhi (le_of_lt (maxWave_lt_padded_last bins h h2 0)))
  refine ⟨h1, h3, searchLeft_lt _ w 0 _ (by omega), searchLeft_ge _ w 0 (by rw [padded_length]; omega)⟩

theorem searchRight_padded (bins : List K) (h : StrictAsc bins) (h2 : 2 ≤ bins.length) (w : K)
    (hlo : minWave bins ≤ w) (hhi : w ≤ maxWave bins) :
    1 ≤ searchRight (padded bins) w ∧ searchRight (padded bins) w ≤ bins.length + 1 := by
  have h1 : 1 ≤ searchRight (padded bins) w :=
    searchRight_pos _ w 0 (by rw [padded_length]; omega)
      (le_of_lt (lt_of_lt_of_le (padded_first_lt_minWave bins h h2 0) hlo))
  have h3 : searchRight (padded bins) w ≤ bins.length + 1 :=
    searchRight_le_of _ w 0 _ (lt_of_le_of_lt hhi (maxWave_lt_padded_last bins h h2 0))
  exact ⟨h1, h3⟩

/-- left and right neighbour of `w` in `pb` (`bins[ind-1]`, `bins[ind]` of the code) -/
def loB (pb : List K) (w : K) : K := pb.getD (searchLeft pb w - 1) 0
def hiB (pb : List K) (w : K) : K := pb.getD (searchLeft pb w) 0

/-- what `pixel_range` returns once every lookup and division has succeeded -/
def pixCount (pb : List K) (w1 w2 : K) : Mode → K
  | .round => (((searchRight pb w2 : Int) - (searchRight pb w1 : Int) : Int) : K)
  | .min =>
      let i1 : Int := searchLeft pb w1
      let i2 : Int := searchLeft pb w2
      let f1 := (hiB pb w1 - w1) / (hiB pb w1 - loB pb w1)
      let i1' := if f1 < 1/2 then i1 + 1 else i1
      let f2 := (w2 - loB pb w2) / (hiB pb w2 - loB pb w2)
      let i2' := if f2 < 1/2 then i2 - 1 else i2
      ((max (i2' - i1') 0 : Int) : K)
  | .max =>
      let i1 : Int := searchLeft pb w1
      let i2 : Int := searchLeft pb w2
      let f1 := (w1 - loB pb w1) / (hiB pb w1 - loB pb w1)
      let i1' := if f1 < 1/2 then i1 - 1 else i1
      let f2 := (hiB pb w2 - w2) / (hiB pb w2 - loB pb w2)
      let i2' := if f2 < 1/2 then i2 + 1 else i2
      ((i2' - i1' : Int) : K)
  | .none =>
      ((searchLeft pb w2 : Int) : K) - (hiB pb w2 - w2) / (hiB pb w2 - loB pb w2) -
        (((searchLeft pb w1 : Int) : K) - (hiB pb w1 - w1) / (hiB pb w1 - loB pb w1))

/-- `pixel_range` on ascending bins, limits already ordered: the three outcomes -/
theorem pixelRange_asc_lt (bins : List K) (h : StrictAsc bins) (h2 : 2 ≤ bins.length) (w1 w2 : K)
    (h12 : w1 < w2) (mode : Mode) :
    pixelRange bins w1 w2 mode =
      if w1 < minWave bins ∨ w2 > maxWave bins then .error .overlapError
      else .ok (pixCount (padded bins) w1 w2 mode) := by
  unfold pixelRange
  simp only [if_pos h12]
  rw [ascBins_of_strictAsc bins h (by omega)]
  simp only [ok_bind]
  rw [pyIndex_zero bins (by omega) 0, pyIndex_neg_one bins (by omega) 0, sliceMean_first bins h2,
    sliceMean_last bins h2]
  simp only [ok_bind]
  by_cases hout : w1 < minWave bins ∨ w2 > maxWave bins
  · rw [if_pos hout]
    unfold minWave maxWave at hout
    rw [if_pos hout]
    rfl
  · rw [if_neg hout]
    have hout' := hout
    unfold minWave maxWave at hout'
    rw [if_neg hout', if_neg (ne_of_lt h12), padBins_eq bins h2]
    simp only [ok_bind]
    rw [not_or, not_lt, not_lt] at hout
    obtain ⟨hlo, hhi⟩ := hout
    obtain ⟨a1, a2, a3, a4⟩ := searchLeft_padded bins h h2 w1 hlo (le_trans (le_of_lt h12) hhi)
    obtain ⟨b1, b2, b3, b4⟩ := searchLeft_padded bins h h2 w2 (le_trans hlo (le_of_lt h12)) hhi
    have hlen := padded_length bins
    have hI1 := pyIndex_nat (padded bins) (searchLeft (padded bins) w1) (by omega) 0
    have hI1m := pyIndex_pred (padded bins) (searchLeft (padded bins) w1) a1 (by omega) 0
    have hI2 := pyIndex_nat (padded bins) (searchLeft (padded bins) w2) (by omega) 0
    have hI2m := pyIndex_pred (padded bins) (searchLeft (padded bins) w2) b1 (by omega) 0
    have hd1 : (padded bins).getD (searchLeft (padded bins) w1) 0 -
        (padded bins).getD (searchLeft (padded bins) w1 - 1) 0 ≠ 0 := by
      intro h0; linarith
    have hd2 : (padded bins).getD (searchLeft (padded bins) w2) 0 -
        (padded bins).getD (searchLeft (padded bins) w2 - 1) 0 ≠ 0 := by
      intro h0; linarith
    cases mode with
    | round => simp [pixCount]
    | min =>
      simp only [reduceCtorEq, if_false, hI1, hI1m, hI2, hI2m, ok_bind, divE_ok _ _ hd1, divE_ok _ _ hd2,
        pure_eq, pixCount, loB, hiB]
      rfl
    | max =>
      simp only [reduceCtorEq, if_false, hI1, hI1m, hI2, hI2m, ok_bind, divE_ok _ _ hd1, divE_ok _ _ hd2,
        pure_eq, pixCount, loB, hiB]
      rfl
    | none =>
      simp only [reduceCtorEq, if_false, hI1, hI1m, hI2, hI2m, ok_bind, divE_ok _ _ hd1, divE_ok _ _ hd2,
        pure_eq, pixCount, loB, hiB]


theorem ordPair_swap (a b : K) :
    (if a < b then (a, b) else (b, a)) = (if b < a then (b, a) else (a, b)) := by
  rcases lt_trichotomy a b with h | h | h
  · rw [if_pos h, if_neg (not_lt.mpr (le_of_lt h))]
  · subst h; simp
  · rw [if_neg (not_lt.mpr (le_of_lt h)), if_pos h]

/-- reversing the two limits gives the same result (any bins, any mode) -/
theorem pixelRange_swap (bins : List K) (a b : K) (mode : Mode) :
    pixelRange bins a b mode = pixelRange bins b a mode := by
  unfold pixelRange
  rw [ordPair_swap a b]

/-- `pixel_range` sees its bins only through the ascending copy -/
theorem pixelRange_congr_ascBins (b1 b2 : List K) (h : ascBins b1 = ascBins b2) (a b : K) (mode : Mode) :
    pixelRange b1 a b mode = pixelRange b2 a b mode := by
  unfold pixelRange
  rw [h]

theorem pixelRange_asc_eq (bins : List K) (h : StrictAsc bins) (h2 : 2 ≤ bins.length) (w : K) (mode : Mode) :
    pixelRange bins w w mode =
      if w < minWave bins ∨ w > maxWave bins then .error .overlapError else .ok 0 := by
  unfold pixelRange
  simp only [lt_irrefl, if_false]
  rw [ascBins_of_strictAsc bins h (by omega)]
  simp only [ok_bind]
  rw [pyIndex_zero bins (by omega) 0, pyIndex_neg_one bins (by omega) 0, sliceMean_first bins h2,
    sliceMean_last bins h2]
  simp only [ok_bind]
  by_cases hout : w < minWave bins ∨ w > maxWave bins
  · rw [if_pos hout]
    unfold minWave maxWave at hout
    rw [if_pos hout]
    rfl
  · rw [if_neg hout]
    unfold minWave maxWave at hout
    rw [if_neg hout]
    simp

/-- `pixel_range` on valid ascending bins: complete description of the outcome -/
theorem pixelRange_asc (bins : List K) (h : StrictAsc bins) (h2 : 2 ≤ bins.length) (a b : K) (mode : Mode) :
    pixelRange bins a b mode =
      if min a b < minWave bins ∨ max a b > maxWave bins then .error .overlapError
      else if a = b then .ok 0
      else .ok (pixCount (padded bins) (min a b) (max a b) mode) := by
  rcases lt_trichotomy a b with hab | hab | hab
  · rw [pixelRange_asc_lt bins h h2 a b hab, min_eq_left (le_of_lt hab), max_eq_right (le_of_lt hab),
      if_neg (ne_of_lt hab)]
  · subst hab
    rw [pixelRange_asc_eq bins h h2 a, min_self, max_self]
    simp
  · rw [pixelRange_swap, pixelRange_asc_lt bins h h2 b a hab, min_eq_right (le_of_lt hab),
      max_eq_left (le_of_lt hab), if_neg (ne_of_gt hab)]

theorem pixelRange_desc (bins : List K) (h : StrictDesc bins) (h2 : 2 ≤ bins.length) (a b : K) (mode : Mode) :
    pixelRange bins a b mode = pixelRange bins.reverse a b mode := by
  apply pixelRange_congr_ascBins
  rw [ascBins_of_strictDesc bins h h2,
    ascBins_of_strictAsc bins.reverse ((strictAsc_reverse bins).mpr h) (by simp; omega)]

/-! ### properties of the count -/

/-- `w` is bracketed by its two neighbours in `pb` -/
def Br (pb : List K) (w : K) : Prop := loB pb w < w ∧ w ≤ hiB pb w

theorem br_padded (bins : List K) (h : StrictAsc bins) (h2 : 2 ≤ bins.length) (w : K)
    (hlo : minWave bins ≤ w) (hhi : w ≤ maxWave bins) : Br (padded bins) w :=
  let ⟨_, _, c, d⟩ := searchLeft_padded bins h h2 w hlo hhi
  ⟨c, d⟩

/-- the fraction `(bins[ind] - w) / (bins[ind] - bins[ind-1])` lies in `[0, 1)` -/
theorem br_q (pb : List K) (w : K) (h : Br pb w) :
    0 ≤ (hiB pb w - w) / (hiB pb w - loB pb w) ∧ (hiB pb w - w) / (hiB pb w - loB pb w) < 1 ∧
    (w - loB pb w) / (hiB pb w - loB pb w) = 1 - (hiB pb w - w) / (hiB pb w - loB pb w) := by
  obtain ⟨h1, h2⟩ := h
  have hd : 0 < hiB pb w - loB pb w := by linarith
  refine ⟨div_nonneg (by linarith) (le_of_lt hd), ?_, ?_⟩
  · rw [div_lt_one hd]; linarith
  · field_simp; ring

theorem pixCount_none_nonneg (pb : List K) (w1 w2 : K) (h12 : w1 ≤ w2) (hb1 : Br pb w1) (hb2 : Br pb w2) :
    0 ≤ pixCount pb w1 w2 .none := by
  obtain ⟨q1a, q1b, _⟩ := br_q pb w1 hb1
  obtain ⟨q2a, q2b, _⟩ := br_q pb w2 hb2
  simp only [pixCount]
  rcases Nat.lt_or_eq_of_le (searchLeft_mono pb w1 w2 h12) with hlt | heq
  · have : ((searchLeft pb w1 : Int) : K) + 1 ≤ ((searchLeft pb w2 : Int) : K) := by
      have : (searchLeft pb w1 : Int) + 1 ≤ (searchLeft pb w2 : Int) := by omega
      exact_mod_cast this
    linarith
  · have hl : loB pb w1 = loB pb w2 := by simp only [loB, heq]
    have hh : hiB pb w1 = hiB pb w2 := by simp only [hiB, heq]
    have hd : 0 < hiB pb w2 - loB pb w2 := by have := hb2.1; have := hb2.2; linarith
    have : (hiB pb w2 - w2) / (hiB pb w2 - loB pb w2) ≤ (hiB pb w1 - w1) / (hiB pb w1 - loB pb w1) := by
      rw [hl, hh]
      exact div_le_div_of_nonneg_right (by linarith) (le_of_lt hd)
    rw [heq]
    linarith

theorem pixCount_nonneg (pb : List K) (w1 w2 : K) (h12 : w1 ≤ w2) (hb1 : Br pb w1) (hb2 : Br pb w2)
    (mode : Mode) : 0 ≤ pixCount pb w1 w2 mode := by
  cases mode with
  | round =>
    simp only [pixCount]
    have := searchRight_mono pb w1 w2 h12
    exact Int.cast_nonneg (by omega)
  | min =>
    simp only [pixCount]
    exact Int.cast_nonneg (le_max_right _ _)
  | max =>
    simp only [pixCount]
    have := searchLeft_mono pb w1 w2 h12
    apply Int.cast_nonneg
    split_ifs <;> omega
  | none => exact pixCount_none_nonneg pb w1 w2 h12 hb1 hb2

/-- 'min' never counts more pixels than the exact mode -/
theorem pixCount_min_le_none (pb : List K) (w1 w2 : K) (h12 : w1 ≤ w2) (hb1 : Br pb w1) (hb2 : Br pb w2) :
    pixCount pb w1 w2 .min ≤ pixCount pb w1 w2 .none := by
  have h0 := pixCount_none_nonneg pb w1 w2 h12 hb1 hb2
  obtain ⟨q1a, q1b, e1⟩ := br_q pb w1 hb1
  obtain ⟨q2a, q2b, e2⟩ := br_q pb w2 hb2
  simp only [pixCount] at h0 ⊢
  rw [e2, Int.cast_max, Int.cast_zero]
  apply max_le _ h0
  split_ifs <;> push_cast <;> linarith

/-- 'max' never counts fewer pixels than the exact mode -/
theorem pixCount_none_le_max (pb : List K) (w1 w2 : K) (hb1 : Br pb w1) (hb2 : Br pb w2) :
    pixCount pb w1 w2 .none ≤ pixCount pb w1 w2 .max := by
  obtain ⟨q1a, q1b, e1⟩ := br_q pb w1 hb1
  obtain ⟨q2a, q2b, e2⟩ := br_q pb w2 hb2
  simp only [pixCount]
  rw [e1]
  split_ifs <;> push_cast <;> linarith


/-! ### `wave_range` -/
section WaveRange
variable [FloorRing K]

/-- lower limit, mode 'round' -/
def lowR (bins : List K) (x : K) : Except Err K :=
  if fracZ x ≥ 0 then sliceMean bins (truncZ x) (truncZ x + 2) else .ok (minWave bins)
/-- upper limit, mode 'round' -/
def highR (bins : List K) (x : K) : Except Err K :=
  if truncZ x < (bins.length : Int) - 1 then sliceMean bins (truncZ x) (truncZ x + 2) else .ok (maxWave bins)

theorem waveRange_round_eq (bins : List K) (h : StrictAsc bins) (h2 : 2 ≤ bins.length) (cen fi : K) (npix : Int)
    (hc1 : bins.getD 0 0 ≤ cen) (hc2 : cen ≤ bins.getD (bins.length - 1) 0)
    (hfi : fracIndex bins cen = .ok fi)
    (hx1 : -(1/2) ≤ fi - (npix : K) / 2) (hx2 : fi + (npix : K) / 2 ≤ (bins.length : K) - 1/2) :
    waveRange bins cen npix .round =
      (lowR bins (fi - (npix : K) / 2) >>= fun w1 => highR bins (fi + (npix : K) / 2) >>= fun w2 => .ok (w1, w2)) := by
  unfold waveRange
  rw [ascBins_of_strictAsc bins h (by omega)]
  simp only [ok_bind]
  rw [pyIndex_zero bins (by omega) 0, pyIndex_neg_one bins (by omega) 0]
  simp only [ok_bind]
  rw [if_neg (by rw [not_or, not_lt, not_lt]; exact ⟨hc1, hc2⟩), hfi]
  simp only [ok_bind]
  rw [if_neg (not_lt.mpr hx1)]
  rw [if_neg (by rw [Int.cast_natCast]; exact not_lt.mpr hx2)]
  simp only [sliceMean_first bins h2, sliceMean_last bins h2, ok_bind, pure_eq, lowR, highR, minWave, maxWave]
  split_ifs <;> rfl


/-- limits in the modes that work on the padded bins `pb` (`y` = fractional index + 1) -/
def lowMin (pb : List K) (y : K) : Except Err K :=
  if fracZ y ≤ 1/2 then sliceMean pb (truncZ y) (truncZ y + 2) else sliceMean pb (truncZ y + 1) (truncZ y + 3)
def highMin (pb : List K) (y : K) : Except Err K :=
  if fracZ y ≥ 1/2 then sliceMean pb (truncZ y) (truncZ y + 2) else sliceMean pb (truncZ y - 1) (truncZ y + 1)
def lowMax (pb : List K) (y : K) : Except Err K :=
  if fracZ y < 1/2 then sliceMean pb (truncZ y - 1) (truncZ y + 1) else sliceMean pb (truncZ y) (truncZ y + 2)
def highMax (pb : List K) (y : K) : Except Err K :=
  if fracZ y > 1/2 then sliceMean pb (truncZ y + 1) (truncZ y + 3) else sliceMean pb (truncZ y) (truncZ y + 2)
def interpN (pb : List K) (y : K) : Except Err K := do
  let a ← pyIndex pb (truncZ y)
  let a' ← pyIndex pb (truncZ y + 1)
  pure (a + fracZ y * (a' - a))

/-- what is left of `wave_range` after the (passed) overlap checks, per mode -/
def waveTail (bins : List K) (x1 x2 : K) : Mode → Except Err (K × K)
  | .round => lowR bins x1 >>= fun w1 => highR bins x2 >>= fun w2 => .ok (w1, w2)
  | .min => lowMin (padded bins) (x1 + 1) >>= fun w1 => highMin (padded bins) (x2 + 1) >>= fun w2 => .ok (w1, w2)
  | .max => lowMax (padded bins) (x1 + 1) >>= fun w1 => highMax (padded bins) (x2 + 1) >>= fun w2 => .ok (w1, w2)
  | .none => interpN (padded bins) (x1 + 1) >>= fun w1 => interpN (padded bins) (x2 + 1) >>= fun w2 => .ok (w1, w2)

theorem waveRange_eq_tail (bins : List K) (h : StrictAsc bins) (h2 : 2 ≤ bins.length) (cen fi : K) (npix : Int)
    (hc1 : bins.getD 0 0 ≤ cen) (hc2 : cen ≤ bins.getD (bins.length - 1) 0)
    (hfi : fracIndex bins cen = .ok fi)
    (hx1 : -(1/2) ≤ fi - (npix : K) / 2) (hx2 : fi + (npix : K) / 2 ≤ (bins.length : K) - 1/2) (mode : Mode) :
    waveRange bins cen npix mode = waveTail bins (fi - (npix : K) / 2) (fi + (npix : K) / 2) mode := by
  cases mode with
  | round => exact waveRange_round_eq bins h h2 cen fi npix hc1 hc2 hfi hx1 hx2
  | min =>
    unfold waveRange
    rw [ascBins_of_strictAsc bins h (by omega)]
    simp only [ok_bind]
    rw [pyIndex_zero bins (by omega) 0, pyIndex_neg_one bins (by omega) 0]
    simp only [ok_bind]
    rw [if_neg (by rw [not_or, not_lt, not_lt]; exact ⟨hc1, hc2⟩), hfi]
    simp only [ok_bind]
    rw [if_neg (not_lt.mpr hx1), if_neg (by rw [Int.cast_natCast]; exact not_lt.mpr hx2)]
    simp only [padBins_eq bins h2, ok_bind, pure_eq, waveTail, lowMin, highMin]
    split_ifs <;> rfl
  | max =>
    unfold waveRange
    rw [ascBins_of_strictAsc bins h (by omega)]
    simp only [ok_bind]
    rw [pyIndex_zero bins (by omega) 0, pyIndex_neg_one bins (by omega) 0]
    simp only [ok_bind]
    rw [if_neg (by rw [not_or, not_lt, not_lt]; exact ⟨hc1, hc2⟩), hfi]
    simp only [ok_bind]
    rw [if_neg (not_lt.mpr hx1), if_neg (by rw [Int.cast_natCast]; exact not_lt.mpr hx2)]
    simp only [padBins_eq bins h2, ok_bind, pure_eq, waveTail, lowMax, highMax]
    split_ifs <;> rfl
  | none =>
    unfold waveRange
    rw [ascBins_of_strictAsc bins h (by omega)]
    simp only [ok_bind]
    rw [pyIndex_zero bins (by omega) 0, pyIndex_neg_one bins (by omega) 0]
    simp only [ok_bind]
    rw [if_neg (by rw [not_or, not_lt, not_lt]; exact ⟨hc1, hc2⟩), hfi]
    simp only [ok_bind]
    rw [if_neg (not_lt.mpr hx1), if_neg (by rw [Int.cast_natCast]; exact not_lt.mpr hx2)]
    simp only [padBins_eq bins h2, ok_bind, waveTail, interpN, bind_assoc, pure_bind]
    rfl


end WaveRange

/-! ### midpoints of neighbouring elements -/
def midP (l : List K) (k : Nat) : K := (l.getD k 0 + l.getD (k + 1) 0) / 2

theorem midP_mono (l : List K) (h : StrictAsc l) (j j' : Nat) (hj : j ≤ j') (hl : j' + 1 < l.length) :
    midP l j ≤ midP l j' := by
  have a := strictAsc_getD_le l h j j' hj (by omega) 0
  have b := strictAsc_getD_le l h (j + 1) (j' + 1) (by omega) hl 0
  unfold midP
  linarith

theorem midP_between (l : List K) (h : StrictAsc l) (j : Nat) (hl : j + 1 < l.length) :
    l.getD j 0 < midP l j ∧ midP l j < l.getD (j + 1) 0 := by
  have a := strictAsc_getD_lt l h j (j + 1) (by omega) hl 0
  unfold midP
  constructor <;> linarith

theorem sliceMean_two_int (l : List K) (z z' : Int) (k : Nat) (hz : z = k) (hz' : z' = (k : Int) + 2)
    (h : k + 1 < l.length) : sliceMean l z z' = .ok (midP l k) := by
  subst hz; subst hz'
  exact sliceMean_two l k h

/-- `l[n-1:n+1].mean()` is the last element (the slice is clipped to one element, not empty) -/
theorem sliceMean_last_one (l : List K) (z z' : Int) (hl : 1 ≤ l.length) (hz : z = ((l.length - 1 : Nat) : Int))
    (hz' : z' = z + 2) : sliceMean l z z' = .ok (l.getD (l.length - 1) 0) := by
  subst hz'; subst hz
  unfold sliceMean pySlice
  have c1 : pyClip l.length ((l.length - 1 : Nat) : Int) = l.length - 1 := pyClip_nat _ _ (by omega)
  have c2 : pyClip l.length (((l.length - 1 : Nat) : Int) + 2) = l.length := by
    unfold pyClip
    have a1 : ¬ ((((l.length - 1 : Nat) : Int) + 2) < 0) := by omega
    have a3 : ((l.length : Int) < (((l.length - 1 : Nat) : Int) + 2)) := by omega
    simp only [a1, a3, if_true, if_false]
  rw [c1, c2]
  dsimp only
  have hk : l.length - 1 < l.length := by omega
  rw [List.drop_eq_getElem_cons hk]
  have e : l.length - (l.length - 1) = 1 := by omega
  rw [e]
  simp only [List.take_succ_cons, List.take_zero, meanOf, List.isEmpty_cons, Bool.false_eq_true, if_false,
    List.sum_cons, List.sum_nil, List.length_cons, List.length_nil]
  rw [List.getD_eq_getElem?_getD, List.getElem?_eq_getElem hk]
  simp

theorem minWave_lt_first (bins : List K) (h : StrictAsc bins) (h2 : 2 ≤ bins.length) :
    minWave bins < bins.getD 0 0 := by
  have := strictAsc_getD_lt bins h 0 1 (by omega) (by omega) 0
  unfold minWave; linarith

theorem last_lt_maxWave (bins : List K) (h : StrictAsc bins) (h2 : 2 ≤ bins.length) :
    bins.getD (bins.length - 1) 0 < maxWave bins := by
  have := strictAsc_getD_lt bins h (bins.length - 2) (bins.length - 1) (by omega) (by omega) 0
  unfold maxWave; linarith

theorem midP_padded_zero (bins : List K) (h2 : 2 ≤ bins.length) : midP (padded bins) 0 = minWave bins := by
  unfold midP minWave
  rw [padded_getD_zero, padded_getD_succ bins 0 (by omega)]
  ring

theorem midP_padded_last (bins : List K) (h2 : 2 ≤ bins.length) :
    midP (padded bins) bins.length = maxWave bins := by
  unfold midP maxWave
  rw [padded_getD_last]
  have := padded_getD_succ bins (bins.length - 1) (by omega) 0
  have e : bins.length - 1 + 1 = bins.length := by omega
  rw [e] at this
  rw [this]
  ring

/-- the midpoints of the padded bins number `0 … n` are the bin edges: all inside `[minwave, maxwave]` -/
theorem midP_padded_mem (bins : List K) (h : StrictAsc bins) (h2 : 2 ≤ bins.length) (j : Nat) (hj : j ≤ bins.length) :
    minWave bins ≤ midP (padded bins) j ∧ midP (padded bins) j ≤ maxWave bins := by
  have hp := padded_strictAsc bins h h2
  have hl := padded_length bins
  constructor
  · rw [← midP_padded_zero bins h2]; exact midP_mono _ hp 0 j (by omega) (by omega)
  · rw [← midP_padded_last bins h2]; exact midP_mono _ hp j _ hj (by omega)

section WaveRange2
variable [FloorRing K]

/-- `int(np.modf(y)[1])` of a non-negative number as a natural number -/
theorem truncZ_nat (y : K) (hy : 0 ≤ y) :
    ∃ k : Nat, truncZ y = (k : Int) ∧ (k : K) ≤ y ∧ y < (k : K) + 1 ∧ fracZ y = y - (k : K) := by
  obtain ⟨k, hk⟩ := Int.eq_ofNat_of_zero_le (truncZ_nonneg y hy)
  refine ⟨k, hk, ?_, ?_, ?_⟩
  · have := Int.floor_le y
    rw [← truncZ_of_nonneg y hy, hk] at this
    simpa using this
  · have := Int.lt_floor_add_one y
    rw [← truncZ_of_nonneg y hy, hk] at this
    simpa using this
  · simp [fracZ, hk]

theorem nat_le_of_cast_lt_succ (k n : Nat) (h : (k : K) < (n : K) + 1) : k ≤ n := by
  have : (k : K) < ((n + 1 : Nat) : K) := by push_cast; exact h
  have := Nat.cast_lt.mp this
  omega

theorem nat_le_of_cast_le (k n : Nat) (h : (k : K) ≤ (n : K)) : k ≤ n := Nat.cast_le.mp h


/-- ceiling-type limb: the selected edge index is `⌈y - 1/2⌉` -/
theorem lowMin_ok (pb : List K) (n : Nat) (hl : pb.length = n + 2) (y : K) (h1 : 1/2 ≤ y) (h2 : y ≤ (n : K) + 1/2) :
    ∃ j : Nat, lowMin pb y = .ok (midP pb j) ∧ j ≤ n ∧ (j : K) < y + 1/2 ∧ y - 1/2 ≤ (j : K) := by
  obtain ⟨k, hk, ka, kb, kf⟩ := truncZ_nat y (by linarith)
  unfold lowMin
  rw [hk, kf]
  by_cases hf : y - (k : K) ≤ 1/2
  · rw [if_pos hf]
    have hkn : k ≤ n := nat_le_of_cast_lt_succ (K := K) k n (by linarith)
    exact ⟨k, sliceMean_two_int pb _ _ k rfl rfl (by omega), hkn, by linarith, by linarith⟩
  · rw [if_neg hf]
    rw [not_le] at hf
    have hkn : k + 1 ≤ n := nat_le_of_cast_lt_succ (K := K) (k + 1) n (by push_cast; linarith)
    refine ⟨k + 1, sliceMean_two_int pb _ _ (k + 1) (by push_cast; ring) (by push_cast; ring) (by omega), hkn, ?_, ?_⟩
    · push_cast; linarith
    · push_cast; linarith

theorem highMax_ok (pb : List K) (n : Nat) (hl : pb.length = n + 2) (y : K) (h1 : 1/2 ≤ y) (h2 : y ≤ (n : K) + 1/2) :
    ∃ j : Nat, highMax pb y = .ok (midP pb j) ∧ j ≤ n ∧ (j : K) < y + 1/2 ∧ y - 1/2 ≤ (j : K) := by
  obtain ⟨k, hk, ka, kb, kf⟩ := truncZ_nat y (by linarith)
  unfold highMax
  rw [hk, kf]
  by_cases hf : y - (k : K) > 1/2
  · rw [if_pos hf]
    have hkn : k + 1 ≤ n := nat_le_of_cast_lt_succ (K := K) (k + 1) n (by push_cast; linarith)
    refine ⟨k + 1, sliceMean_two_int pb _ _ (k + 1) (by push_cast; ring) (by push_cast; ring) (by omega), hkn, ?_, ?_⟩
    · push_cast; linarith
    · push_cast; linarith
  · rw [if_neg hf]
    rw [not_lt] at hf
    have hkn : k ≤ n := nat_le_of_cast_lt_succ (K := K) k n (by linarith)
    exact ⟨k, sliceMean_two_int pb _ _ k rfl rfl (by omega), hkn, by linarith, by linarith⟩

/-- floor-type limb: the selected edge index is `⌊y - 1/2⌋` -/
theorem highMin_ok (pb : List K) (n : Nat) (hl : pb.length = n + 2) (y : K) (h1 : 1/2 ≤ y) (h2 : y ≤ (n : K) + 1/2) :
    ∃ j : Nat, highMin pb y = .ok (midP pb j) ∧ j ≤ n ∧ (j : K) ≤ y - 1/2 ∧ y - 1/2 < (j : K) + 1 := by
  obtain ⟨k, hk, ka, kb, kf⟩ := truncZ_nat y (by linarith)
  unfold highMin
  rw [hk, kf]
  have hkn : k ≤ n := nat_le_of_cast_lt_succ (K := K) k n (by linarith)
  by_cases hf : y - (k : K) ≥ 1/2
  · rw [if_pos hf]
    exact ⟨k, sliceMean_two_int pb _ _ k rfl rfl (by omega), hkn, by linarith, by linarith⟩
  · rw [if_neg hf]
    rw [not_le] at hf
    have hk1 : 1 ≤ k := by
      rcases Nat.eq_zero_or_pos k with h0 | h0
      · subst h0; simp at hf; linarith
      · exact h0
    obtain ⟨m, rfl⟩ : ∃ m, k = m + 1 := ⟨k - 1, by omega⟩
    refine ⟨m, sliceMean_two_int pb _ _ m (by push_cast; ring) (by push_cast; ring) (by omega), by omega, ?_, ?_⟩
    · push_cast at hf ka kb; linarith
    · push_cast at hf ka kb; linarith

theorem lowMax_ok (pb : List K) (n : Nat) (hl : pb.length = n + 2) (y : K) (h1 : 1/2 ≤ y) (h2 : y ≤ (n : K) + 1/2) :
    ∃ j : Nat, lowMax pb y = .ok (midP pb j) ∧ j ≤ n ∧ (j : K) ≤ y - 1/2 ∧ y - 1/2 < (j : K) + 1 := by
  obtain ⟨k, hk, ka, kb, kf⟩ := truncZ_nat y (by linarith)
  unfold lowMax
  rw [hk, kf]
  have hkn : k ≤ n := nat_le_of_cast_lt_succ (K := K) k n (by linarith)
  by_cases hf : y - (k : K) < 1/2
  · rw [if_pos hf]
    have hk1 : 1 ≤ k := by
      rcases Nat.eq_zero_or_pos k with h0 | h0
      · subst h0; simp at hf; linarith
      · exact h0
    obtain ⟨m, rfl⟩ : ∃ m, k = m + 1 := ⟨k - 1, by omega⟩
    refine ⟨m, sliceMean_two_int pb _ _ m (by push_cast; ring) (by push_cast; ring) (by omega), by omega, ?_, ?_⟩
    · push_cast at hf ka kb; linarith
    · push_cast at hf ka kb; linarith
  · rw [if_neg hf]
    rw [not_lt] at hf
    exact ⟨k, sliceMean_two_int pb _ _ k rfl rfl (by omega), hkn, by linarith, by linarith⟩

/-- mode 'none': linear interpolation between the two neighbouring padded centres -/
theorem interpN_ok (pb : List K) (n : Nat) (hl : pb.length = n + 2) (y : K) (h1 : 1/2 ≤ y) (h2 : y ≤ (n : K) + 1/2) :
    ∃ k : Nat, k ≤ n ∧ (k : K) ≤ y ∧ y < (k : K) + 1 ∧
      interpN pb y = .ok (pb.getD k 0 + (y - (k : K)) * (pb.getD (k + 1) 0 - pb.getD k 0)) := by
  obtain ⟨k, hk, ka, kb, kf⟩ := truncZ_nat y (by linarith)
  have hkn : k ≤ n := nat_le_of_cast_lt_succ (K := K) k n (by linarith)
  refine ⟨k, hkn, ka, kb, ?_⟩
  unfold interpN
  rw [hk, kf, pyIndex_nat pb k (by omega) 0]
  have e : ((k : Int) + 1) = ((k + 1 : Nat) : Int) := by push_cast; ring
  rw [e, pyIndex_nat pb (k + 1) (by omega) 0]
  rfl


theorem lowR_ok (bins : List K) (h2 : 2 ≤ bins.length) (x : K) (h1 : -(1/2) ≤ x)
    (hx : x ≤ (bins.length : K) - 1/2) :
    ∃ w, lowR bins x = .ok w ∧ (w = minWave bins ∨
      (∃ k : Nat, k + 1 < bins.length ∧ (k : K) ≤ x ∧ w = midP bins k) ∨
      ((bins.length : K) - 1 ≤ x ∧ w = bins.getD (bins.length - 1) 0)) := by
  unfold lowR
  by_cases hx0 : 0 ≤ x
  · obtain ⟨k, hk, ka, kb, kf⟩ := truncZ_nat x hx0
    rw [if_pos (by rw [kf]; linarith), hk]
    have hkn : k + 1 ≤ bins.length := by
      have : k ≤ bins.length - 1 := nat_le_of_cast_lt_succ (K := K) k (bins.length - 1) (by
        rw [Nat.cast_sub (by omega)]; push_cast; linarith)
      omega
    by_cases hk1 : k + 1 < bins.length
    · exact ⟨_, sliceMean_two_int bins _ _ k rfl rfl hk1, Or.inr (Or.inl ⟨k, hk1, ka, rfl⟩)⟩
    · have hkeq : k = bins.length - 1 := by omega
      refine ⟨_, sliceMean_last_one bins _ _ (by omega) (by rw [hkeq]) rfl, Or.inr (Or.inr ⟨?_, rfl⟩)⟩
      have : (k : K) = (bins.length : K) - 1 := by
        rw [hkeq, Nat.cast_sub (by omega)]; push_cast; ring
      linarith
  · rw [not_le] at hx0
    rw [fracZ_of_neg x hx0 (by linarith), if_neg (not_le.mpr hx0)]
    exact ⟨_, rfl, Or.inl rfl⟩

theorem highR_ok (bins : List K) (h2 : 2 ≤ bins.length) (x : K) (h1 : -(1/2) ≤ x) :
    ∃ w, highR bins x = .ok w ∧ (w = maxWave bins ∨
      (∃ k : Nat, k + 1 < bins.length ∧ x < (k : K) + 1 ∧ w = midP bins k)) := by
  unfold highR
  by_cases hx0 : 0 ≤ x
  · obtain ⟨k, hk, ka, kb, kf⟩ := truncZ_nat x hx0
    rw [hk]
    by_cases hk1 : (k : Int) < (bins.length : Int) - 1
    · rw [if_pos hk1]
      have hk2 : k + 1 < bins.length := by omega
      exact ⟨_, sliceMean_two_int bins _ _ k rfl rfl hk2, Or.inr ⟨k, hk2, kb, rfl⟩⟩
    · rw [if_neg hk1]
      exact ⟨_, rfl, Or.inl rfl⟩
  · rw [not_le] at hx0
    rw [truncZ_of_neg x hx0 (by linarith), if_pos (by omega)]
    refine ⟨_, sliceMean_two_int bins _ _ 0 rfl rfl (by omega), Or.inr ⟨0, by omega, ?_, rfl⟩⟩
    push_cast; linarith

theorem midP_bins_mem (bins : List K) (h : StrictAsc bins) (k : Nat) (hk : k + 1 < bins.length) :
    bins.getD 0 0 ≤ midP bins k ∧ midP bins k ≤ bins.getD (bins.length - 1) 0 := by
  obtain ⟨a, b⟩ := midP_between bins h k hk
  have c := strictAsc_getD_le bins h 0 k (by omega) (by omega) 0
  have d := strictAsc_getD_le bins h (k + 1) (bins.length - 1) (by omega) (by omega) 0
  constructor <;> linarith

/-- mode 'round' on valid bins: both limits exist, are ordered and lie inside the outer edges -/
theorem waveTail_round_ok (bins : List K) (h : StrictAsc bins) (h2 : 2 ≤ bins.length) (x1 x2 : K)
    (h1 : -(1/2) ≤ x1) (h12 : x1 ≤ x2) (hx : x2 ≤ (bins.length : K) - 1/2) :
    ∃ w1 w2, waveTail bins x1 x2 .round = .ok (w1, w2) ∧ w1 ≤ w2 ∧ minWave bins ≤ w1 ∧ w2 ≤ maxWave bins := by
  obtain ⟨w1, e1, c1⟩ := lowR_ok bins h2 x1 h1 (le_trans h12 hx)
  obtain ⟨w2, e2, c2⟩ := highR_ok bins h2 x2 (le_trans h1 h12)
  refine ⟨w1, w2, by simp only [waveTail, e1, e2, ok_bind], ?_⟩
  have m0 := minWave_lt_first bins h h2
  have m1 := last_lt_maxWave bins h h2
  have m2 := strictAsc_getD_le bins h 0 (bins.length - 1) (by omega) (by omega) 0
  rcases c1 with rfl | ⟨k1, hk1, ka1, rfl⟩ | ⟨hn, rfl⟩
  · rcases c2 with rfl | ⟨k2, hk2, kb2, rfl⟩
    · exact ⟨by linarith, le_refl _, le_refl _⟩
    · obtain ⟨a, b⟩ := midP_bins_mem bins h k2 hk2
      exact ⟨by linarith, le_refl _, by linarith⟩
  · obtain ⟨a, b⟩ := midP_bins_mem bins h k1 hk1
    rcases c2 with rfl | ⟨k2, hk2, kb2, rfl⟩
    · exact ⟨by linarith, by linarith, le_refl _⟩
    · obtain ⟨a', b'⟩ := midP_bins_mem bins h k2 hk2
      have : k1 ≤ k2 := nat_le_of_cast_lt_succ (K := K) k1 k2 (by linarith)
      exact ⟨midP_mono bins h k1 k2 this hk2, by linarith, by linarith⟩
  · rcases c2 with rfl | ⟨k2, hk2, kb2, rfl⟩
    · exact ⟨by linarith, by linarith, le_refl _⟩
    · exfalso
      have : ((k2 + 1 + 1 : Nat) : K) ≤ (bins.length : K) := Nat.cast_le.mpr (by omega)
      push_cast at this
      linarith


/-- mode 'min': both limits exist and are bin edges inside the outer edges; they are ordered as soon as
at least one pixel is requested (`x1 + 1 ≤ x2`) -/
theorem waveTail_min_ok (bins : List K) (h : StrictAsc bins) (h2 : 2 ≤ bins.length) (x1 x2 : K)
    (h1 : -(1/2) ≤ x1) (h12 : x1 ≤ x2) (hx : x2 ≤ (bins.length : K) - 1/2) :
    ∃ w1 w2, waveTail bins x1 x2 .min = .ok (w1, w2) ∧ (x1 + 1 ≤ x2 → w1 ≤ w2) ∧
      minWave bins ≤ w1 ∧ w1 ≤ maxWave bins ∧ minWave bins ≤ w2 ∧ w2 ≤ maxWave bins := by
  have hl := padded_length bins
  obtain ⟨j1, e1, a1, b1, c1⟩ := lowMin_ok (padded bins) bins.length hl (x1 + 1) (by linarith) (by linarith)
  obtain ⟨j2, e2, a2, b2, c2⟩ := highMin_ok (padded bins) bins.length hl (x2 + 1) (by linarith) (by linarith)
  refine ⟨_, _, by simp only [waveTail, e1, e2, ok_bind], ?_, (midP_padded_mem bins h h2 j1 a1).1,
    (midP_padded_mem bins h h2 j1 a1).2, (midP_padded_mem bins h h2 j2 a2).1, (midP_padded_mem bins h h2 j2 a2).2⟩
  intro h12'
  have : j1 ≤ j2 := nat_le_of_cast_lt_succ (K := K) j1 j2 (by linarith)
  exact midP_mono _ (padded_strictAsc bins h h2) j1 j2 this (by omega)

/-- mode 'max' -/
theorem waveTail_max_ok (bins : List K) (h : StrictAsc bins) (h2 : 2 ≤ bins.length) (x1 x2 : K)
    (h1 : -(1/2) ≤ x1) (h12 : x1 ≤ x2) (hx : x2 ≤ (bins.length : K) - 1/2) :
    ∃ w1 w2, waveTail bins x1 x2 .max = .ok (w1, w2) ∧ w1 ≤ w2 ∧ minWave bins ≤ w1 ∧ w2 ≤ maxWave bins := by
  have hl := padded_length bins
  obtain ⟨j1, e1, a1, b1, c1⟩ := lowMax_ok (padded bins) bins.length hl (x1 + 1) (by linarith) (by linarith)
  obtain ⟨j2, e2, a2, b2, c2⟩ := highMax_ok (padded bins) bins.length hl (x2 + 1) (by linarith) (by linarith)
  refine ⟨_, _, by simp only [waveTail, e1, e2, ok_bind], ?_, (midP_padded_mem bins h h2 j1 a1).1,
    (midP_padded_mem bins h h2 j2 a2).2⟩
  have : j1 ≤ j2 := nat_le_of_cast_le (K := K) j1 j2 (by linarith)
  exact midP_mono _ (padded_strictAsc bins h h2) j1 j2 this (by omega)

/-- mode 'none' -/
theorem waveTail_none_ok (bins : List K) (h : StrictAsc bins) (h2 : 2 ≤ bins.length) (x1 x2 : K)
    (h1 : -(1/2) ≤ x1) (h12 : x1 ≤ x2) (hx : x2 ≤ (bins.length : K) - 1/2) :
    ∃ w1 w2, waveTail bins x1 x2 .none = .ok (w1, w2) ∧ w1 ≤ w2 ∧ minWave bins ≤ w1 ∧ w2 ≤ maxWave bins := by
  have hl := padded_length bins
  have hp := padded_strictAsc bins h h2
  obtain ⟨k1, a1, b1, c1, e1⟩ := interpN_ok (padded bins) bins.length hl (x1 + 1) (by linarith) (by linarith)
  obtain ⟨k2, a2, b2, c2, e2⟩ := interpN_ok (padded bins) bins.length hl (x2 + 1) (by linarith) (by linarith)
  refine ⟨_, _, by simp only [waveTail, e1, e2, ok_bind]; rfl, ?_, ?_, ?_⟩
  · -- order
    have hk : k1 ≤ k2 := nat_le_of_cast_lt_succ (K := K) k1 k2 (by linarith)
    have d1 := strictAsc_getD_lt _ hp k1 (k1 + 1) (by omega) (by omega) 0
    have d2 := strictAsc_getD_lt _ hp k2 (k2 + 1) (by omega) (by omega) 0
    rcases Nat.lt_or_eq_of_le hk with hlt | heq
    · have d3 := strictAsc_getD_le _ hp (k1 + 1) k2 (by omega) (by omega) 0
      have u1 : (x1 + 1 - (k1 : K)) * ((padded bins).getD (k1 + 1) 0 - (padded bins).getD k1 0)
          ≤ 1 * ((padded bins).getD (k1 + 1) 0 - (padded bins).getD k1 0) :=
        mul_le_mul_of_nonneg_right (by linarith) (by linarith)
      have u2 : 0 ≤ (x2 + 1 - (k2 : K)) * ((padded bins).getD (k2 + 1) 0 - (padded bins).getD k2 0) :=
        mul_nonneg (by linarith) (by linarith)
      linarith
    · subst heq
      have : (x1 + 1 - (k1 : K)) * ((padded bins).getD (k1 + 1) 0 - (padded bins).getD k1 0)
          ≤ (x2 + 1 - (k1 : K)) * ((padded bins).getD (k1 + 1) 0 - (padded bins).getD k1 0) :=
        mul_le_mul_of_nonneg_right (by linarith) (by linarith)
      linarith
  · -- lower bound
    have d1 := strictAsc_getD_lt _ hp k1 (k1 + 1) (by omega) (by omega) 0
    rcases Nat.eq_zero_or_pos k1 with h0 | h0
    · subst h0
      rw [← midP_padded_zero bins h2]
      unfold midP
      have : (1/2 : K) * ((padded bins).getD (0 + 1) 0 - (padded bins).getD 0 0)
          ≤ (x1 + 1 - ((0 : Nat) : K)) * ((padded bins).getD (0 + 1) 0 - (padded bins).getD 0 0) :=
        mul_le_mul_of_nonneg_right (by push_cast; linarith) (by linarith)
      linarith
    · have d3 := strictAsc_getD_le _ hp 1 k1 (by omega) (by omega) 0
      rw [padded_getD_succ bins 0 (by omega)] at d3
      have m0 := minWave_lt_first bins h h2
      have u2 : 0 ≤ (x1 + 1 - (k1 : K)) * ((padded bins).getD (k1 + 1) 0 - (padded bins).getD k1 0) :=
        mul_nonneg (by linarith) (by linarith)
      linarith
  · -- upper bound
    have d2 := strictAsc_getD_lt _ hp k2 (k2 + 1) (by omega) (by omega) 0
    rcases Nat.lt_or_eq_of_le a2 with hlt | heq
    · have d3 := strictAsc_getD_le _ hp (k2 + 1) bins.length (by omega) (by omega) 0
      have e : (padded bins).getD bins.length 0 = bins.getD (bins.length - 1) 0 := by
        have := padded_getD_succ bins (bins.length - 1) (by omega) 0
        have e' : bins.length - 1 + 1 = bins.length := by omega
        rwa [e'] at this
      rw [e] at d3
      have m1 := last_lt_maxWave bins h h2
      have u1 : (x2 + 1 - (k2 : K)) * ((padded bins).getD (k2 + 1) 0 - (padded bins).getD k2 0)
          ≤ 1 * ((padded bins).getD (k2 + 1) 0 - (padded bins).getD k2 0) :=
        mul_le_mul_of_nonneg_right (by linarith) (by linarith)
      linarith
    · subst heq
      rw [← midP_padded_last bins h2]
      unfold midP
      have : (x2 + 1 - (bins.length : K)) * ((padded bins).getD (bins.length + 1) 0 - (padded bins).getD bins.length 0)
          ≤ (1/2 : K) * ((padded bins).getD (bins.length + 1) 0 - (padded bins).getD bins.length 0) :=
        mul_le_mul_of_nonneg_right (by linarith) (by linarith)
      linarith


end WaveRange2

/-! ### the fractional index of the centre -/
theorem argminAbsAux_lt (t : List K) : ∀ (i best : Nat) (bv : K), best < i →
    argminAbsAux t i best bv < i + t.length := by
  induction t with
  | nil => intro i best bv h; simpa [argminAbsAux] using h
  | cons x t ih =>
    intro i best bv h
    simp only [argminAbsAux, List.length_cons]
    split_ifs
    · have := ih (i + 1) i |x| (by omega); omega
    · have := ih (i + 1) best bv (by omega); omega

theorem argminAbs_lt (l : List K) (h : 0 < l.length) : argminAbs l < l.length := by
  cases l with
  | nil => simp at h
  | cons x t =>
    simp only [argminAbs, List.length_cons]
    have := argminAbsAux_lt t 1 0 |x| (by omega)
    omega

theorem getD_map_of_lt (f : K → K) (l : List K) (k : Nat) (hk : k < l.length) (d d' : K) :
    (l.map f).getD k d = f (l.getD k d') := by
  rw [List.getD_eq_getElem?_getD, List.getD_eq_getElem?_getD, List.getElem?_map, List.getElem?_eq_getElem hk]
  rfl

/-- for a centre inside `[bins[0], bins[-1]]` the fractional index is computed without
IndexError / division by zero (the neighbour looked up always exists and differs) -/
theorem fracIndex_ok (bins : List K) (h : StrictAsc bins) (h1 : 1 ≤ bins.length) (cen : K)
    (hc1 : bins.getD 0 0 ≤ cen) (hc2 : cen ≤ bins.getD (bins.length - 1) 0) :
    ∃ fi, fracIndex bins cen = .ok fi := by
  unfold fracIndex
  simp only []
  have hlen : (bins.map (fun x => cen - x)).length = bins.length := by simp
  have hk := argminAbs_lt (bins.map (fun x => cen - x)) (by omega)
  generalize argminAbs (bins.map (fun x => cen - x)) = k at hk
  rw [hlen] at hk
  rw [pyIndex_nat _ k (by omega) 0, getD_map_of_lt _ bins k hk 0 0]
  simp only [ok_bind]
  by_cases hd : cen - bins.getD k 0 < 0
  · rw [if_pos hd]
    have hk0 : 1 ≤ k := by
      rcases Nat.eq_zero_or_pos k with h0 | h0
      · subst h0; linarith
      · exact h0
    have hlt := strictAsc_getD_lt bins h (k - 1) k (by omega) hk 0
    rw [pyIndex_nat bins k hk 0, pyIndex_pred bins k hk0 (by omega) 0]
    simp only [ok_bind]
    rw [divE_ok _ _ (by intro h0; linarith)]
    exact ⟨_, rfl⟩
  · rw [if_neg hd]
    by_cases hd2 : cen - bins.getD k 0 > 0
    · rw [if_pos hd2]
      have hk1 : k + 1 < bins.length := by
        by_contra hc
        have : k = bins.length - 1 := by omega
        rw [this] at hd2
        linarith
      have hlt := strictAsc_getD_lt bins h k (k + 1) (by omega) hk1 0
      have e : ((k : Int) + 1) = ((k + 1 : Nat) : Int) := by push_cast; ring
      rw [e, pyIndex_nat bins (k + 1) hk1 0, pyIndex_nat bins k hk 0]
      simp only [ok_bind]
      rw [divE_ok _ _ (by intro h0; linarith)]
      exact ⟨_, rfl⟩
    · rw [if_neg hd2]
      exact ⟨_, rfl⟩

section WaveRange3
variable [FloorRing K]

/-- `wave_range` sees its bins only through the ascending copy -/
theorem waveRange_congr_ascBins (b1 b2 : List K) (h : ascBins b1 = ascBins b2) (cen : K) (npix : Int)
    (mode : Mode) : waveRange b1 cen npix mode = waveRange b2 cen npix mode := by
  unfold waveRange
  rw [h]

theorem waveRange_desc (bins : List K) (h : StrictDesc bins) (h2 : 2 ≤ bins.length) (cen : K) (npix : Int)
    (mode : Mode) : waveRange bins cen npix mode = waveRange bins.reverse cen npix mode := by
  apply waveRange_congr_ascBins
  rw [ascBins_of_strictDesc bins h h2,
    ascBins_of_strictAsc bins.reverse ((strictAsc_reverse bins).mpr h) (by simp; omega)]

/-- a centre outside `[bins[0], bins[-1]]` is an OverlapError in every mode -/
theorem waveRange_cen_outside (bins : List K) (h : StrictAsc bins) (h1 : 1 ≤ bins.length) (cen : K) (npix : Int)
    (mode : Mode) (hc : cen < bins.getD 0 0 ∨ cen > bins.getD (bins.length - 1) 0) :
    waveRange bins cen npix mode = .error .overlapError := by
  unfold waveRange
  rw [ascBins_of_strictAsc bins h h1]
  simp only [ok_bind]
  rw [pyIndex_zero bins (by omega) 0, pyIndex_neg_one bins (by omega) 0]
  simp only [ok_bind]
  rw [if_pos hc]
  rfl

/-- a range that starts below the first pixel's lower edge is an OverlapError -/
theorem waveRange_low_outside (bins : List K) (h : StrictAsc bins) (h1 : 1 ≤ bins.length) (cen fi : K) (npix : Int)
    (mode : Mode) (hc1 : bins.getD 0 0 ≤ cen) (hc2 : cen ≤ bins.getD (bins.length - 1) 0)
    (hfi : fracIndex bins cen = .ok fi) (hx : fi - (npix : K) / 2 < -(1/2)) :
    waveRange bins cen npix mode = .error .overlapError := by
  unfold waveRange
  rw [ascBins_of_strictAsc bins h h1]
  simp only [ok_bind]
  rw [pyIndex_zero bins (by omega) 0, pyIndex_neg_one bins (by omega) 0]
  simp only [ok_bind]
  rw [if_neg (by rw [not_or, not_lt, not_lt]; exact ⟨hc1, hc2⟩), hfi]
  simp only [ok_bind]
  rw [if_pos hx]
  rfl

/-- a range that ends above the last pixel's upper edge is an OverlapError -/
theorem waveRange_high_outside (bins : List K) (h : StrictAsc bins) (h1 : 1 ≤ bins.length) (cen fi : K) (npix : Int)
    (mode : Mode) (hc1 : bins.getD 0 0 ≤ cen) (hc2 : cen ≤ bins.getD (bins.length - 1) 0)
    (hfi : fracIndex bins cen = .ok fi) (hx1 : -(1/2) ≤ fi - (npix : K) / 2)
    (hx : fi + (npix : K) / 2 > (bins.length : K) - 1/2) :
    waveRange bins cen npix mode = .error .overlapError := by
  unfold waveRange
  rw [ascBins_of_strictAsc bins h h1]
  simp only [ok_bind]
  rw [pyIndex_zero bins (by omega) 0, pyIndex_neg_one bins (by omega) 0]
  simp only [ok_bind]
  rw [if_neg (by rw [not_or, not_lt, not_lt]; exact ⟨hc1, hc2⟩), hfi]
  simp only [ok_bind]
  rw [if_neg (not_lt.mpr hx1), if_pos (by rw [Int.cast_natCast]; exact hx)]
  rfl

end WaveRange3

/-! ### round trip `pixel_range (wave_range …)` -/

theorem midP_strictMono (l : List K) (h : StrictAsc l) (j j' : Nat) (hj : j < j') (hl : j' + 1 < l.length) :
    midP l j < midP l j' := by
  have a := strictAsc_getD_lt l h j j' hj (by omega) 0
  have b := strictAsc_getD_lt l h (j + 1) (j' + 1) (by omega) hl 0
  unfold midP
  linarith

/-- `searchsorted(side='right')` of the midpoint between elements `j` and `j+1` -/
theorem searchRight_midP (l : List K) (h : StrictAsc l) (j : Nat) (hj : j + 1 < l.length) :
    searchRight l (midP l j) = j + 1 := by
  obtain ⟨a, b⟩ := midP_between l h j hj
  apply le_antisymm
  · exact searchRight_le_of l _ 0 (j + 1) b
  · by_contra hc
    have hs : searchRight l (midP l j) ≤ j := by omega
    have := searchRight_gt l (midP l j) 0 (by omega)
    have := strictAsc_getD_le l h _ j hs (by omega) 0
    linarith

theorem midP_padded_succ (bins : List K) (k : Nat) (hk : k + 1 < bins.length) :
    midP (padded bins) (k + 1) = midP bins k := by
  unfold midP
  rw [padded_getD_succ bins k (by omega), padded_getD_succ bins (k + 1) hk]

section
variable [FloorRing K]

/-- mode 'round', at least one pixel: both limits are midpoints of the padded bins (= bin edges) whose
indices differ by exactly `npix` -/
theorem waveTail_round_edges (bins : List K) (h2 : 2 ≤ bins.length) (x1 : K) (npix : Int)
    (hnp : 1 ≤ npix) (h1 : -(1/2) ≤ x1) (hx : x1 + (npix : K) ≤ (bins.length : K) - 1/2) :
    ∃ j1 j2 : Nat, j2 ≤ bins.length ∧ (j2 : Int) = (j1 : Int) + npix ∧
      waveTail bins x1 (x1 + (npix : K)) .round = .ok (midP (padded bins) j1, midP (padded bins) j2) := by
  have hnpK : (1 : K) ≤ (npix : K) := by exact_mod_cast hnp
  -- upper limit
  have hx2 : (0 : K) ≤ x1 + (npix : K) := by linarith
  obtain ⟨k2, hk2, ka2, kb2, _⟩ := truncZ_nat (x1 + (npix : K)) hx2
  have hk2n : k2 + 1 ≤ bins.length := by
    have : k2 ≤ bins.length - 1 := nat_le_of_cast_lt_succ (K := K) k2 (bins.length - 1) (by
      rw [Nat.cast_sub (by omega)]; push_cast; linarith)
    omega
  have hup : highR bins (x1 + (npix : K)) = .ok (midP (padded bins) (k2 + 1)) := by
    unfold highR
    rw [hk2]
    by_cases hk1 : (k2 : Int) < (bins.length : Int) - 1
    · rw [if_pos hk1, sliceMean_two_int bins _ _ k2 rfl rfl (by omega), midP_padded_succ bins k2 (by omega)]
    · rw [if_neg hk1]
      have : k2 + 1 = bins.length := by omega
      rw [this, midP_padded_last bins h2]
  by_cases hx0 : 0 ≤ x1
  · obtain ⟨k1, hk1, ka1, kb1, kf1⟩ := truncZ_nat x1 hx0
    have hrel : (k2 : Int) = (k1 : Int) + npix := by
      have u1 : ((k2 : Int) : K) < (((k1 : Int) + npix + 1 : Int) : K) := by push_cast; linarith
      have u2 : (((k1 : Int) + npix : Int) : K) < (((k2 : Int) + 1 : Int) : K) := by push_cast; linarith
      have v1 := Int.cast_lt.mp u1
      have v2 := Int.cast_lt.mp u2
      omega
    have hk1n : k1 + 1 < bins.length := by omega
    have hlow : lowR bins x1 = .ok (midP (padded bins) (k1 + 1)) := by
      unfold lowR
      rw [if_pos (by rw [kf1]; linarith), hk1, sliceMean_two_int bins _ _ k1 rfl rfl hk1n,
        midP_padded_succ bins k1 hk1n]
    refine ⟨k1 + 1, k2 + 1, hk2n, by push_cast; omega, ?_⟩
    simp only [waveTail, hlow, hup, ok_bind]
  · rw [not_le] at hx0
    have hlow : lowR bins x1 = .ok (midP (padded bins) 0) := by
      unfold lowR
      rw [fracZ_of_neg x1 hx0 (by linarith), if_neg (not_le.mpr hx0), midP_padded_zero bins h2]
    have hrel : (k2 : Int) + 1 = npix := by
      have u1 : ((k2 : Int) : K) < ((npix : Int) : K) := by push_cast; linarith
      have u2 : ((npix : Int) : K) < (((k2 : Int) + 2 : Int) : K) := by push_cast; linarith
      have v1 := Int.cast_lt.mp u1
      have v2 := Int.cast_lt.mp u2
      omega
    refine ⟨0, k2 + 1, hk2n, by push_cast; omega, ?_⟩
    simp only [waveTail, hlow, hup, ok_bind]

end

/-- `pixel_range(..., 'round')` of two bin edges counts the pixels between them -/
theorem pixelRange_round_edges (bins : List K) (h : StrictAsc bins) (h2 : 2 ≤ bins.length) (j1 j2 : Nat)
    (hj : j1 < j2) (hj2 : j2 ≤ bins.length) :
    pixelRange bins (midP (padded bins) j1) (midP (padded bins) j2) .round = .ok (((j2 : Int) - (j1 : Int) : Int) : K) := by
  have hp := padded_strictAsc bins h h2
  have hl := padded_length bins
  rw [pixelRange_asc_lt bins h h2 _ _ (midP_strictMono _ hp j1 j2 hj (by omega)),
    if_neg (by
      rw [not_or, not_lt, not_lt]
      exact ⟨(midP_padded_mem bins h h2 j1 (by omega)).1, (midP_padded_mem bins h h2 j2 hj2).2⟩)]
  simp only [pixCount]
  rw [searchRight_midP _ hp j1 (by omega), searchRight_midP _ hp j2 (by omega)]
  have : (((j2 + 1 : Nat) : Int) - ((j1 + 1 : Nat) : Int)) = (j2 : Int) - (j1 : Int) := by push_cast; ring
  rw [this]


/-- linear interpolation between padded centres `k` and `k+1` at fractional index `y` -/
def lin (pb : List K) (k : Nat) (y : K) : K := pb.getD k 0 + (y - (k : K)) * (pb.getD (k + 1) 0 - pb.getD k 0)

/-- the fractional index `ind - (bins[ind] - w) / (bins[ind] - bins[ind-1])` that mode 'none' of
`pixel_range` assigns to a wavelength -/
def posN (pb : List K) (w : K) : K :=
  ((searchLeft pb w : Int) : K) - (hiB pb w - w) / (hiB pb w - loB pb w)

theorem pixCount_none_eq (pb : List K) (w1 w2 : K) : pixCount pb w1 w2 .none = posN pb w2 - posN pb w1 := rfl

/-- `pixel_range`'s fractional index inverts `wave_range`'s interpolation -/
theorem posN_lin (pb : List K) (hp : StrictAsc pb) (k : Nat) (hk : k + 1 < pb.length) (y : K)
    (hy1 : (k : K) ≤ y) (hy2 : y < (k : K) + 1) (hpos : 0 < y) : posN pb (lin pb k y) = y := by
  have d := strictAsc_getD_lt pb hp k (k + 1) (by omega) hk 0
  rcases lt_or_eq_of_le hy1 with hlt | heq
  · -- strictly inside: the insertion point is k+1
    have hw1 : pb.getD k 0 < lin pb k y := by
      unfold lin
      have : 0 < (y - (k : K)) * (pb.getD (k + 1) 0 - pb.getD k 0) := mul_pos (by linarith) (by linarith)
      linarith
    have hw2 : lin pb k y < pb.getD (k + 1) 0 := by
      unfold lin
      have : (y - (k : K)) * (pb.getD (k + 1) 0 - pb.getD k 0) < 1 * (pb.getD (k + 1) 0 - pb.getD k 0) :=
        mul_lt_mul_of_pos_right (by linarith) (by linarith)
      linarith
    have hs : searchLeft pb (lin pb k y) = k + 1 := by
      apply le_antisymm
      · exact searchLeft_le_of pb _ 0 (k + 1) (le_of_lt hw2)
      · by_contra hc
        have hs : searchLeft pb (lin pb k y) ≤ k := by omega
        have := searchLeft_ge pb (lin pb k y) 0 (by omega)
        have := strictAsc_getD_le pb hp _ k hs (by omega) 0
        linarith
    unfold posN hiB loB
    rw [hs]
    simp only [Nat.add_sub_cancel]
    have hd : pb.getD (k + 1) 0 - pb.getD k 0 ≠ 0 := by intro h0; linarith
    unfold lin
    push_cast
    field_simp
    ring
  · -- on a centre: the insertion point is k itself
    have hk0 : 1 ≤ k := by
      rcases Nat.eq_zero_or_pos k with h0 | h0
      · subst h0; rw [← heq] at hpos; simp at hpos
      · exact h0
    have hw : lin pb k y = pb.getD k 0 := by unfold lin; rw [← heq]; ring
    have d' := strictAsc_getD_lt pb hp (k - 1) k (by omega) (by omega) 0
    have hs : searchLeft pb (pb.getD k 0) = k := by
      apply le_antisymm
      · exact searchLeft_le_of pb _ 0 k (le_refl _)
      · by_contra hc
        have hs : searchLeft pb (pb.getD k 0) < k := by omega
        have := searchLeft_ge pb (pb.getD k 0) 0 (by omega)
        have := strictAsc_getD_lt pb hp _ k hs (by omega) 0
        linarith
    rw [hw]
    unfold posN hiB loB
    rw [hs]
    simp [← heq]

section
variable [FloorRing K]

/-- mode 'none': `pixel_range` of the range returned by `wave_range` is the width requested -/
theorem none_round_trip (bins : List K) (h : StrictAsc bins) (h2 : 2 ≤ bins.length) (x1 x2 : K)
    (h1 : -(1/2) ≤ x1) (h12 : x1 ≤ x2) (hx : x2 ≤ (bins.length : K) - 1/2) :
    ∃ w1 w2, waveTail bins x1 x2 .none = .ok (w1, w2) ∧ pixelRange bins w1 w2 .none = .ok (x2 - x1) := by
  have hl := padded_length bins
  have hp := padded_strictAsc bins h h2
  obtain ⟨w1, w2, e, hle, hlo, hhi⟩ := waveTail_none_ok bins h h2 x1 x2 h1 h12 hx
  obtain ⟨k1, a1, b1, c1, e1⟩ := interpN_ok (padded bins) bins.length hl (x1 + 1) (by linarith) (by linarith)
  obtain ⟨k2, a2, b2, c2, e2⟩ := interpN_ok (padded bins) bins.length hl (x2 + 1) (by linarith) (by linarith)
  have e' := e
  simp only [waveTail, e1, e2, ok_bind] at e'
  injection e' with e'
  injection e' with ew1 ew2
  have p1 : posN (padded bins) w1 = x1 + 1 := by
    rw [← ew1]; exact posN_lin _ hp k1 (by omega) _ b1 c1 (by linarith)
  have p2 : posN (padded bins) w2 = x2 + 1 := by
    rw [← ew2]; exact posN_lin _ hp k2 (by omega) _ b2 c2 (by linarith)
  refine ⟨w1, w2, e, ?_⟩
  rw [pixelRange_asc bins h h2, min_eq_left hle, max_eq_right hle,
    if_neg (by rw [not_or, not_lt, not_lt]; exact ⟨hlo, hhi⟩)]
  by_cases hw : w1 = w2
  · rw [if_pos hw]
    rw [hw, p2] at p1
    congr 1; linarith
  · rw [if_neg hw, pixCount_none_eq, p1, p2]
    congr 1; ring

end


section
variable [FloorRing K]

/-- modes 'min' and 'max': both limits are midpoints of the padded bins number `0 … n`, i.e. bin edges -/
theorem waveTail_minmax_edges (bins : List K) (x1 x2 : K)
    (h1 : -(1/2) ≤ x1) (h12 : x1 ≤ x2) (hx : x2 ≤ (bins.length : K) - 1/2) (mode : Mode)
    (hm : mode = .min ∨ mode = .max) :
    ∃ j1 j2 : Nat, j1 ≤ bins.length ∧ j2 ≤ bins.length ∧
      waveTail bins x1 x2 mode = .ok (midP (padded bins) j1, midP (padded bins) j2) := by
  have hl := padded_length bins
  rcases hm with rfl | rfl
  · obtain ⟨j1, e1, a1, _, _⟩ := lowMin_ok (padded bins) bins.length hl (x1 + 1) (by linarith) (by linarith)
    obtain ⟨j2, e2, a2, _, _⟩ := highMin_ok (padded bins) bins.length hl (x2 + 1) (by linarith) (by linarith)
    exact ⟨j1, j2, a1, a2, by simp only [waveTail, e1, e2, ok_bind]⟩
  · obtain ⟨j1, e1, a1, _, _⟩ := lowMax_ok (padded bins) bins.length hl (x1 + 1) (by linarith) (by linarith)
    obtain ⟨j2, e2, a2, _, _⟩ := highMax_ok (padded bins) bins.length hl (x2 + 1) (by linarith) (by linarith)
    exact ⟨j1, j2, a1, a2, by simp only [waveTail, e1, e2, ok_bind]⟩

end


/-! ### `np.argmin(np.abs(·))` really is a minimiser, hence the fractional index is the geometric one -/

theorem argminAbsAux_spec (t : List K) : ∀ (i best : Nat) (bv : K),
    (argminAbsAux t i best bv = best ∧ ∀ y ∈ t, bv ≤ |y|) ∨
    (∃ j, j < t.length ∧ argminAbsAux t i best bv = i + j ∧ |t.getD j 0| ≤ bv ∧ ∀ y ∈ t, |t.getD j 0| ≤ |y|) := by
  induction t with
  | nil => intro i best bv; left; simp [argminAbsAux]
  | cons x t ih =>
    intro i best bv
    simp only [argminAbsAux]
    by_cases hx : |x| < bv
    · rw [if_pos hx]
      right
      rcases ih (i + 1) i |x| with ⟨h1, h2⟩ | ⟨j, hj, h1, h2, h3⟩
      · refine ⟨0, by simp, by simpa using h1, by simpa using le_of_lt hx, ?_⟩
        intro y hy
        rcases List.mem_cons.mp hy with rfl | hy
        · simp
        · simpa using h2 y hy
      · refine ⟨j + 1, by simp; omega, by rw [h1]; omega, ?_, ?_⟩
        · simp only [List.getD_cons_succ]; linarith
        · intro y hy
          simp only [List.getD_cons_succ]
          rcases List.mem_cons.mp hy with rfl | hy
          · exact h2
          · exact h3 y hy
    · rw [if_neg hx]
      rw [not_lt] at hx
      rcases ih (i + 1) best bv with ⟨h1, h2⟩ | ⟨j, hj, h1, h2, h3⟩
      · left
        refine ⟨h1, ?_⟩
        intro y hy
        rcases List.mem_cons.mp hy with rfl | hy
        · exact hx
        · exact h2 y hy
      · right
        refine ⟨j + 1, by simp; omega, by rw [h1]; omega, ?_, ?_⟩
        · simpa only [List.getD_cons_succ] using h2
        · intro y hy
          simp only [List.getD_cons_succ]
          rcases List.mem_cons.mp hy with rfl | hy
          · linarith
          · exact h3 y hy

theorem argminAbs_min (l : List K) : ∀ y ∈ l, |l.getD (argminAbs l) 0| ≤ |y| := by
  cases l with
  | nil => intro y hy; simp at hy
  | cons x t =>
    intro y hy
    simp only [argminAbs]
    rcases argminAbsAux_spec t 1 0 |x| with ⟨h1, h2⟩ | ⟨j, hj, h1, h2, h3⟩
    · rw [h1]
      rcases List.mem_cons.mp hy with rfl | hy
      · simp
      · simpa using h2 y hy
    · rw [h1]
      have e : (x :: t).getD (1 + j) 0 = t.getD j 0 := by
        rw [Nat.add_comm]; simp
      rw [e]
      rcases List.mem_cons.mp hy with rfl | hy
      · exact h2
      · exact h3 y hy

theorem getD_mem_of_lt (l : List K) (j : Nat) (hj : j < l.length) : l.getD j 0 ∈ l := by
  rw [List.getD_eq_getElem?_getD, List.getElem?_eq_getElem hj]
  exact List.getElem_mem _

/-- the fractional index computed by `wave_range` is the geometric pixel coordinate of the centre:
`i + (cen - bins[i]) / (bins[i+1] - bins[i])` for a pair of neighbouring centres that bracket it -/
theorem fracIndex_spec (bins : List K) (h : StrictAsc bins) (h2 : 2 ≤ bins.length) (cen : K)
    (hc1 : bins.getD 0 0 ≤ cen) (hc2 : cen ≤ bins.getD (bins.length - 1) 0) :
    ∃ i : Nat, i + 1 < bins.length ∧ bins.getD i 0 ≤ cen ∧ cen ≤ bins.getD (i + 1) 0 ∧
      fracIndex bins cen = .ok ((i : K) + (cen - bins.getD i 0) / (bins.getD (i + 1) 0 - bins.getD i 0)) := by
  unfold fracIndex
  simp only []
  have hlen : (bins.map (fun x => cen - x)).length = bins.length := by simp
  have hk := argminAbs_lt (bins.map (fun x => cen - x)) (by omega)
  have hmin : ∀ j, j < bins.length →
      |(bins.map (fun x => cen - x)).getD (argminAbs (bins.map (fun x => cen - x))) 0| ≤ |cen - bins.getD j 0| := by
    intro j hj
    apply argminAbs_min
    rw [List.mem_map]
    exact ⟨bins.getD j 0, getD_mem_of_lt bins j hj, rfl⟩
  generalize argminAbs (bins.map (fun x => cen - x)) = k at hk hmin
  rw [hlen] at hk
  rw [getD_map_of_lt _ bins k hk 0 0] at hmin
  rw [pyIndex_nat _ k (by omega) 0, getD_map_of_lt _ bins k hk 0 0]
  simp only [ok_bind]
  by_cases hd : cen - bins.getD k 0 < 0
  · rw [if_pos hd]
    have hk0 : 1 ≤ k := by
      rcases Nat.eq_zero_or_pos k with h0 | h0
      · subst h0; linarith
      · exact h0
    have hlt := strictAsc_getD_lt bins h (k - 1) k (by omega) hk 0
    rw [pyIndex_nat bins k hk 0, pyIndex_pred bins k hk0 (by omega) 0]
    simp only [ok_bind]
    rw [divE_ok _ _ (by intro h0; linarith)]
    have hbr : bins.getD (k - 1) 0 ≤ cen := by
      by_contra hc
      rw [not_le] at hc
      have := hmin (k - 1) (by omega)
      rw [abs_of_neg hd, abs_of_neg (by linarith)] at this
      linarith
    obtain ⟨m, rfl⟩ : ∃ m, k = m + 1 := ⟨k - 1, by omega⟩
    simp only [Nat.add_sub_cancel] at hlt hbr ⊢
    refine ⟨m, hk, hbr, by linarith, ?_⟩
    simp only [ok_bind, pure_eq]
    congr 1
    have hne : bins.getD (m + 1) 0 - bins.getD m 0 ≠ 0 := by intro h0; linarith
    push_cast
    field_simp
    ring
  · rw [if_neg hd]
    by_cases hd2 : cen - bins.getD k 0 > 0
    · rw [if_pos hd2]
      have hk1 : k + 1 < bins.length := by
        by_contra hc
        have : k = bins.length - 1 := by omega
        rw [this] at hd2
        linarith
      have hlt := strictAsc_getD_lt bins h k (k + 1) (by omega) hk1 0
      have e : ((k : Int) + 1) = ((k + 1 : Nat) : Int) := by push_cast; ring
      rw [e, pyIndex_nat bins (k + 1) hk1 0, pyIndex_nat bins k hk 0]
      simp only [ok_bind]
      rw [divE_ok _ _ (by intro h0; linarith)]
      have hbr : cen ≤ bins.getD (k + 1) 0 := by
        by_contra hc
        rw [not_le] at hc
        have := hmin (k + 1) hk1
        rw [abs_of_pos hd2, abs_of_pos (by linarith)] at this
        linarith
      refine ⟨k, hk1, by linarith, hbr, ?_⟩
      simp only [ok_bind, pure_eq, Int.cast_natCast]
    · rw [if_neg hd2]
      have heq : cen = bins.getD k 0 := by
        rw [not_lt] at hd hd2; linarith
      by_cases hk1 : k + 1 < bins.length
      · refine ⟨k, hk1, le_of_eq heq.symm, ?_, ?_⟩
        · have := strictAsc_getD_lt bins h k (k + 1) (by omega) hk1 0; linarith
        · simp only [pure_eq, Int.cast_natCast]; congr 1; rw [heq]; simp
      · obtain ⟨m, rfl⟩ : ∃ m, k = m + 1 := ⟨k - 1, by omega⟩
        have hlt := strictAsc_getD_lt bins h m (m + 1) (by omega) hk 0
        refine ⟨m, hk, by linarith, le_of_eq heq, ?_⟩
        simp only [pure_eq, Int.cast_natCast]
        congr 1
        have hne : bins.getD (m + 1) 0 - bins.getD m 0 ≠ 0 := by intro h0; linarith
        rw [heq, div_self hne]
        push_cast
        ring

end Synphot
