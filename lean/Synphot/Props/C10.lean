/-
  C10 — Normalisation reaches the requested value and preserves spectral shape.

  `normalizeFactor` (Core/ObsPhot.lean) transcribes `BaseSourceSpectrum.normalize`: it returns the
  scalar `k` the spectrum is multiplied by, the operand after the call (switched to extrapolation on
  the partial-overlap path only) and whether a warning was recorded.
-/
import Synphot.Props.C09
import Synphot.Lemmas.C10x
import Synphot.Lemmas.TranscReal

set_option linter.unusedSectionVars false
set_option linter.unusedVariables false
set_option linter.unusedSimpArgs false

namespace Synphot.C10
open Synphot
variable {K : Type} [Field K] [LinearOrder K] [IsStrictOrderedRing K]

/-- the normalised spectrum is the original multiplied by one scalar at every wavelength -/
theorem normalized_is_scalar_multiple (E : Env K) (m : Tree K) (k x v : K) (h : m.eval E x = .ok v) :
    (Tree.scale m k).eval E x = .ok (v * k) := eval_scale_of h

/-- linear targets: `k = target · (std / total)` is positive for a positive target and positive band integrals -/
theorem factor_pos (target std total : K) (ht : 0 < target) (hs : 0 < std) (htot : 0 < total) :
    0 < target * (std / total) := mul_pos ht (div_pos hs htot)

/-- magnitude targets: the factor `10^(−0.4·(target + 2.5 log₁₀(total/std)))` is positive -/
theorem factor_mag_pos (T : Transc K) (hT : T.Lawful) (x : K) : 0 < T.pow10 x := hT.pow10_pos x

/-- **post-condition, FLAM**: with `k = target · std/total`, `total = ∫ F P` on the observation's grid and
`std = ∫ (λ/hc) P` on the bandpass's grid (a spectrum flat at 1 FLAM, in PHOTLAM), the FLAM effective
stimulus `|∫ λ F_λ' P| / |∫ λ P|` of the scaled spectrum is the target.  `obs` holds `(λ, F·P)` in
PHOTLAM, `band` holds `(λ, P)`. -/
theorem normalize_hits_target_flam (obs band : List (K × K)) (hc target : K) (hhc : 0 < hc)
    (ht : 0 < target) (hpos : ∀ p ∈ obs, p.1 ≠ 0)
    (htot : 0 < trapz obs) (hden : 0 < trapz (C09.timesLam band)) :
    let std := trapz (band.map fun p => (p.1, p.1 / hc * p.2))
    let k := target * (std / trapz obs)
    C09.effstimFlam (obs.map fun p => (p.1, k * p.2 * hc / p.1)) band = target := by
  intro std k
  have hstd : std = trapz (C09.timesLam band) / hc := by
    simp only [std, C09.timesLam]
    have : (band.map fun p => (p.1, p.1 / hc * p.2)) =
        (band.map fun p => (p.1, p.1 * p.2)).map fun p => (p.1, (1 / hc) * p.2) := by
      simp only [List.map_map]; apply List.map_congr_left; intro p _; simp only [Function.comp]; congr 1; ring
    rw [this, trapz_smul]; ring
  unfold C09.effstimFlam
  have h1 : C09.timesLam (obs.map fun p => (p.1, k * p.2 * hc / p.1)) = obs.map fun p => (p.1, (k * hc) * p.2) := by
    simp only [C09.timesLam, List.map_map]; apply List.map_congr_left; intro p hp
    simp only [Function.comp]; have := hpos p hp; congr 1; field_simp
  rw [h1, trapz_smul]
  have hk : 0 < k := mul_pos ht (div_pos (by rw [hstd]; exact div_pos hden hhc) htot)
  rw [abs_of_pos (mul_pos (mul_pos hk hhc) htot), abs_of_pos hden]
  simp only [k, hstd]
  have h1 := ne_of_gt htot; have h2 := ne_of_gt hden; have h3 := ne_of_gt hhc
  field_simp

/-- the same spectrum observed in FNU (converted at the pivot) reaches an FNU target:
`std = ∫ (c/(λ hc)) P` for a spectrum flat at 1 FNU -/
theorem normalize_hits_target_fnu (obs band : List (K × K)) (hc c target : K) (hhc : 0 < hc) (hcc : 0 < c)
    (ht : 0 < target) (hpos : ∀ p ∈ obs, p.1 ≠ 0) (hposb : ∀ p ∈ band, p.1 ≠ 0)
    (htot : 0 < trapz obs) (hB : 0 < trapz (C09.timesLam band)) (hA : 0 < trapz (C09.overLam band)) :
    let std := trapz (band.map fun p => (p.1, c / (p.1 * hc) * p.2))
    let k := target * (std / trapz obs)
    C09.effstimFlam (obs.map fun p => (p.1, k * p.2 * hc / p.1)) band *
      |trapz (C09.timesLam band) / trapz (C09.overLam band)| / c = target := by
  intro std k
  have hstd : std = c / hc * trapz (C09.overLam band) := by
    simp only [std, C09.overLam]
    have : (band.map fun p => (p.1, c / (p.1 * hc) * p.2)) =
        (band.map fun p => (p.1, p.2 / p.1)).map fun p => (p.1, (c / hc) * p.2) := by
      simp only [List.map_map]; apply List.map_congr_left; intro p hp; simp only [Function.comp]
      have := hposb p hp; have := ne_of_gt hhc; congr 1; field_simp
    rw [this, trapz_smul]
  unfold C09.effstimFlam
  have h1 : C09.timesLam (obs.map fun p => (p.1, k * p.2 * hc / p.1)) = obs.map fun p => (p.1, (k * hc) * p.2) := by
    simp only [C09.timesLam, List.map_map]; apply List.map_congr_left; intro p hp
    simp only [Function.comp]; have := hpos p hp; congr 1; field_simp
  rw [h1, trapz_smul]
  have hstdpos : 0 < std := by rw [hstd]; exact mul_pos (div_pos hcc hhc) hA
  have hk : 0 < k := mul_pos ht (div_pos hstdpos htot)
  rw [abs_of_pos (mul_pos (mul_pos hk hhc) htot), abs_of_pos hB, abs_of_pos (div_pos hB hA)]
  simp only [k, hstd]
  have h1 := ne_of_gt htot; have h2 := ne_of_gt hB; have h3 := ne_of_gt hhc; have h4 := ne_of_gt hA
  have h5 := ne_of_gt hcc
  field_simp

/-! ## Deepening: every target unit

Conventions of the sums-level theorems: `obs` holds the samples `(λ, F(λ)·P(λ))` of source × band in
PHOTLAM on the grid `normalize` integrates the source on (which is the grid `effstim` samples the
observation on, the scaled source having the same sampling set); `band` holds `(λ, P(λ))` on the
bandpass's grid (the grid of the standard spectrum × band, `ConstFlux1D` having no sampling set, and of
`effstim`'s denominator and pivot).  `total = ∫ obs` and `std = ∫ standard × band` are the two
(unsigned, here positive) trapezoid sums of the code; the normalised observation's FLAM samples are
`k · F P · hc / λ`. -/

open C10x

/-- the factor is positive **for every target unit**: magnitude units unconditionally, linear units
for a positive target (positive band integrals) -/
theorem factor_pos_every_unit (T : Transc K) (hT : T.Lawful) (u : FluxUnit K) (target total std : K)
    (htot : 0 < total) (hstd : 0 < std) (ht : u.isMag = true ∨ 0 < target) :
    0 < factorValue T u target total std := factorValue_pos hT u target total std htot hstd ht

/-- **post-condition, Jy and prefixed Jy** (`.jy s`: `s` = value of the unit in Jy, `mJy ↦ 1/1000`):
the FLAM effective stimulus of the normalised spectrum, converted by `convert_flux` at the pivot
wavelength `sqrt|∫λP / ∫P/λ|` to the target's unit, is the target.  (`s = 1/jyFnu` gives FNU, and the
same statement for FLAM holds with the identity conversion.) -/
theorem normalize_hits_target_jy (P : PhysConst K) (T : Transc K) (hP : P.Pos) (hT : T.Lawful)
    (obs band : List (K × K)) (s target : K) (hs : 0 < s) (ht : 0 < target)
    (hpos : ∀ p ∈ obs, p.1 ≠ 0) (hposb : ∀ p ∈ band, p.1 ≠ 0)
    (htot : 0 < trapz obs) (hB : 0 < trapz (C09.timesLam band)) (hA : 0 < trapz (C09.overLam band)) :
    let std := trapz (band.map fun p => (p.1, flatPhotlam P (.jy s) 1 p.1 * p.2))
    let k := factorValue T (.jy s) target (trapz obs) std
    let wp := T.sqrt |trapz (C09.timesLam band) / trapz (C09.overLam band)|
    convertOne P T (plainSamp wp) .flam (.jy s)
      (C09.effstimFlam (obs.map fun p => (p.1, k * p.2 * (P.h * P.c) / p.1)) band) = .ok target := by
  intro std k wp
  have hh := hP.h; have hc := hP.c; have hj := hP.jy
  have hstd : std = 1 * s * P.jyFnu * P.c / (P.h * P.c) * trapz (C09.overLam band) := std_jy P band s 1 hposb
  have hstdpos : 0 < std := by rw [hstd]; positivity
  have hk : k = target * (std / trapz obs) := by simp [k, factorValue, FluxUnit.isMag]
  have hkpos : 0 < k := by rw [hk]; positivity
  obtain ⟨hwp, hsq⟩ := pivot_sq hT _ _ hA hB
  have he : C09.effstimFlam (obs.map fun p => (p.1, k * p.2 * (P.h * P.c) / p.1)) band =
      k * (P.h * P.c) * trapz obs / trapz (C09.timesLam band) :=
    effstimFlam_scaled obs band (P.h * P.c) k (mul_pos hh hc) hkpos hpos htot hB
  rw [he, convert_flam_jy P T hP s wp _ hwp]
  congr 1
  show _ * (wp * wp) / _ / _ = _
  rw [hsq, hk, hstd]
  have h1 := ne_of_gt htot; have h2 := ne_of_gt hB; have h3 := ne_of_gt hh; have h4 := ne_of_gt hA
  have h5 := ne_of_gt hc; have h6 := ne_of_gt hs; have h7 := ne_of_gt hj
  field_simp

/-- **post-condition, STmag**: the standard spectrum is flat at `stZero` FLAM (0 STmag), the factor is
`10^(−0.4 (target + 2.5 log₁₀(total/std)))`; the normalised spectrum's STmag effective stimulus
`−2.5 log₁₀(F_λ,eff / stZero)` is the target — for every real target (no sign condition) -/
theorem normalize_hits_target_stmag (P : PhysConst K) (T : Transc K) (hP : P.Pos) (hT : T.Lawful)
    (obs band : List (K × K)) (target : K) (hpos : ∀ p ∈ obs, p.1 ≠ 0)
    (htot : 0 < trapz obs) (hB : 0 < trapz (C09.timesLam band)) :
    let std := trapz (band.map fun p => (p.1, flatPhotlam P .flam P.stZero p.1 * p.2))
    let k := factorValue T .stmag target (trapz obs) std
    toMag T (C09.effstimFlam (obs.map fun p => (p.1, k * p.2 * (P.h * P.c) / p.1)) band / P.stZero) = .ok target := by
  intro std k
  have hh := hP.h; have hc := hP.c; have hz := hP.st
  have hstd : std = P.stZero / (P.h * P.c) * trapz (C09.timesLam band) := std_flam P band P.stZero
  have hstdpos : 0 < std := by rw [hstd]; positivity
  have hk : k = ofMag T target * (std / trapz obs) := factorValue_mag hT .stmag rfl _ _ _ htot hstdpos
  have hm := ofMag_pos hT target
  have hkpos : 0 < k := by rw [hk]; positivity
  have he : C09.effstimFlam (obs.map fun p => (p.1, k * p.2 * (P.h * P.c) / p.1)) band =
      k * (P.h * P.c) * trapz obs / trapz (C09.timesLam band) :=
    effstimFlam_scaled obs band (P.h * P.c) k (mul_pos hh hc) hkpos hpos htot hB
  rw [he]
  have e : k * (P.h * P.c) * trapz obs / trapz (C09.timesLam band) / P.stZero = ofMag T target := by
    rw [hk, hstd]
    have h1 := ne_of_gt htot; have h2 := ne_of_gt hB; have h3 := ne_of_gt hh
    have h5 := ne_of_gt hc; have h6 := ne_of_gt hz
    field_simp
  rw [toMag_congr e, toMag_ofMag hT]

/-- **post-condition, ABmag**: standard spectrum flat at `abZero` FNU (0 ABmag); the FLAM effective
stimulus converted at the pivot to ABmag is the target, for every real target -/
theorem normalize_hits_target_abmag (P : PhysConst K) (T : Transc K) (hP : P.Pos) (hT : T.Lawful)
    (obs band : List (K × K)) (target : K)
    (hpos : ∀ p ∈ obs, p.1 ≠ 0) (hposb : ∀ p ∈ band, p.1 ≠ 0)
    (htot : 0 < trapz obs) (hB : 0 < trapz (C09.timesLam band)) (hA : 0 < trapz (C09.overLam band)) :
    let std := trapz (band.map fun p => (p.1, flatPhotlam P .fnu P.abZero p.1 * p.2))
    let k := factorValue T .abmag target (trapz obs) std
    let wp := T.sqrt |trapz (C09.timesLam band) / trapz (C09.overLam band)|
    convertOne P T (plainSamp wp) .flam .abmag
      (C09.effstimFlam (obs.map fun p => (p.1, k * p.2 * (P.h * P.c) / p.1)) band) = .ok target := by
  intro std k wp
  have hh := hP.h; have hc := hP.c; have hz := hP.ab
  have hstd : std = P.abZero * P.c / (P.h * P.c) * trapz (C09.overLam band) := std_fnu P band P.abZero hposb
  have hstdpos : 0 < std := by rw [hstd]; positivity
  have hk : k = ofMag T target * (std / trapz obs) := factorValue_mag hT .abmag rfl _ _ _ htot hstdpos
  have hm := ofMag_pos hT target
  have hkpos : 0 < k := by rw [hk]; positivity
  obtain ⟨hwp, hsq⟩ := pivot_sq hT _ _ hA hB
  have he : C09.effstimFlam (obs.map fun p => (p.1, k * p.2 * (P.h * P.c) / p.1)) band =
      k * (P.h * P.c) * trapz obs / trapz (C09.timesLam band) :=
    effstimFlam_scaled obs band (P.h * P.c) k (mul_pos hh hc) hkpos hpos htot hB
  rw [he, convert_flam_abmag P T hP wp _ hwp]
  have e : k * (P.h * P.c) * trapz obs / trapz (C09.timesLam band) * (wp * wp) / P.c / P.abZero = ofMag T target := by
    rw [hsq, hk, hstd]
    have h1 := ne_of_gt htot; have h2 := ne_of_gt hB; have h3 := ne_of_gt hh; have h4 := ne_of_gt hA
    have h5 := ne_of_gt hc; have h6 := ne_of_gt hz
    field_simp
  rw [toMag_congr e, toMag_ofMag hT]

/-- **post-condition, count**: `f` are the PHOTLAM samples of source × band, `cf` the count factors
(bin width × area) `convert_flux` multiplies them by; `total = Σ f·cf`, `std = 1`; the normalised
spectrum's count rate `Σ (k f)·cf` is the target -/
theorem normalize_hits_target_count (T : Transc K) (f cf : List K) (target : K)
    (htot : 0 < (mulFactors f cf).sum) :
    let k := factorValue T .count target (mulFactors f cf).sum 1
    (mulFactors (f.map (k * ·)) cf).sum = target := by
  intro k
  have hk : k = target * (1 / (mulFactors f cf).sum) := by simp [k, factorValue, FluxUnit.isMag]
  rw [mulFactors_scaled_sum, hk]
  have := ne_of_gt htot
  field_simp

/-- **post-condition, OBMAG**: `−2.5 log₁₀` of the normalised spectrum's count rate is the target -/
theorem normalize_hits_target_obmag (T : Transc K) (hT : T.Lawful) (f cf : List K) (target : K)
    (htot : 0 < (mulFactors f cf).sum) :
    let k := factorValue T .obmag target (mulFactors f cf).sum 1
    toMag T (mulFactors (f.map (k * ·)) cf).sum = .ok target := by
  intro k
  have hk : k = ofMag T target * (1 / (mulFactors f cf).sum) :=
    factorValue_mag hT .obmag rfl _ _ _ htot one_pos
  have e : (mulFactors (f.map (k * ·)) cf).sum = ofMag T target := by
    rw [mulFactors_scaled_sum, hk]
    have := ne_of_gt htot
    field_simp
  rw [toMag_congr e, toMag_ofMag hT]

/-- **post-condition, VEGAMAG**: `vband` holds `(λ, Vega(λ)·P(λ))` on the grid of Vega × band;
`std = ∫ Vega P`; the normalised spectrum's magnitude relative to Vega,
`2.5 (log₁₀ ∫Vega P − log₁₀ ∫ k F P)` (what `effstim('vegamag')` returns), is the target -/
theorem normalize_hits_target_vegamag (T : Transc K) (hT : T.Lawful) (obs vband : List (K × K)) (target : K)
    (htot : 0 < trapz obs) (hstd : 0 < trapz vband) :
    let k := factorValue T .vegamag target (trapz obs) (trapz vband)
    (5/2) * (T.log10 (trapz vband) - T.log10 (trapz (obs.map fun p => (p.1, k * p.2)))) = target := by
  intro k
  have hk : k = ofMag T target * (trapz vband / trapz obs) := factorValue_mag hT .vegamag rfl _ _ _ htot hstd
  have hm := ofMag_pos hT target
  have e : trapz (obs.map fun p => (p.1, k * p.2)) = ofMag T target * trapz vband := by
    rw [trapz_smul, hk]
    have := ne_of_gt htot
    field_simp
  rw [e, hT.log10_mul _ _ hm hstd]
  unfold ofMag
  rw [hT.log10_pow10]
  ring

/-- **photon-rate form** (PHOTLAM, PHOTNU — and every linear density unit): the normalised spectrum
carries the same rate `∫ F' P dλ` through the band as the spectrum flat at the target value
(`flatPhotlam P u target` is `toPhotlam` of the constant `target`, see `toPhotlam_flat`) -/
theorem normalize_matches_flat (P : PhysConst K) (T : Transc K) (u : FluxUnit K) (hu : IsLinearDensity u)
    (obs band : List (K × K)) (target : K) (htot : trapz obs ≠ 0) :
    let std := trapz (band.map fun p => (p.1, flatPhotlam P u 1 p.1 * p.2))
    let k := factorValue T u target (trapz obs) std
    trapz (obs.map fun p => (p.1, k * p.2)) =
      trapz (band.map fun p => (p.1, flatPhotlam P u target p.1 * p.2)) := by
  intro std k
  have hk : k = target * (std / trapz obs) := by
    cases u <;> first | (simp [k, factorValue, FluxUnit.isMag]; done) | exact absurd hu (by simp [IsLinearDensity])
  have h2 : (band.map fun p => (p.1, flatPhotlam P u target p.1 * p.2)) =
      (band.map fun p => (p.1, flatPhotlam P u 1 p.1 * p.2)).map fun p => (p.1, target * p.2) := by
    simp only [List.map_map]; apply List.map_congr_left; intro p _; simp only [Function.comp]
    rw [flatPhotlam_amp P u target]; congr 1; ring
  rw [trapz_smul, h2, trapz_smul, hk]
  field_simp
  rfl

/-- … and for PHOTLAM this is literally `∫ F' P = target · ∫ P` -/
theorem normalize_photlam_rate (T : Transc K) (P : PhysConst K) (obs band : List (K × K)) (target : K)
    (htot : trapz obs ≠ 0) :
    let k := factorValue T .photlam target (trapz obs)
      (trapz (band.map fun p => (p.1, flatPhotlam P .photlam 1 p.1 * p.2)))
    trapz (obs.map fun p => (p.1, k * p.2)) = target * trapz band := by
  intro k
  have h := normalize_matches_flat P T .photlam trivial obs band target htot
  simp only at h
  rw [h]
  have : (band.map fun p => (p.1, flatPhotlam P .photlam target p.1 * p.2)) =
      band.map fun p => (p.1, target * p.2) := by
    apply List.map_congr_left; intro p _; rfl
  rw [this, trapz_smul]

/-! ### errors and the operand -/

/-- on full overlap the operand is untouched and no warning is recorded -/
theorem full_overlap_leaves_operand (E : Env K) (P : OverlapPar K) (self band : Spec K) (target : K)
    (u : FluxUnit K) (wl : Option (List K)) (force : Bool) (area : Option K) (vega : Option (Tree K))
    (hb : band.kind = .bandpass) (hv : checkOverlap E P band self wl = .ok .full)
    (k : K) (s' : Spec K) (w : Bool)
    (h : normalizeFactor E P self band target u wl force area vega = .ok (k, s', w)) :
    s' = self ∧ w = false := by
  unfold normalizeFactor at h
  simp only [hb, ne_eq, not_true_eq_false, if_false, hv, bind, Except.bind, pure, Except.pure] at h
  -- every remaining step either fails or returns the stored pair (self, false)
  repeat' first
    | (cases h; done)
    | (split at h)
  all_goals first
    | (cases h; done)
    | (injection h with h; injection h with _ h; injection h with h1 h2; exact ⟨h1.symm, h2.symm⟩)

/-- a disjoint band raises DisjointError, an insufficiently overlapping one PartialOverlap unless forced -/
theorem overlap_errors (E : Env K) (P : OverlapPar K) (self band : Spec K) (target : K)
    (u : FluxUnit K) (wl : Option (List K)) (force : Bool) (area : Option K) (vega : Option (Tree K))
    (hb : band.kind = .bandpass) :
    (checkOverlap E P band self wl = .ok .none →
      normalizeFactor E P self band target u wl force area vega = .error .disjointError) ∧
    (checkOverlap E P band self wl = .ok .partialNotMost → force = false →
      normalizeFactor E P self band target u wl force area vega = .error .partialOverlap) := by
  constructor
  · intro hv
    simp [normalizeFactor, hb, hv, bind, Except.bind]
  · intro hv hf
    simp [normalizeFactor, hb, hv, hf, bind, Except.bind]

/-- something that is not a bandpass is refused -/
theorem band_must_be_bandpass (E : Env K) (P : OverlapPar K) (self band : Spec K) (target : K)
    (u : FluxUnit K) (wl : Option (List K)) (force : Bool) (area : Option K) (vega : Option (Tree K))
    (hb : band.kind ≠ .bandpass) :
    normalizeFactor E P self band target u wl force area vega = .error .synphotError := by
  simp [normalizeFactor, hb, bind, Except.bind]

/-! ## Deepening: the call as a whole (`normalizeFactor`)

`normalizeAdmit` (class check, overlap verdict, switch to extrapolation) and `normalizeScalar`
(everything after it, for the admitted operand) are the two halves of `normalizeFactor`
(Lemmas/C10x.lean); `normalizeIntegrals` are the two band integrals `(totalflux, stdflux)`. -/

/-- `normalize` is: the admission of the operand, then the scalar for the admitted operand -/
theorem normalize_admit_then_scalar (E : Env K) (P : OverlapPar K) (self band : Spec K) (target : K)
    (u : FluxUnit K) (wl : Option (List K)) (force : Bool) (area : Option K) (vega : Option (Synphot.Tree K)) :
    normalizeFactor E P self band target u wl force area vega =
      (do let (s', w) ← normalizeAdmit E P self band wl force
          let k ← normalizeScalar E P s' band target u wl area vega
          pure (k, s', w)) := normalizeFactor_eq E P self band target u wl force area vega

/-- the admission, verdict by verdict -/
theorem admit_verdicts (E : Env K) (P : OverlapPar K) (self band : Spec K) (wl : Option (List K)) (force : Bool)
    (hb : band.kind = .bandpass) :
    (checkOverlap E P band self wl = .ok .full → normalizeAdmit E P self band wl force = .ok (self, false)) ∧
    (checkOverlap E P band self wl = .ok .partialMost →
      normalizeAdmit E P self band wl force = .ok ((self.forceExtrap).1, true)) ∧
    (checkOverlap E P band self wl = .ok .partialNotMost → force = true →
      normalizeAdmit E P self band wl force = .ok ((self.forceExtrap).1, true)) ∧
    (checkOverlap E P band self wl = .ok .partialNotMost → force = false →
      normalizeAdmit E P self band wl force = .error .partialOverlap) ∧
    (checkOverlap E P band self wl = .ok .none → normalizeAdmit E P self band wl force = .error .disjointError) := by
  refine ⟨?_, ?_, ?_, ?_, ?_⟩ <;> intro hv
  · simp [normalizeAdmit, hb, hv, bind, Except.bind, pure, Except.pure]
  · simp [normalizeAdmit, hb, hv, bind, Except.bind, pure, Except.pure]
  · intro hf; simp [normalizeAdmit, hb, hv, hf, bind, Except.bind, pure, Except.pure]
  · intro hf; simp [normalizeAdmit, hb, hv, hf, bind, Except.bind]
  · simp [normalizeAdmit, hb, hv, bind, Except.bind]

/-- **partial overlap proceeds** when at least 99 % of the throughput is covered, or when forced: the
result is the scalar computed for the operand switched to extrapolation, which is returned as the
operand's new state together with the warning -/
theorem partial_overlap_proceeds (E : Env K) (P : OverlapPar K) (self band : Spec K) (target : K)
    (u : FluxUnit K) (wl : Option (List K)) (force : Bool) (area : Option K) (vega : Option (Synphot.Tree K))
    (hb : band.kind = .bandpass)
    (hv : checkOverlap E P band self wl = .ok .partialMost ∨
      (checkOverlap E P band self wl = .ok .partialNotMost ∧ force = true)) :
    normalizeFactor E P self band target u wl force area vega =
      (normalizeScalar E P (self.forceExtrap).1 band target u wl area vega).map
        fun k => (k, (self.forceExtrap).1, true) := by
  obtain ⟨_, h2, h3, _, _⟩ := admit_verdicts E P self band wl force hb
  have hadm : normalizeAdmit E P self band wl force = .ok ((self.forceExtrap).1, true) := by
    rcases hv with hv | ⟨hv, hf⟩
    · exact h2 hv
    · exact h3 hv hf
  rw [normalizeFactor_eq, hadm]
  simp only [ok_bind']
  cases normalizeScalar E P (self.forceExtrap).1 band target u wl area vega <;> rfl

/-- **missing area**: a count or OBMAG target without an area never returns a spectrum -/
theorem missing_area_raises (E : Env K) (P : OverlapPar K) (self band : Spec K) (target : K)
    (u : FluxUnit K) (hu : u = .count ∨ u = .obmag) (wl : Option (List K)) (force : Bool)
    (vega : Option (Synphot.Tree K)) (r : K × Spec K × Bool) :
    normalizeFactor E P self band target u wl force none vega ≠ .ok r := by
  intro h
  obtain ⟨k, s', w⟩ := r
  exact normalizeScalar_noarea E P s' band target u wl vega hu k (normalizeFactor_ok h).2

/-- … and when the operand is admitted and source × band can be sampled, what is raised is `SynphotError` -/
theorem missing_area_error_class (E : Env K) (P : OverlapPar K) (self band : Spec K) (target : K)
    (u : FluxUnit K) (hu : u = .count ∨ u = .obmag) (wl : Option (List K)) (force : Bool)
    (vega : Option (Synphot.Tree K)) (s' : Spec K) (wn : Bool) (sm bm : Synphot.Tree K) (w yp : List K)
    (hadm : normalizeAdmit E P self band wl force = .ok (s', wn))
    (h1 : s'.model = .ok sm) (h2 : band.model = .ok bm)
    (hw : wavelengthsOr P.mergeThr (.bin .mul sm bm) wl = .ok w)
    (hyp : sampleTree E (.bin .mul sm bm) w = .ok yp) :
    normalizeFactor E P self band target u wl force none vega = .error .synphotError := by
  rw [normalizeFactor_eq, hadm]
  simp only [ok_bind', normalizeScalar_noarea_class E P s' band target u wl vega hu sm bm w yp h1 h2 hw hyp]
  rfl

/-- **missing Vega spectrum**: a VEGAMAG target without one never returns a spectrum -/
theorem missing_vega_raises (E : Env K) (P : OverlapPar K) (self band : Spec K) (target : K)
    (wl : Option (List K)) (force : Bool) (area : Option K) (r : K × Spec K × Bool) :
    normalizeFactor E P self band target .vegamag wl force area none ≠ .ok r := by
  intro h
  obtain ⟨k, s', w⟩ := r
  exact normalizeScalar_novega E P s' band target wl area k (normalizeFactor_ok h).2

/-- … and when the operand is admitted and its band integral can be formed, it is `SynphotError` -/
theorem missing_vega_error_class (E : Env K) (P : OverlapPar K) (self band : Spec K) (target : K)
    (wl : Option (List K)) (force : Bool) (area : Option K)
    (s' : Spec K) (wn : Bool) (sm bm : Synphot.Tree K) (w : List K) (total : K)
    (hadm : normalizeAdmit E P self band wl force = .ok (s', wn))
    (h1 : s'.model = .ok sm) (h2 : band.model = .ok bm)
    (hw : wavelengthsOr P.mergeThr (.bin .mul sm bm) wl = .ok w)
    (ht : integrateTrapz E (.bin .mul sm bm) w = .ok total) :
    normalizeFactor E P self band target .vegamag wl force area none = .error .synphotError := by
  rw [normalizeFactor_eq, hadm]
  simp only [ok_bind', normalizeScalar_novega_class E P s' band target wl area sm bm w total h1 h2 hw ht]
  rfl

/-- **non-positive band integral**: once both band integrals are formed, a source integral `≤ 0`
(count sum for count/OBMAG) raises `SynphotError` — for every unit, target and `force` -/
theorem nonpositive_band_integral_raises (E : Env K) (P : OverlapPar K) (self band : Spec K) (target : K)
    (u : FluxUnit K) (wl : Option (List K)) (force : Bool) (area : Option K) (vega : Option (Synphot.Tree K))
    (s' : Spec K) (wn : Bool) (sm bm : Synphot.Tree K) (total std : K)
    (hadm : normalizeAdmit E P self band wl force = .ok (s', wn))
    (h1 : s'.model = .ok sm) (h2 : band.model = .ok bm)
    (h3 : normalizeIntegrals E P sm bm u wl area vega = .ok (total, std)) (ht : total ≤ 0) :
    normalizeFactor E P self band target u wl force area vega = .error .synphotError := by
  rw [normalizeFactor_eq, hadm]
  simp only [ok_bind', normalizeScalar_nonpos h1 h2 h3 ht]
  rfl

/-- **what a returned factor is**: whenever `normalize` returns, the source's band integral is
positive and the factor is `factorValue` of the two band integrals (so the sums-level
post-conditions above are about the factor the call returns) -/
theorem factor_formula (E : Env K) (P : OverlapPar K) (self band : Spec K) (target : K)
    (u : FluxUnit K) (wl : Option (List K)) (force : Bool) (area : Option K) (vega : Option (Synphot.Tree K))
    (k : K) (s' : Spec K) (wn : Bool)
    (h : normalizeFactor E P self band target u wl force area vega = .ok (k, s', wn)) :
    ∃ sm bm total std, s'.model = .ok sm ∧ band.model = .ok bm ∧
      normalizeIntegrals E P sm bm u wl area vega = .ok (total, std) ∧ 0 < total ∧
      (u.isMag = true → 0 < std) ∧ k = factorValue E.T u target total std := by
  obtain ⟨sm, bm, total, std, h1, h2, h3, hpos, hq, hk⟩ := normalizeScalar_ok (normalizeFactor_ok h).2
  refine ⟨sm, bm, total, std, h1, h2, h3, hpos, ?_, hk⟩
  intro hu
  have := hq hu
  by_contra hs
  exact absurd this (not_lt.mpr (div_nonpos_of_nonneg_of_nonpos hpos.le (not_lt.mp hs)))

/-- **positivity of the returned factor**: for the four magnitude units unconditionally, for count
targets when the target is positive.  (For the linear density units the returned factor is
`target · std / total` with `total > 0`, `factor_formula`; it is positive exactly when `target · std`
is — `factor_pos_every_unit`; the code does not check `std`.) -/
theorem returned_factor_pos (E : Env K) (hT : E.T.Lawful) (P : OverlapPar K) (self band : Spec K) (target : K)
    (u : FluxUnit K) (wl : Option (List K)) (force : Bool) (area : Option K) (vega : Option (Synphot.Tree K))
    (k : K) (s' : Spec K) (wn : Bool)
    (h : normalizeFactor E P self band target u wl force area vega = .ok (k, s', wn))
    (hu : u.isMag = true ∨ (u = .count ∧ 0 < target)) : 0 < k := by
  obtain ⟨sm, bm, total, std, h1, h2, h3, hpos, hs, hk⟩ := factor_formula E P self band target u wl force area vega k s' wn h
  rcases hu with hu | ⟨rfl, ht⟩
  · rw [hk]; exact factorValue_pos hT u target total std hpos (hs hu) (Or.inl hu)
  · rw [normalizeIntegrals_count E P sm bm .count wl area vega (Or.inl rfl)] at h3
    obtain ⟨w, hw, h3⟩ := bind_ok h3
    obtain ⟨yp, hyp, h3⟩ := bind_ok h3
    obtain ⟨y, hy, h3⟩ := bind_ok h3
    simp only [pure, Except.pure] at h3
    injection h3 with h3; injection h3 with _ h3
    rw [hk]; exact factorValue_pos hT .count target total std hpos (by rw [← h3]; exact one_pos) (Or.inr ht)

/-! ### the post-condition on the model's own observer (`countrate`, `effstim`)

`o` is any observation whose model is (source · k) × band — what `Observation(normalised, band)`
builds (`mkObs`; `normalised = self' * k` has the model `self'.model | Scale(k)`) — with `k`, `self'`
the factor and operand state *returned by the call*. -/

/-- the pieces a returned count / OBMAG call computed -/
theorem count_pieces (E : Env K) (P : OverlapPar K) (self band : Spec K) (target : K)
    (u : FluxUnit K) (hu : u = .count ∨ u = .obmag) (wl : Option (List K)) (force : Bool) (area : Option K)
    (vega : Option (Synphot.Tree K)) (k : K) (s' : Spec K) (wn : Bool)
    (h : normalizeFactor E P self band target u wl force area vega = .ok (k, s', wn))
    (sm bm : Synphot.Tree K) (hsm : s'.model = .ok sm) (hbm : band.model = .ok bm) :
    ∃ w yp y, wavelengthsOr P.mergeThr (.bin .mul sm bm) wl = .ok w ∧
      sampleTree E (.bin .mul sm bm) w = .ok yp ∧
      convertFlux E.P E.T w yp .photlam .count area none = .ok y ∧ 0 < y.sum ∧
      k = factorValue E.T u target y.sum 1 := by
  obtain ⟨sm', bm', total, std, h1, h2, h3, hpos, _, hk⟩ := factor_formula E P self band target u wl force area vega k s' wn h
  rw [hsm] at h1; injection h1 with h1; subst h1
  rw [hbm] at h2; injection h2 with h2; subst h2
  rw [normalizeIntegrals_count E P sm bm u wl area vega hu] at h3
  obtain ⟨w, hw, h3⟩ := bind_ok h3
  obtain ⟨yp, hyp, h3⟩ := bind_ok h3
  obtain ⟨y, hy, h3⟩ := bind_ok h3
  simp only [pure, Except.pure] at h3
  injection h3 with h3; injection h3 with ht hs
  subst ht; subst hs
  exact ⟨w, yp, y, hw, hyp, hy, hpos, hk⟩

/-- **count target, end to end**: for a positive target, the count rate of the normalised spectrum
through the band — `Observation.countrate(area, binned=False, wavelengths)` = `effstim('count')` of the
model — is the target, for explicit and implicit wavelengths, every `force`, every overlap verdict
that lets the call return -/
theorem normalize_count_model (E : Env K) (P : OverlapPar K) (self band : Spec K) (target : K)
    (wl : Option (List K)) (force : Bool) (area : Option K) (vega : Option (Synphot.Tree K))
    (k : K) (s' : Spec K) (wn : Bool) (atol rtol : K)
    (h : normalizeFactor E P self band target .count wl force area vega = .ok (k, s', wn))
    (ht : 0 < target)
    (sm bm : Synphot.Tree K) (hsm : s'.model = .ok sm) (hbm : band.model = .ok bm)
    (o : Obs K) (ho : o.model = .bin .mul (.scale sm k) bm) :
    countrate E P.mergeThr atol rtol o area false wl none false = .ok target ∧
    effstim E P.mergeThr atol rtol o .count wl area vega = .ok target := by
  obtain ⟨w, yp, y, hw, hyp, hy, hpos, hk⟩ :=
    count_pieces E P self band target .count (Or.inl rfl) wl force area vega k s' wn h sm bm hsm hbm
  have hk' : k = target * (1 / y.sum) := by rw [hk]; simp [factorValue, FluxUnit.isMag]
  have hsum : (y.map (k * ·)).sum = target := by
    rw [sum_smul, hk']; have := ne_of_gt hpos; field_simp
  have hc : countrate E P.mergeThr atol rtol o area false wl none false = .ok target := by
    rw [countrate_unbinned, ho, wavelengthsOr_scaled, hw]
    simp only [ok_bind', sampleTree_scaled_prod E sm bm k w yp hyp, convertFlux_count_smul E.P E.T k w yp y area hy,
      hsum, validateTotalflux_of_pos ht]
    rfl
  exact ⟨hc, by simpa only [effstim] using hc⟩

/-- **OBMAG target, end to end**: `effstim('obmag')` of the normalised spectrum through the band is the
target, for every real target -/
theorem normalize_obmag_model (E : Env K) (hT : E.T.Lawful) (P : OverlapPar K) (self band : Spec K) (target : K)
    (wl : Option (List K)) (force : Bool) (area : Option K) (vega : Option (Synphot.Tree K))
    (k : K) (s' : Spec K) (wn : Bool) (atol rtol : K)
    (h : normalizeFactor E P self band target .obmag wl force area vega = .ok (k, s', wn))
    (sm bm : Synphot.Tree K) (hsm : s'.model = .ok sm) (hbm : band.model = .ok bm)
    (o : Obs K) (ho : o.model = .bin .mul (.scale sm k) bm) :
    effstim E P.mergeThr atol rtol o .obmag wl area vega = .ok target := by
  obtain ⟨w, yp, y, hw, hyp, hy, hpos, hk⟩ :=
    count_pieces E P self band target .obmag (Or.inr rfl) wl force area vega k s' wn h sm bm hsm hbm
  have hk' : k = ofMag E.T target * (1 / y.sum) := by
    rw [hk]; exact factorValue_mag hT .obmag rfl _ _ _ hpos one_pos
  have hsum : (y.map (k * ·)).sum = ofMag E.T target := by
    rw [sum_smul, hk']; have := ne_of_gt hpos; field_simp
  have hc : countrate E P.mergeThr atol rtol o area false wl none false = .ok (ofMag E.T target) := by
    rw [countrate_unbinned, ho, wavelengthsOr_scaled, hw]
    simp only [ok_bind', sampleTree_scaled_prod E sm bm k w yp hyp, convertFlux_count_smul E.P E.T k w yp y area hy,
      hsum, validateTotalflux_of_pos (ofMag_pos hT target)]
    rfl
  simp only [effstim, hc, ok_bind']
  exact toMag_ofMag hT target

/-- **VEGAMAG target, end to end** (explicit or implicit wavelengths — since 673f123 `effstim('vegamag')`
integrates Vega × band on the caller's wavelengths when given, as `normalize` does): the magnitude of the
normalised spectrum relative to Vega is the target, for every real target and without any sign
condition on the flux -/
theorem normalize_vegamag_model (E : Env K) (hT : E.T.Lawful) (P : OverlapPar K) (self band : Spec K) (target : K)
    (wl : Option (List K)) (force : Bool) (area area' : Option K) (vm : Synphot.Tree K)
    (k : K) (s' : Spec K) (wn : Bool) (atol rtol : K)
    (h : normalizeFactor E P self band target .vegamag wl force area (some vm) = .ok (k, s', wn))
    (sm bm : Synphot.Tree K) (hsm : s'.model = .ok sm) (hbm : band.model = .ok bm)
    (o : Obs K) (ho : o.model = .bin .mul (.scale sm k) bm) (hob : o.band = band) :
    effstim E P.mergeThr atol rtol o .vegamag wl area' (some vm) = .ok target := by
  obtain ⟨sm', bm', total, std, h1, h2, h3, hpos, hs, hk⟩ :=
    factor_formula E P self band target .vegamag wl force area (some vm) k s' wn h
  rw [hsm] at h1; injection h1 with h1; subst h1
  rw [hbm] at h2; injection h2 with h2; subst h2
  rw [normalizeIntegrals_density E P sm bm .vegamag wl area (some vm) (by intro h; cases h) (by intro h; cases h)] at h3
  obtain ⟨w, hw, h3⟩ := bind_ok h3
  obtain ⟨tot, htot, h3⟩ := bind_ok h3
  obtain ⟨st, hst, h3⟩ := bind_ok h3
  obtain ⟨wu, hwu, h3⟩ := bind_ok h3
  obtain ⟨sd, hsd, h3⟩ := bind_ok h3
  simp only [pure, Except.pure] at h3
  injection h3 with h3; injection h3 with e1 e2
  subst e1; subst e2
  have hst' : st = vm := by
    simp only [stdTreeOf, pure, Except.pure] at hst; injection hst with hst; exact hst.symm
  subst hst'
  have hspos : 0 < sd := hs rfl
  have hk' : k = ofMag E.T target * (sd / tot) := by rw [hk]; exact factorValue_mag hT .vegamag rfl _ _ _ hpos hspos
  have hm := ofMag_pos hT target
  have hkpos : 0 < k := by rw [hk']; positivity
  have hnum : k * tot = ofMag E.T target * sd := by rw [hk']; have := ne_of_gt hpos; field_simp
  simp only [effstim, hob, hbm, ho, wavelengthsOr_scaled, hw, ok_bind', integrateTrapz_scaled E sm bm k hkpos.le w tot htot,
    hwu, hsd, hnum, validateTotalflux_of_pos (mul_pos hm hspos), validateTotalflux_of_pos hspos, pure, Except.pure]
  congr 1
  rw [hT.log10_mul _ _ hm hspos]
  unfold ofMag
  rw [hT.log10_pow10]
  ring

/-- the pieces a returned flux-density call computed, and what `effstim` then does with the normalised
observation: for non-negative source × band and throughput, `total = |Σ F P|` on the source grid `w`,
`std = |Σ flat(λ) P|` on the bandpass grid `xb` -/
theorem density_setup (E : Env K) (hP : E.P.Pos) (P : OverlapPar K) (self band : Spec K) (target : K)
    (u : FluxUnit K) (hu : u ≠ .count ∧ u ≠ .obmag ∧ u ≠ .vegamag)
    (wl : Option (List K)) (force : Bool) (area : Option K) (vega : Option (Synphot.Tree K))
    (k : K) (s' : Spec K) (wn : Bool) (atol rtol : K)
    (h : normalizeFactor E P self band target u wl force area vega = .ok (k, s', wn))
    (a0 : K) (u0 : FluxUnit K) (hstd : stdTreeOf E u vega = .ok (.leaf (.constFlux a0 u0)))
    (hu0 : IsLinearDensity u0) (hu0p : u0.Pos) (ha0 : 0 ≤ a0)
    (sm bm : Synphot.Tree K) (hsm : s'.model = .ok sm) (hbm : band.model = .ok bm)
    (hsrc : ∀ x v, 0 < x → (Synphot.Tree.bin .mul sm bm).eval E x = .ok v → 0 ≤ v)
    (hband : ∀ x v, 0 < x → bm.eval E x = .ok v → 0 ≤ v)
    (o : Obs K) (ho : o.model = .bin .mul (.scale sm k) bm) (hob : o.band = band)
    (area' : Option K) (vega' : Option (Synphot.Tree K)) :
    ∃ (w yp xb yb : List K), wavelengthsOr P.mergeThr bm wl = .ok xb ∧ sampleTree E bm xb = .ok yb ∧
      validateWavelengths xb = .ok () ∧ (∀ v ∈ yb, 0 ≤ v) ∧
      0 < |trapz (w.zip yp)| ∧
      (u.isMag = true → 0 < |trapz ((xb.zip yb).map fun p => (p.1, flatPhotlam E.P u0 a0 p.1 * p.2))|) ∧
      k = factorValue E.T u target |trapz (w.zip yp)|
        |trapz ((xb.zip yb).map fun p => (p.1, flatPhotlam E.P u0 a0 p.1 * p.2))| ∧
      effstim E P.mergeThr atol rtol o u wl area' vega' = (do
        let num := |k * (E.P.h * E.P.c) * trapz (w.zip yp)|
        let den := |trapz ((xb.zip yb).map fun p => (p.1, p.1 * p.2))|
        validateTotalflux num
        validateTotalflux den
        match u with
        | .flam => pure (num / den)
        | .stmag => toMag E.T (num / den / E.P.stZero)
        | u' => do
            let wp ← pivot E P.mergeThr bm wl
            convertOne E.P E.T (plainSamp wp) .flam u' (num / den)) := by
  obtain ⟨sm', bm', total, std, h1, h2, h3, hpos, hs, hk⟩ :=
    factor_formula E P self band target u wl force area vega k s' wn h
  rw [hsm] at h1; injection h1 with h1; subst h1
  rw [hbm] at h2; injection h2 with h2; subst h2
  rw [normalizeIntegrals_density E P sm bm u wl area vega hu.1 hu.2.1] at h3
  obtain ⟨w, hw, h3⟩ := bind_ok h3
  obtain ⟨tot, htot, h3⟩ := bind_ok h3
  obtain ⟨st, hst, h3⟩ := bind_ok h3
  rw [hstd] at hst; injection hst with hst; subst hst
  obtain ⟨wu, hwu, h3⟩ := bind_ok h3
  obtain ⟨sd, hsd, h3⟩ := bind_ok h3
  simp only [pure, Except.pure] at h3
  injection h3 with h3; injection h3 with e1 e2
  subst e1; subst e2
  rw [wavelengthsOr_flat] at hwu
  obtain ⟨yp, hv, hyp, htv⟩ := integrateTrapz_nonneg_src E _ w tot hsrc htot
  obtain ⟨yb, hvb, hyb, hsv⟩ := integrateTrapz_flat' E hP u0 hu0 hu0p a0 ha0 bm wu sd hband hsd
  refine ⟨w, yp, wu, yb, hwu, hyb, hvb, samples_nonneg E bm wu yb hvb hyb hband, ?_, ?_, ?_, ?_⟩
  · rw [← htv]; exact hpos
  · rw [← hsv]; exact hs
  · rw [← htv, ← hsv]; exact hk
  · exact effstim_scaled E P.mergeThr atol rtol o u hu wl area' vega' sm bm k wu yb w yp (by rw [hob]; exact hbm) ho
      hwu hyb hw hv hyp

/-- **FLAM target, end to end** (explicit or implicit wavelengths, any `force`): for non-negative
source × band and throughput and a positive returned factor, `effstim('flam')` of the normalised
spectrum through the band is the target -/
theorem normalize_flam_model (E : Env K) (hP : E.P.Pos) (P : OverlapPar K) (self band : Spec K) (target : K)
    (wl : Option (List K)) (force : Bool) (area : Option K) (vega : Option (Synphot.Tree K))
    (k : K) (s' : Spec K) (wn : Bool) (atol rtol : K)
    (h : normalizeFactor E P self band target .flam wl force area vega = .ok (k, s', wn)) (hk : 0 < k)
    (sm bm : Synphot.Tree K) (hsm : s'.model = .ok sm) (hbm : band.model = .ok bm)
    (hsrc : ∀ x v, 0 < x → (Synphot.Tree.bin .mul sm bm).eval E x = .ok v → 0 ≤ v)
    (hband : ∀ x v, 0 < x → bm.eval E x = .ok v → 0 ≤ v)
    (o : Obs K) (ho : o.model = .bin .mul (.scale sm k) bm) (hob : o.band = band)
    (area' : Option K) (vega' : Option (Synphot.Tree K)) :
    effstim E P.mergeThr atol rtol o .flam wl area' vega' = .ok target := by
  obtain ⟨w, yp, xb, yb, hxb, hyb, hvb, hynn, htot, _, hkv, heff⟩ :=
    density_setup E hP P self band target .flam (by refine ⟨?_, ?_, ?_⟩ <;> intro h <;> cases h)
      wl force area vega k s' wn atol rtol h 1 .flam rfl trivial trivial zero_le_one sm bm hsm hbm hsrc hband o ho hob
      area' vega'
  have hh := hP.h; have hc := hP.c
  have hhc : 0 < E.P.h * E.P.c := mul_pos hh hc
  set tot := |trapz (w.zip yp)| with htotdef
  set B := trapz ((xb.zip yb).map fun p => (p.1, p.1 * p.2)) with hB
  have hsd : |trapz ((xb.zip yb).map fun p => (p.1, flatPhotlam E.P .flam 1 p.1 * p.2))| = |B| / (E.P.h * E.P.c) := by
    rw [std_flam E.P (xb.zip yb) 1, abs_mul, abs_of_pos (div_pos one_pos hhc)]
    show 1 / (E.P.h * E.P.c) * |B| = _
    ring
  rw [hsd] at hkv
  have hkv' : k = target * (|B| / (E.P.h * E.P.c) / tot) := by rw [hkv]; simp [factorValue, FluxUnit.isMag]
  have hBpos : 0 < |B| := by
    rcases (abs_nonneg B).lt_or_eq with hlt | heq
    · exact hlt
    · rw [← heq] at hkv'; simp at hkv'; exact absurd hkv' (ne_of_gt hk)
  have hnum : |k * (E.P.h * E.P.c) * trapz (w.zip yp)| = k * (E.P.h * E.P.c) * tot := by
    rw [abs_mul, abs_of_pos (mul_pos hk hhc)]
  rw [heff]
  simp only [hnum, validateTotalflux_of_pos (mul_pos (mul_pos hk hhc) htot), validateTotalflux_of_pos hBpos, ok_bind',
    pure, Except.pure]
  congr 1
  rw [hkv']
  have := ne_of_gt htot; have := ne_of_gt hBpos; have := ne_of_gt hhc
  field_simp

/-- **STmag target, end to end** (explicit or implicit wavelengths): `effstim('STmag')` of the
normalised spectrum is the target, for every real target -/
theorem normalize_stmag_model (E : Env K) (hP : E.P.Pos) (hT : E.T.Lawful) (P : OverlapPar K) (self band : Spec K)
    (target : K) (wl : Option (List K)) (force : Bool) (area : Option K) (vega : Option (Synphot.Tree K))
    (k : K) (s' : Spec K) (wn : Bool) (atol rtol : K)
    (h : normalizeFactor E P self band target .stmag wl force area vega = .ok (k, s', wn))
    (sm bm : Synphot.Tree K) (hsm : s'.model = .ok sm) (hbm : band.model = .ok bm)
    (hsrc : ∀ x v, 0 < x → (Synphot.Tree.bin .mul sm bm).eval E x = .ok v → 0 ≤ v)
    (hband : ∀ x v, 0 < x → bm.eval E x = .ok v → 0 ≤ v)
    (o : Obs K) (ho : o.model = .bin .mul (.scale sm k) bm) (hob : o.band = band)
    (area' : Option K) (vega' : Option (Synphot.Tree K)) :
    effstim E P.mergeThr atol rtol o .stmag wl area' vega' = .ok target := by
  obtain ⟨w, yp, xb, yb, hxb, hyb, hvb, hynn, htot, hsdpos, hkv, heff⟩ :=
    density_setup E hP P self band target .stmag (by refine ⟨?_, ?_, ?_⟩ <;> intro h <;> cases h)
      wl force area vega k s' wn atol rtol h E.P.stZero .flam rfl trivial trivial hP.st.le sm bm hsm hbm hsrc hband o ho hob
      area' vega'
  have hh := hP.h; have hc := hP.c; have hz := hP.st
  have hhc : 0 < E.P.h * E.P.c := mul_pos hh hc
  set tot := |trapz (w.zip yp)| with htotdef
  set B := trapz ((xb.zip yb).map fun p => (p.1, p.1 * p.2)) with hB
  have hsd : |trapz ((xb.zip yb).map fun p => (p.1, flatPhotlam E.P .flam E.P.stZero p.1 * p.2))| =
      E.P.stZero * |B| / (E.P.h * E.P.c) := by
    rw [std_flam E.P (xb.zip yb) E.P.stZero, abs_mul, abs_of_pos (div_pos hz hhc)]
    show E.P.stZero / (E.P.h * E.P.c) * |B| = _
    ring
  have hsdpos' := hsdpos rfl
  rw [hsd] at hkv hsdpos'
  have hBpos : 0 < |B| := by
    rcases (abs_nonneg B).lt_or_eq with hlt | heq
    · exact hlt
    · rw [← heq] at hsdpos'; simp at hsdpos'
  have hkv' : k = ofMag E.T target * (E.P.stZero * |B| / (E.P.h * E.P.c) / tot) := by
    rw [hkv]; exact factorValue_mag hT .stmag rfl _ _ _ htot hsdpos'
  have hm := ofMag_pos hT target
  have hk : 0 < k := by rw [hkv']; positivity
  have hnum : |k * (E.P.h * E.P.c) * trapz (w.zip yp)| = k * (E.P.h * E.P.c) * tot := by
    rw [abs_mul, abs_of_pos (mul_pos hk hhc)]
  rw [heff]
  simp only [hnum, validateTotalflux_of_pos (mul_pos (mul_pos hk hhc) htot), validateTotalflux_of_pos hBpos, ok_bind']
  have e : k * (E.P.h * E.P.c) * tot / |B| / E.P.stZero = ofMag E.T target := by
    rw [hkv']
    have := ne_of_gt htot; have := ne_of_gt hBpos; have := ne_of_gt hhc; have := ne_of_gt hz
    field_simp
  rw [toMag_congr e, toMag_ofMag hT]

/-- a positive pivot wavelength means both `∫P/λ` and `∫λP` are non-zero on the bandpass grid, and the
pivot squares to their quotient -/
theorem pivot_facts (E : Env K) (hT : E.T.Lawful) (thr : K) (bm : Synphot.Tree K) (wl : Option (List K))
    (xb yb : List K) (wp : K)
    (hxb : wavelengthsOr thr bm wl = .ok xb) (hyb : sampleTree E bm xb = .ok yb)
    (hpiv : pivot E thr bm wl = .ok wp) (hwp : 0 < wp) :
    trapz ((xb.zip yb).map fun p => (p.1, p.2 / p.1)) ≠ 0 ∧
    trapz ((xb.zip yb).map fun p => (p.1, p.1 * p.2)) ≠ 0 ∧
    wp * wp = |trapz ((xb.zip yb).map fun p => (p.1, p.1 * p.2))| /
      |trapz ((xb.zip yb).map fun p => (p.1, p.2 / p.1))| := by
  rw [pivot_value E thr bm wl xb yb hxb hyb] at hpiv
  injection hpiv with hpiv
  set A := trapz ((xb.zip yb).map fun p => (p.1, p.2 / p.1))
  set B := trapz ((xb.zip yb).map fun p => (p.1, p.1 * p.2))
  have hA : A ≠ 0 := by
    intro hA; rw [if_pos hA] at hpiv; rw [← hpiv] at hwp; exact lt_irrefl _ hwp
  rw [if_neg hA] at hpiv
  have hsq : wp * wp = |B / A| := by rw [← hpiv]; exact hT.sqrt_mul_self _ (abs_nonneg _)
  have hB : B ≠ 0 := by
    intro hB
    rw [hB, zero_div, abs_zero] at hsq
    exact absurd (mul_self_eq_zero.mp hsq) (ne_of_gt hwp)
  exact ⟨hA, hB, by rw [hsq, abs_div]⟩

/-- **Jy / prefixed-Jy target, end to end** (explicit or implicit wavelengths): for a positive target, non-negative source × band and
throughput, and a bandpass with a positive pivot wavelength, `effstim` in the target's unit is the target -/
theorem normalize_jy_of_pivot (E : Env K) (hP : E.P.Pos) (hT : E.T.Lawful) (P : OverlapPar K) (self band : Spec K)
    (s target : K) (hs : 0 < s) (ht : 0 < target)
    (wl : Option (List K)) (force : Bool) (area : Option K) (vega : Option (Synphot.Tree K))
    (k : K) (s' : Spec K) (wn : Bool) (atol rtol : K)
    (h : normalizeFactor E P self band target (.jy s) wl force area vega = .ok (k, s', wn))
    (sm bm : Synphot.Tree K) (hsm : s'.model = .ok sm) (hbm : band.model = .ok bm)
    (hsrc : ∀ x v, 0 < x → (Synphot.Tree.bin .mul sm bm).eval E x = .ok v → 0 ≤ v)
    (hband : ∀ x v, 0 < x → bm.eval E x = .ok v → 0 ≤ v)
    (wp : K) (hpiv : pivot E P.mergeThr bm wl = .ok wp) (hwp : 0 < wp)
    (o : Obs K) (ho : o.model = .bin .mul (.scale sm k) bm) (hob : o.band = band)
    (area' : Option K) (vega' : Option (Synphot.Tree K)) :
    effstim E P.mergeThr atol rtol o (.jy s) wl area' vega' = .ok target := by
  obtain ⟨w, yp, xb, yb, hxb, hyb, hvb, hynn, htot, _, hkv, heff⟩ :=
    density_setup E hP P self band target (.jy s) (by refine ⟨?_, ?_, ?_⟩ <;> intro h <;> cases h)
      wl force area vega k s' wn atol rtol h 1 (.jy s) rfl trivial hs zero_le_one sm bm hsm hbm hsrc hband o ho hob
      area' vega'
  obtain ⟨hA, hB, hsq⟩ := pivot_facts E hT P.mergeThr bm wl xb yb wp hxb hyb hpiv hwp
  have hh := hP.h; have hc := hP.c; have hj := hP.jy
  have hhc : 0 < E.P.h * E.P.c := mul_pos hh hc
  set tot := |trapz (w.zip yp)| with htotdef
  set B := trapz ((xb.zip yb).map fun p => (p.1, p.1 * p.2)) with hBdef
  set A := trapz ((xb.zip yb).map fun p => (p.1, p.2 / p.1)) with hAdef
  have hposb : ∀ p ∈ xb.zip yb, p.1 ≠ 0 := fun p hp =>
    ne_of_gt (((validate_ok_iff xb).mp hvb).1 p.1 (List.of_mem_zip hp).1)
  have hsd : |trapz ((xb.zip yb).map fun p => (p.1, flatPhotlam E.P (.jy s) 1 p.1 * p.2))| =
      s * E.P.jyFnu * E.P.c / (E.P.h * E.P.c) * |A| := by
    rw [std_jy E.P (xb.zip yb) s 1 hposb, abs_mul, one_mul, abs_of_pos (by positivity)]
    rfl
  rw [hsd] at hkv
  have hkv' : k = target * (s * E.P.jyFnu * E.P.c / (E.P.h * E.P.c) * |A| / tot) := by
    rw [hkv]; simp [factorValue, FluxUnit.isMag]
  have hApos : 0 < |A| := abs_pos.mpr hA
  have hBpos : 0 < |B| := abs_pos.mpr hB
  have hk : 0 < k := by rw [hkv']; positivity
  have hnum : |k * (E.P.h * E.P.c) * trapz (w.zip yp)| = k * (E.P.h * E.P.c) * tot := by
    rw [abs_mul, abs_of_pos (mul_pos hk hhc)]
  rw [heff]
  simp only [hnum, validateTotalflux_of_pos (mul_pos (mul_pos hk hhc) htot), validateTotalflux_of_pos hBpos, ok_bind',
    hpiv, convert_flam_jy E.P E.T hP s wp _ hwp]
  congr 1
  rw [hsq, hkv']
  have := ne_of_gt htot; have := ne_of_gt hBpos; have := ne_of_gt hh; have := ne_of_gt hc
  have := ne_of_gt hApos; have := ne_of_gt hs; have := ne_of_gt hj
  field_simp

/-- **FNU target, end to end** (explicit or implicit wavelengths), positive pivot assumed -/
theorem normalize_fnu_of_pivot (E : Env K) (hP : E.P.Pos) (hT : E.T.Lawful) (P : OverlapPar K) (self band : Spec K)
    (target : K) (ht : 0 < target)
    (wl : Option (List K)) (force : Bool) (area : Option K) (vega : Option (Synphot.Tree K))
    (k : K) (s' : Spec K) (wn : Bool) (atol rtol : K)
    (h : normalizeFactor E P self band target .fnu wl force area vega = .ok (k, s', wn))
    (sm bm : Synphot.Tree K) (hsm : s'.model = .ok sm) (hbm : band.model = .ok bm)
    (hsrc : ∀ x v, 0 < x → (Synphot.Tree.bin .mul sm bm).eval E x = .ok v → 0 ≤ v)
    (hband : ∀ x v, 0 < x → bm.eval E x = .ok v → 0 ≤ v)
    (wp : K) (hpiv : pivot E P.mergeThr bm wl = .ok wp) (hwp : 0 < wp)
    (o : Obs K) (ho : o.model = .bin .mul (.scale sm k) bm) (hob : o.band = band)
    (area' : Option K) (vega' : Option (Synphot.Tree K)) :
    effstim E P.mergeThr atol rtol o .fnu wl area' vega' = .ok target := by
  obtain ⟨w, yp, xb, yb, hxb, hyb, hvb, hynn, htot, _, hkv, heff⟩ :=
    density_setup E hP P self band target .fnu (by refine ⟨?_, ?_, ?_⟩ <;> intro h <;> cases h)
      wl force area vega k s' wn atol rtol h 1 .fnu rfl trivial trivial zero_le_one sm bm hsm hbm hsrc hband o ho hob
      area' vega'
  obtain ⟨hA, hB, hsq⟩ := pivot_facts E hT P.mergeThr bm wl xb yb wp hxb hyb hpiv hwp
  have hh := hP.h; have hc := hP.c
  have hhc : 0 < E.P.h * E.P.c := mul_pos hh hc
  set tot := |trapz (w.zip yp)| with htotdef
  set B := trapz ((xb.zip yb).map fun p => (p.1, p.1 * p.2)) with hBdef
  set A := trapz ((xb.zip yb).map fun p => (p.1, p.2 / p.1)) with hAdef
  have hposb : ∀ p ∈ xb.zip yb, p.1 ≠ 0 := fun p hp =>
    ne_of_gt (((validate_ok_iff xb).mp hvb).1 p.1 (List.of_mem_zip hp).1)
  have hsd : |trapz ((xb.zip yb).map fun p => (p.1, flatPhotlam E.P .fnu 1 p.1 * p.2))| =
      E.P.c / (E.P.h * E.P.c) * |A| := by
    rw [std_fnu E.P (xb.zip yb) 1 hposb, abs_mul, one_mul, abs_of_pos (by positivity)]
    rfl
  rw [hsd] at hkv
  have hkv' : k = target * (E.P.c / (E.P.h * E.P.c) * |A| / tot) := by
    rw [hkv]; simp [factorValue, FluxUnit.isMag]
  have hApos : 0 < |A| := abs_pos.mpr hA
  have hBpos : 0 < |B| := abs_pos.mpr hB
  have hk : 0 < k := by rw [hkv']; positivity
  have hnum : |k * (E.P.h * E.P.c) * trapz (w.zip yp)| = k * (E.P.h * E.P.c) * tot := by
    rw [abs_mul, abs_of_pos (mul_pos hk hhc)]
  rw [heff]
  simp only [hnum, validateTotalflux_of_pos (mul_pos (mul_pos hk hhc) htot), validateTotalflux_of_pos hBpos, ok_bind',
    hpiv, convert_flam_fnu E.P E.T hP wp _ hwp]
  congr 1
  rw [hsq, hkv']
  have := ne_of_gt htot; have := ne_of_gt hBpos; have := ne_of_gt hh; have := ne_of_gt hc
  have := ne_of_gt hApos
  field_simp

/-- **ABmag target, end to end** (explicit or implicit wavelengths), for every real target, positive pivot assumed -/
theorem normalize_abmag_of_pivot (E : Env K) (hP : E.P.Pos) (hT : E.T.Lawful) (P : OverlapPar K) (self band : Spec K)
    (target : K) (wl : Option (List K)) (force : Bool) (area : Option K) (vega : Option (Synphot.Tree K))
    (k : K) (s' : Spec K) (wn : Bool) (atol rtol : K)
    (h : normalizeFactor E P self band target .abmag wl force area vega = .ok (k, s', wn))
    (sm bm : Synphot.Tree K) (hsm : s'.model = .ok sm) (hbm : band.model = .ok bm)
    (hsrc : ∀ x v, 0 < x → (Synphot.Tree.bin .mul sm bm).eval E x = .ok v → 0 ≤ v)
    (hband : ∀ x v, 0 < x → bm.eval E x = .ok v → 0 ≤ v)
    (wp : K) (hpiv : pivot E P.mergeThr bm wl = .ok wp) (hwp : 0 < wp)
    (o : Obs K) (ho : o.model = .bin .mul (.scale sm k) bm) (hob : o.band = band)
    (area' : Option K) (vega' : Option (Synphot.Tree K)) :
    effstim E P.mergeThr atol rtol o .abmag wl area' vega' = .ok target := by
  obtain ⟨w, yp, xb, yb, hxb, hyb, hvb, hynn, htot, hsdpos, hkv, heff⟩ :=
    density_setup E hP P self band target .abmag (by refine ⟨?_, ?_, ?_⟩ <;> intro h <;> cases h)
      wl force area vega k s' wn atol rtol h E.P.abZero .fnu rfl trivial trivial hP.ab.le sm bm hsm hbm hsrc hband o ho hob
      area' vega'
  obtain ⟨hA, hB, hsq⟩ := pivot_facts E hT P.mergeThr bm wl xb yb wp hxb hyb hpiv hwp
  have hh := hP.h; have hc := hP.c; have hz := hP.ab
  have hhc : 0 < E.P.h * E.P.c := mul_pos hh hc
  set tot := |trapz (w.zip yp)| with htotdef
  set B := trapz ((xb.zip yb).map fun p => (p.1, p.1 * p.2)) with hBdef
  set A := trapz ((xb.zip yb).map fun p => (p.1, p.2 / p.1)) with hAdef
  have hposb : ∀ p ∈ xb.zip yb, p.1 ≠ 0 := fun p hp =>
    ne_of_gt (((validate_ok_iff xb).mp hvb).1 p.1 (List.of_mem_zip hp).1)
  have hsd : |trapz ((xb.zip yb).map fun p => (p.1, flatPhotlam E.P .fnu E.P.abZero p.1 * p.2))| =
      E.P.abZero * E.P.c / (E.P.h * E.P.c) * |A| := by
    rw [std_fnu E.P (xb.zip yb) E.P.abZero hposb, abs_mul, abs_of_pos (by positivity)]
    rfl
  have hsdpos' := hsdpos rfl
  rw [hsd] at hkv hsdpos'
  have hkv' : k = ofMag E.T target * (E.P.abZero * E.P.c / (E.P.h * E.P.c) * |A| / tot) := by
    rw [hkv]; exact factorValue_mag hT .abmag rfl _ _ _ htot hsdpos'
  have hm := ofMag_pos hT target
  have hApos : 0 < |A| := abs_pos.mpr hA
  have hBpos : 0 < |B| := abs_pos.mpr hB
  have hk : 0 < k := by rw [hkv']; positivity
  have hnum : |k * (E.P.h * E.P.c) * trapz (w.zip yp)| = k * (E.P.h * E.P.c) * tot := by
    rw [abs_mul, abs_of_pos (mul_pos hk hhc)]
  rw [heff]
  simp only [hnum, validateTotalflux_of_pos (mul_pos (mul_pos hk hhc) htot), validateTotalflux_of_pos hBpos, ok_bind',
    hpiv, convert_flam_abmag E.P E.T hP wp _ hwp]
  have e : k * (E.P.h * E.P.c) * tot / |B| * (wp * wp) / E.P.c / E.P.abZero = ofMag E.T target := by
    rw [hsq, hkv']
    have := ne_of_gt htot; have := ne_of_gt hBpos; have := ne_of_gt hh; have := ne_of_gt hc
    have := ne_of_gt hApos; have := ne_of_gt hz
    field_simp
  rw [toMag_congr e, toMag_ofMag hT]

/-! The three pivot-converted units without the pivot hypothesis: for a non-negative bandpass on the
(validated, hence strictly monotone and positive) grid of the call `∫P/λ ≠ 0` forces `∫λP ≠ 0`
(`band_B_ne_zero`), so the pivot is positive as soon as the standard spectrum's band integral is.
Explicit or implicit wavelengths: since 673f123 `Observation.effstim` converts its FLAM value at
`self.bandpass.pivot(wavelengths=wavelengths)` — the pivot on the grid the integrals were taken on, which
is the grid `normalize` integrated the standard spectrum × band on.  (Before that fix the statements
failed for explicit wavelengths: 3 FNU requested on `[2000, 3000, 4000]` through a bandpass tabulated at
2000 and 4000 Å was observed as 2.8333 FNU.) -/

/-- **Jy / prefixed-Jy target, end to end** (explicit or implicit wavelengths): for non-negative source × band and
throughput and a positive returned factor, `effstim` in the target's unit is the target -/
theorem normalize_jy_model (E : Env K) (hP : E.P.Pos) (hT : E.T.Lawful) (P : OverlapPar K) (self band : Spec K)
    (s target : K) (hs : 0 < s)
    (wl : Option (List K)) (force : Bool) (area : Option K) (vega : Option (Synphot.Tree K))
    (k : K) (s' : Spec K) (wn : Bool) (atol rtol : K)
    (h : normalizeFactor E P self band target (.jy s) wl force area vega = .ok (k, s', wn)) (hk : 0 < k)
    (sm bm : Synphot.Tree K) (hsm : s'.model = .ok sm) (hbm : band.model = .ok bm)
    (hsrc : ∀ x v, 0 < x → (Synphot.Tree.bin .mul sm bm).eval E x = .ok v → 0 ≤ v)
    (hband : ∀ x v, 0 < x → bm.eval E x = .ok v → 0 ≤ v)
    (o : Obs K) (ho : o.model = .bin .mul (.scale sm k) bm) (hob : o.band = band)
    (area' : Option K) (vega' : Option (Synphot.Tree K)) :
    effstim E P.mergeThr atol rtol o (.jy s) wl area' vega' = .ok target := by
  obtain ⟨w, yp, xb, yb, hxb, hyb, hvb, hynn, htot, _, hkv, _⟩ :=
    density_setup E hP P self band target (.jy s) (by refine ⟨?_, ?_, ?_⟩ <;> intro h <;> cases h)
      wl force area vega k s' wn atol rtol h 1 (.jy s) rfl trivial hs zero_le_one sm bm hsm hbm hsrc hband o ho hob
      area' vega'
  have hposb : ∀ p ∈ xb.zip yb, p.1 ≠ 0 := fun p hp =>
    ne_of_gt (((validate_ok_iff xb).mp hvb).1 p.1 (List.of_mem_zip hp).1)
  rw [std_jy E.P (xb.zip yb) s 1 hposb] at hkv
  have hkv' : k = target * (|1 * s * E.P.jyFnu * E.P.c / (E.P.h * E.P.c) * trapz (oLam (xb.zip yb))| /
      |trapz (w.zip yp)|) := by rw [hkv]; simp [factorValue, FluxUnit.isMag]
  have hA : trapz ((xb.zip yb).map fun p => (p.1, p.2 / p.1)) ≠ 0 := by
    intro hA
    have : trapz (oLam (xb.zip yb)) = 0 := hA
    rw [this] at hkv'; simp at hkv'; exact absurd hkv' (ne_of_gt hk)
  have ht : 0 < target := by
    have h1 : 0 ≤ |1 * s * E.P.jyFnu * E.P.c / (E.P.h * E.P.c) * trapz (oLam (xb.zip yb))| / |trapz (w.zip yp)| :=
      div_nonneg (abs_nonneg _) htot.le
    rw [hkv'] at hk
    by_contra hneg
    exact absurd hk (not_lt.mpr (mul_nonpos_of_nonpos_of_nonneg (not_lt.mp hneg) h1))
  obtain ⟨wp, hpiv, hwp⟩ := pivot_pos_of_band E hT P.mergeThr bm wl xb yb hxb hvb hyb hynn hA
  exact normalize_jy_of_pivot E hP hT P self band s target hs ht wl force area vega k s' wn atol rtol h sm bm hsm hbm
    hsrc hband wp hpiv hwp o ho hob area' vega'

/-- **FNU target, end to end** (explicit or implicit wavelengths) -/
theorem normalize_fnu_model (E : Env K) (hP : E.P.Pos) (hT : E.T.Lawful) (P : OverlapPar K) (self band : Spec K)
    (target : K) (wl : Option (List K)) (force : Bool) (area : Option K) (vega : Option (Synphot.Tree K))
    (k : K) (s' : Spec K) (wn : Bool) (atol rtol : K)
    (h : normalizeFactor E P self band target .fnu wl force area vega = .ok (k, s', wn)) (hk : 0 < k)
    (sm bm : Synphot.Tree K) (hsm : s'.model = .ok sm) (hbm : band.model = .ok bm)
    (hsrc : ∀ x v, 0 < x → (Synphot.Tree.bin .mul sm bm).eval E x = .ok v → 0 ≤ v)
    (hband : ∀ x v, 0 < x → bm.eval E x = .ok v → 0 ≤ v)
    (o : Obs K) (ho : o.model = .bin .mul (.scale sm k) bm) (hob : o.band = band)
    (area' : Option K) (vega' : Option (Synphot.Tree K)) :
    effstim E P.mergeThr atol rtol o .fnu wl area' vega' = .ok target := by
  obtain ⟨w, yp, xb, yb, hxb, hyb, hvb, hynn, htot, _, hkv, _⟩ :=
    density_setup E hP P self band target .fnu (by refine ⟨?_, ?_, ?_⟩ <;> intro h <;> cases h)
      wl force area vega k s' wn atol rtol h 1 .fnu rfl trivial trivial zero_le_one sm bm hsm hbm hsrc hband o ho hob
      area' vega'
  have hposb : ∀ p ∈ xb.zip yb, p.1 ≠ 0 := fun p hp =>
    ne_of_gt (((validate_ok_iff xb).mp hvb).1 p.1 (List.of_mem_zip hp).1)
  rw [std_fnu E.P (xb.zip yb) 1 hposb] at hkv
  have hkv' : k = target * (|1 * E.P.c / (E.P.h * E.P.c) * trapz (oLam (xb.zip yb))| /
      |trapz (w.zip yp)|) := by rw [hkv]; simp [factorValue, FluxUnit.isMag]
  have hA : trapz ((xb.zip yb).map fun p => (p.1, p.2 / p.1)) ≠ 0 := by
    intro hA
    have : trapz (oLam (xb.zip yb)) = 0 := hA
    rw [this] at hkv'; simp at hkv'; exact absurd hkv' (ne_of_gt hk)
  have ht : 0 < target := by
    have h1 : 0 ≤ |1 * E.P.c / (E.P.h * E.P.c) * trapz (oLam (xb.zip yb))| / |trapz (w.zip yp)| :=
      div_nonneg (abs_nonneg _) htot.le
    rw [hkv'] at hk
    by_contra hneg
    exact absurd hk (not_lt.mpr (mul_nonpos_of_nonpos_of_nonneg (not_lt.mp hneg) h1))
  obtain ⟨wp, hpiv, hwp⟩ := pivot_pos_of_band E hT P.mergeThr bm wl xb yb hxb hvb hyb hynn hA
  exact normalize_fnu_of_pivot E hP hT P self band target ht wl force area vega k s' wn atol rtol h sm bm hsm hbm
    hsrc hband wp hpiv hwp o ho hob area' vega'

/-- **ABmag target, end to end** (explicit or implicit wavelengths), for every real target; no hypothesis beyond
non-negative source × band and throughput (the magnitude branch already refuses `std ≤ 0`) -/
theorem normalize_abmag_model (E : Env K) (hP : E.P.Pos) (hT : E.T.Lawful) (P : OverlapPar K) (self band : Spec K)
    (target : K) (wl : Option (List K)) (force : Bool) (area : Option K) (vega : Option (Synphot.Tree K))
    (k : K) (s' : Spec K) (wn : Bool) (atol rtol : K)
    (h : normalizeFactor E P self band target .abmag wl force area vega = .ok (k, s', wn))
    (sm bm : Synphot.Tree K) (hsm : s'.model = .ok sm) (hbm : band.model = .ok bm)
    (hsrc : ∀ x v, 0 < x → (Synphot.Tree.bin .mul sm bm).eval E x = .ok v → 0 ≤ v)
    (hband : ∀ x v, 0 < x → bm.eval E x = .ok v → 0 ≤ v)
    (o : Obs K) (ho : o.model = .bin .mul (.scale sm k) bm) (hob : o.band = band)
    (area' : Option K) (vega' : Option (Synphot.Tree K)) :
    effstim E P.mergeThr atol rtol o .abmag wl area' vega' = .ok target := by
  obtain ⟨w, yp, xb, yb, hxb, hyb, hvb, hynn, htot, hsdpos, hkv, _⟩ :=
    density_setup E hP P self band target .abmag (by refine ⟨?_, ?_, ?_⟩ <;> intro h <;> cases h)
      wl force area vega k s' wn atol rtol h E.P.abZero .fnu rfl trivial trivial hP.ab.le sm bm hsm hbm hsrc hband o ho hob
      area' vega'
  have hposb : ∀ p ∈ xb.zip yb, p.1 ≠ 0 := fun p hp =>
    ne_of_gt (((validate_ok_iff xb).mp hvb).1 p.1 (List.of_mem_zip hp).1)
  have hsd := hsdpos rfl
  rw [std_fnu E.P (xb.zip yb) E.P.abZero hposb] at hsd
  have hA : trapz ((xb.zip yb).map fun p => (p.1, p.2 / p.1)) ≠ 0 := by
    intro hA
    have : trapz (oLam (xb.zip yb)) = 0 := hA
    rw [this] at hsd; simp at hsd
  obtain ⟨wp, hpiv, hwp⟩ := pivot_pos_of_band E hT P.mergeThr bm wl xb yb hxb hvb hyb hynn hA
  exact normalize_abmag_of_pivot E hP hT P self band target wl force area vega k s' wn atol rtol h sm bm hsm hbm
    hsrc hband wp hpiv hwp o ho hob area' vega'

/-- **photon-flux-density targets, end to end** (PHOTLAM, PHOTNU — and every linear density unit; explicit
or implicit wavelengths; no sign condition on the flux): the normalised spectrum × band and the spectrum
flat at the target × band have the same integral `integrate(wavelengths, 'trapezoid')` — the same
photon rate through the band -/
theorem normalize_photon_rate_model (E : Env K) (P : OverlapPar K) (self band : Spec K) (target : K)
    (u : FluxUnit K) (hu : IsLinearDensity u) (ht : 0 ≤ target)
    (wl : Option (List K)) (force : Bool) (area : Option K) (vega : Option (Synphot.Tree K))
    (k : K) (s' : Spec K) (wn : Bool)
    (h : normalizeFactor E P self band target u wl force area vega = .ok (k, s', wn))
    (sm bm : Synphot.Tree K) (hsm : s'.model = .ok sm) (hbm : band.model = .ok bm) :
    ∃ w xb r, wavelengthsOr P.mergeThr (.bin .mul (.scale sm k) bm) wl = .ok w ∧
      wavelengthsOr P.mergeThr (.bin .mul (.leaf (.constFlux target u)) bm) wl = .ok xb ∧
      integrateTrapz E (.bin .mul (.scale sm k) bm) w = .ok r ∧
      integrateTrapz E (.bin .mul (.leaf (.constFlux target u)) bm) xb = .ok r := by
  obtain ⟨sm', bm', total, std, h1, h2, h3, hpos, _, hk⟩ :=
    factor_formula E P self band target u wl force area vega k s' wn h
  rw [hsm] at h1; injection h1 with h1; subst h1
  rw [hbm] at h2; injection h2 with h2; subst h2
  have hnc : u ≠ .count ∧ u ≠ .obmag := by
    constructor <;> (intro hc; rw [hc] at hu; exact hu)
  rw [normalizeIntegrals_density E P sm bm u wl area vega hnc.1 hnc.2] at h3
  obtain ⟨w, hw, h3⟩ := bind_ok h3
  obtain ⟨tot, htot, h3⟩ := bind_ok h3
  obtain ⟨st, hst, h3⟩ := bind_ok h3
  have hst' : st = .leaf (.constFlux 1 u) := by
    cases u <;> first | (simp only [stdTreeOf, pure, Except.pure] at hst; injection hst with hst; exact hst.symm) | exact absurd hu (by simp [IsLinearDensity])
  subst hst'
  obtain ⟨wu, hwu, h3⟩ := bind_ok h3
  obtain ⟨sd, hsd, h3⟩ := bind_ok h3
  simp only [pure, Except.pure] at h3
  injection h3 with h3; injection h3 with e1 e2
  subst e1; subst e2
  obtain ⟨ys, _, _, hsdv⟩ := integrateTrapz_ok hsd
  have hsdnn : 0 ≤ sd := by rw [hsdv]; exact abs_nonneg _
  have hk' : k = target * (sd / tot) := by
    rw [hk]
    cases u <;> first | (simp [factorValue, FluxUnit.isMag]; done) | exact absurd hu (by simp [IsLinearDensity])
  have hknn : 0 ≤ k := by rw [hk']; exact mul_nonneg ht (div_nonneg hsdnn hpos.le)
  refine ⟨w, wu, k * tot, ?_, ?_, integrateTrapz_scaled E sm bm k hknn w tot htot, ?_⟩
  · rw [wavelengthsOr_scaled]; exact hw
  · rw [wavelengthsOr_flat] at hwu ⊢; exact hwu
  · have := integrateTrapz_smul_of_eval E _ _ target ht (eval_flat_amp E u hu target bm) wu sd hsd
    rw [this]; congr 1; rw [hk']; have := ne_of_gt hpos; field_simp

/-! ### the operand after the call; the call returns when its pieces succeed -/

/-- whatever the unit, target and `force`: the operand comes back either untouched (no warning) or
switched to extrapolation (with the warning) — nothing else happens to it -/
theorem operand_after_call (E : Env K) (P : OverlapPar K) (self band : Spec K) (target : K)
    (u : FluxUnit K) (wl : Option (List K)) (force : Bool) (area : Option K) (vega : Option (Synphot.Tree K))
    (k : K) (s' : Spec K) (wn : Bool)
    (h : normalizeFactor E P self band target u wl force area vega = .ok (k, s', wn)) :
    (s' = self ∧ wn = false) ∨ (s' = (self.forceExtrap).1 ∧ wn = true) := by
  have hadm := (normalizeFactor_ok h).1
  unfold normalizeAdmit at hadm
  by_cases hb : band.kind = .bandpass
  · simp only [hb, ne_eq, not_true_eq_false, if_false, ok_bind', pure_bind] at hadm
    obtain ⟨stat, hst, hadm⟩ := bind_ok hadm
    cases stat <;> cases force <;> simp only [pure, Except.pure, if_true, if_false, Bool.false_eq_true] at hadm <;>
      first
        | (injection hadm with hadm; injection hadm with h1 h2; exact Or.inl ⟨h1.symm, h2.symm⟩)
        | (injection hadm with hadm; injection hadm with h1 h2; exact Or.inr ⟨h1.symm, h2.symm⟩)
        | cases hadm
  · simp only [hb, ne_eq, not_false_eq_true, if_true] at hadm
    cases hadm

/-- the switch to extrapolation touches nothing but the fill rule of a tabulated model: class,
redshift state, points, values and `keep_neg` are kept, and a spectrum whose model is not a table is
returned as it is -/
theorem extrapolation_switch (s : Spec K) :
    (s.forceExtrap).1.kind = s.kind ∧ (s.forceExtrap).1.zs = s.zs ∧
    ((s.forceExtrap).1 = s ∨
      (∃ t, s.tree = .leaf (.table t) ∧ (s.forceExtrap).1.tree = .leaf (.table t.forceExtrap)) ∨
      (∃ t, s.tree = .leaf (.extinction t) ∧ (s.forceExtrap).1.tree = .leaf (.extinction t.forceExtrap))) := by
  unfold Spec.forceExtrap
  split
  · rename_i t ht; exact ⟨rfl, rfl, Or.inr (Or.inl ⟨t, ht, rfl⟩)⟩
  · rename_i t ht; exact ⟨rfl, rfl, Or.inr (Or.inr ⟨t, ht, rfl⟩)⟩
  · exact ⟨rfl, rfl, Or.inl rfl⟩

/-- … and inside the table's own range the extrapolating table takes the same values -/
theorem extrapolation_switch_inside (t : Table K) (x : K) (h1 : t.pts.headD 0 ≤ x) (h2 : x ≤ t.pts.getLastD 0) :
    t.forceExtrap.eval x = t.eval x ∧ t.forceExtrap.pts = t.pts ∧ t.forceExtrap.vals = t.vals ∧
      t.forceExtrap.keepNeg = t.keepNeg := by
  refine ⟨?_, rfl, rfl, rfl⟩
  simp only [Table.eval, Table.forceExtrap, if_neg (not_lt.mpr h1), if_neg (not_lt.mpr h2)]

/-- **the call returns** whenever the operand is admitted, both band integrals can be formed, the source's
is positive and (magnitude units) the quotient is positive — with the factor `factorValue` -/
theorem normalize_returns (E : Env K) (P : OverlapPar K) (self band : Spec K) (target : K)
    (u : FluxUnit K) (wl : Option (List K)) (force : Bool) (area : Option K) (vega : Option (Synphot.Tree K))
    (s' : Spec K) (wn : Bool) (sm bm : Synphot.Tree K) (total std : K)
    (hadm : normalizeAdmit E P self band wl force = .ok (s', wn))
    (h1 : s'.model = .ok sm) (h2 : band.model = .ok bm)
    (h3 : normalizeIntegrals E P sm bm u wl area vega = .ok (total, std)) (hpos : 0 < total)
    (hq : u.isMag = true → 0 < total / std) :
    normalizeFactor E P self band target u wl force area vega = .ok (factorValue E.T u target total std, s', wn) :=
  normalizeFactor_of_pieces hadm h1 h2 h3 hpos hq

/-! ## Non-vacuity

Sums level: constants all 1 (`Witness.phys`), the real transcendental functions, source × band samples
`(2, 2), (4, 2)`, bandpass samples `(2, 1), (4, 1)`: `total = 4`, `∫λP = 6`, `∫P/λ = 3/4`. -/

section NonVacuity
open Witness

private theorem wObs : (0 : ℝ) < trapz [(2, 2), (4, 2)] := by norm_num [trapz]
private theorem wObs' : trapz [((2 : ℝ), (2 : ℝ)), (4, 2)] ≠ 0 := ne_of_gt wObs
private theorem wB : (0 : ℝ) < trapz (C09.timesLam [(2, 1), (4, 1)]) := by norm_num [trapz, C09.timesLam]
private theorem wA : (0 : ℝ) < trapz (C09.overLam [(2, 1), (4, 1)]) := by norm_num [trapz, C09.overLam]
private theorem wPos : ∀ p ∈ ([(2, 2), (4, 2)] : List (ℝ × ℝ)), p.1 ≠ 0 := by
  intro p hp; simp only [List.mem_cons, List.not_mem_nil, or_false] at hp; rcases hp with rfl | rfl <;> norm_num
private theorem wPosb : ∀ p ∈ ([(2, 1), (4, 1)] : List (ℝ × ℝ)), p.1 ≠ 0 := by
  intro p hp; simp only [List.mem_cons, List.not_mem_nil, or_false] at hp; rcases hp with rfl | rfl <;> norm_num

example : 0 < factorValue Transc.real (.jy (1 / 1000)) 3 4 (3 / 4) :=
  factor_pos_every_unit Transc.real Transc.real_lawful _ 3 4 (3 / 4) (by norm_num) (by norm_num) (Or.inr (by norm_num))
example (m : ℝ) : 0 < factorValue Transc.real .abmag m 4 6 :=
  factor_pos_every_unit Transc.real Transc.real_lawful _ m 4 6 (by norm_num) (by norm_num) (Or.inl rfl)

/-- 3 mJy -/
example := normalize_hits_target_jy (phys : PhysConst ℝ) Transc.real phys_pos Transc.real_lawful
  [(2, 2), (4, 2)] [(2, 1), (4, 1)] (1 / 1000) 3 (by norm_num) (by norm_num) wPos wPosb wObs wB wA
/-- −2.5 STmag, 30 ABmag -/
example := normalize_hits_target_stmag (phys : PhysConst ℝ) Transc.real phys_pos Transc.real_lawful
  [(2, 2), (4, 2)] [(2, 1), (4, 1)] (-5 / 2) wPos wObs wB
example := normalize_hits_target_abmag (phys : PhysConst ℝ) Transc.real phys_pos Transc.real_lawful
  [(2, 2), (4, 2)] [(2, 1), (4, 1)] 30 wPos wPosb wObs wB wA
/-- fluxes 2, 2 with count factors 2, 2 (bin width 2 × area 1): 8 counts before, 5 after -/
example : (mulFactors (([2, 2] : List ℝ).map (factorValue Transc.real .count 5 (mulFactors [2, 2] [2, 2]).sum 1 * ·)) [2, 2]).sum = 5 :=
  normalize_hits_target_count Transc.real [2, 2] [2, 2] 5 (by norm_num [mulFactors])
example := normalize_hits_target_obmag Transc.real Transc.real_lawful ([2, 2] : List ℝ) [2, 2] (-1) (by norm_num [mulFactors])
/-- Vega × band samples `(2, 1), (4, 1)` -/
example := normalize_hits_target_vegamag Transc.real Transc.real_lawful [(2, 2), (4, 2)] [((2 : ℝ), (1 : ℝ)), (4, 1)] (7 / 2)
  wObs (by norm_num [trapz])
example := normalize_matches_flat (phys : PhysConst ℝ) Transc.real .photnu trivial [(2, 2), (4, 2)] [(2, 1), (4, 1)] 3 wObs'
example := normalize_photlam_rate Transc.real (phys : PhysConst ℝ) [(2, 2), (4, 2)] [(2, 1), (4, 1)] 3 wObs'

/-! Model level: the call `normalize(target, band)` of a source flat at 2 PHOTLAM (`Witness.src 2`, no
sampling set ⇒ full overlap) through the box bandpass `Witness.band` (height 1 on [1, 5], sampled at 2
and 4), constants all 1, real transcendental functions: `total = 4`; the call returns. -/

noncomputable abbrev wE : Env ℝ := Witness.env Transc.real

/-- the witness call returns for a flux-density unit whose standard spectrum is `ConstFlux1D` -/
private theorem w_call (u : FluxUnit ℝ) (hu : u ≠ .count) (hu' : u ≠ .obmag) (target : ℝ)
    (area : Option ℝ) (vega : Option (Synphot.Tree ℝ)) (a0 : ℝ) (u0 : FluxUnit ℝ)
    (hstd : stdTreeOf wE u vega = .ok (.leaf (.constFlux a0 u0))) (hu0 : IsLinearDensity u0)
    (hq : 0 < |(|flatPhotlam phys u0 a0 2| + |flatPhotlam phys u0 a0 4|)|) :
    normalizeFactor wE par (src 2) band target u none false area vega =
      .ok (factorValue Transc.real u target |(|(2 : ℝ)| + |2|)| |(|flatPhotlam phys u0 a0 2| + |flatPhotlam phys u0 a0 4|)|,
        src 2, false) :=
  normalizeFactor_of_pieces (admitOk wE 2 false) (src_model 2) band_model
    (integrals_density Transc.real 2 u hu hu' area vega a0 u0 hstd hu0) (by positivity)
    (fun _ => div_pos (by positivity) hq)

private theorem w_tot : |(|(2 : ℝ)| + |2|)| = 4 := by norm_num [abs_of_pos]

example : ∃ k, normalizeFactor wE par (src 2) band 3 .flam none false none none = .ok (k, src 2, false) ∧ 0 < k :=
  ⟨_, w_call .flam (by intro h; cases h) (by intro h; cases h) 3 none none 1 .flam rfl trivial
      (by norm_num [flatPhotlam, phys]), by
    apply factorValue_pos Transc.real_lawful <;> norm_num [flatPhotlam, phys]⟩

/-- FLAM: the normalised observation has `effstim('flam') = 3` -/
example (atol rtol : ℝ) : ∃ k, effstim wE par.mergeThr atol rtol (obs 2 k) .flam none none none = .ok 3 :=
  ⟨_, normalize_flam_model wE phys_pos par (src 2) band 3 none false none none _ (src 2) false atol rtol
    (w_call .flam (by intro h; cases h) (by intro h; cases h) 3 none none 1 .flam rfl trivial
      (by norm_num [flatPhotlam, phys]))
    (by apply factorValue_pos Transc.real_lawful <;> norm_num [flatPhotlam, phys])
    (flatTree 2) bandTree (src_model 2) band_model (prod_nonneg wE 2 (by norm_num)) (band_nonneg wE)
    (obs 2 _) rfl rfl none none⟩

/-- STmag -/
example (atol rtol m : ℝ) : ∃ k, effstim wE par.mergeThr atol rtol (obs 2 k) .stmag none none none = .ok m :=
  ⟨_, normalize_stmag_model wE phys_pos Transc.real_lawful par (src 2) band m none false none none _ (src 2) false atol rtol
    (w_call .stmag (by intro h; cases h) (by intro h; cases h) m none none 1 .flam rfl trivial
      (by norm_num [flatPhotlam, phys]))
    (flatTree 2) bandTree (src_model 2) band_model (prod_nonneg wE 2 (by norm_num)) (band_nonneg wE)
    (obs 2 _) rfl rfl none none⟩

private theorem w_pivot_pos : (0 : ℝ) < Real.sqrt |6 / (3 / 4)| := by
  apply Real.sqrt_pos.mpr; norm_num

/-- 3 mJy, 3 FNU, m ABmag (positive pivot `sqrt 8`) -/
example (atol rtol : ℝ) : ∃ k, effstim wE par.mergeThr atol rtol (obs 2 k) (.jy (1 / 1000)) none none none = .ok 3 :=
  ⟨_, normalize_jy_model wE phys_pos Transc.real_lawful par (src 2) band (1 / 1000) 3 (by norm_num)
    none false none none _ (src 2) false atol rtol
    (w_call (.jy (1 / 1000)) (by intro h; cases h) (by intro h; cases h) 3 none none 1 (.jy (1 / 1000)) rfl trivial
      (by norm_num [flatPhotlam, phys]))
    (by apply factorValue_pos Transc.real_lawful <;> norm_num [flatPhotlam, phys])
    (flatTree 2) bandTree (src_model 2) band_model (prod_nonneg wE 2 (by norm_num)) (band_nonneg wE)
    (obs 2 _) rfl rfl none none⟩

example (atol rtol : ℝ) : ∃ k, effstim wE par.mergeThr atol rtol (obs 2 k) (.jy (1 / 1000)) none none none = .ok 3 :=
  ⟨_, normalize_jy_of_pivot wE phys_pos Transc.real_lawful par (src 2) band (1 / 1000) 3 (by norm_num) (by norm_num)
    none false none none _ (src 2) false atol rtol
    (w_call (.jy (1 / 1000)) (by intro h; cases h) (by intro h; cases h) 3 none none 1 (.jy (1 / 1000)) rfl trivial
      (by norm_num [flatPhotlam, phys]))
    (flatTree 2) bandTree (src_model 2) band_model (prod_nonneg wE 2 (by norm_num)) (band_nonneg wE)
    _ (pivot_val Transc.real _) w_pivot_pos (obs 2 _) rfl rfl none none⟩

example (atol rtol : ℝ) : ∃ k, effstim wE par.mergeThr atol rtol (obs 2 k) .fnu none none none = .ok 3 :=
  ⟨_, normalize_fnu_model wE phys_pos Transc.real_lawful par (src 2) band 3
    none false none none _ (src 2) false atol rtol
    (w_call .fnu (by intro h; cases h) (by intro h; cases h) 3 none none 1 .fnu rfl trivial
      (by norm_num [flatPhotlam, phys]))
    (by apply factorValue_pos Transc.real_lawful <;> norm_num [flatPhotlam, phys])
    (flatTree 2) bandTree (src_model 2) band_model (prod_nonneg wE 2 (by norm_num)) (band_nonneg wE)
    (obs 2 _) rfl rfl none none⟩

example (atol rtol : ℝ) : ∃ k, effstim wE par.mergeThr atol rtol (obs 2 k) .fnu none none none = .ok 3 :=
  ⟨_, normalize_fnu_of_pivot wE phys_pos Transc.real_lawful par (src 2) band 3 (by norm_num)
    none false none none _ (src 2) false atol rtol
    (w_call .fnu (by intro h; cases h) (by intro h; cases h) 3 none none 1 .fnu rfl trivial
      (by norm_num [flatPhotlam, phys]))
    (flatTree 2) bandTree (src_model 2) band_model (prod_nonneg wE 2 (by norm_num)) (band_nonneg wE)
    _ (pivot_val Transc.real _) w_pivot_pos (obs 2 _) rfl rfl none none⟩

example (atol rtol m : ℝ) : ∃ k, effstim wE par.mergeThr atol rtol (obs 2 k) .abmag none none none = .ok m :=
  ⟨_, normalize_abmag_model wE phys_pos Transc.real_lawful par (src 2) band m
    none false none none _ (src 2) false atol rtol
    (w_call .abmag (by intro h; cases h) (by intro h; cases h) m none none 1 .fnu rfl trivial
      (by norm_num [flatPhotlam, phys]))
    (flatTree 2) bandTree (src_model 2) band_model (prod_nonneg wE 2 (by norm_num)) (band_nonneg wE)
    (obs 2 _) rfl rfl none none⟩

example (atol rtol m : ℝ) : ∃ k, effstim wE par.mergeThr atol rtol (obs 2 k) .abmag none none none = .ok m :=
  ⟨_, normalize_abmag_of_pivot wE phys_pos Transc.real_lawful par (src 2) band m
    none false none none _ (src 2) false atol rtol
    (w_call .abmag (by intro h; cases h) (by intro h; cases h) m none none 1 .fnu rfl trivial
      (by norm_num [flatPhotlam, phys]))
    (flatTree 2) bandTree (src_model 2) band_model (prod_nonneg wE 2 (by norm_num)) (band_nonneg wE)
    _ (pivot_val Transc.real _) w_pivot_pos (obs 2 _) rfl rfl none none⟩

/-- PHOTNU: same photon rate as the spectrum flat at 3 PHOTNU -/
example := normalize_photon_rate_model wE par (src 2) band 3 .photnu trivial (by norm_num) none false none none _ (src 2) false
    (w_call .photnu (by intro h; cases h) (by intro h; cases h) 3 none none 1 .photnu rfl trivial
      (by norm_num [flatPhotlam, phys]))
    (flatTree 2) bandTree (src_model 2) band_model

/-- VEGAMAG with "Vega" flat at 1 PHOTLAM -/
private theorem w_call_vega (m : ℝ) :
    normalizeFactor wE par (src 2) band m .vegamag none false none (some (flatTree 1)) =
      .ok (factorValue Transc.real .vegamag m |(|(2 : ℝ)| + |2|)| |(|(1 : ℝ)| + |1|)|, src 2, false) :=
  normalizeFactor_of_pieces (admitOk wE 2 false) (src_model 2) band_model
    (integrals_vega Transc.real 2 1 none) (by positivity) (fun _ => by positivity)

example (atol rtol m : ℝ) :
    ∃ k, effstim wE par.mergeThr atol rtol (obs 2 k) .vegamag none none (some (flatTree 1)) = .ok m :=
  ⟨_, normalize_vegamag_model wE Transc.real_lawful par (src 2) band m none false none none (flatTree 1) _ (src 2) false atol rtol
    (w_call_vega m) (flatTree 2) bandTree (src_model 2) band_model (obs 2 _) rfl rfl⟩

/-- count / OBMAG with area 1: count factors 2, 2, `total = 8` -/
private theorem w_call_count (u : FluxUnit ℝ) (hu : u = .count ∨ u = .obmag) (t : ℝ) :
    normalizeFactor wE par (src 2) band t u none false (some 1) none =
      .ok (factorValue Transc.real u t ((2 : ℝ) * 1 * (2 * 1) + (2 * 1 * (2 * 1) + 0)) 1, src 2, false) :=
  normalizeFactor_of_pieces (admitOk wE 2 false) (src_model 2) band_model
    (integrals_count Transc.real 2 1 u hu none) (by norm_num) (fun _ => by norm_num)

example (atol rtol : ℝ) : ∃ k, countrate wE par.mergeThr atol rtol (obs 2 k) (some 1) false none none false = .ok 5 :=
  ⟨_, (normalize_count_model wE par (src 2) band 5 none false (some 1) none _ (src 2) false atol rtol
    (w_call_count .count (Or.inl rfl) 5) (by norm_num) (flatTree 2) bandTree (src_model 2) band_model (obs 2 _) rfl).1⟩

example (atol rtol m : ℝ) : ∃ k, effstim wE par.mergeThr atol rtol (obs 2 k) .obmag none (some 1) none = .ok m :=
  ⟨_, normalize_obmag_model wE Transc.real_lawful par (src 2) band m none false (some 1) none _ (src 2) false atol rtol
    (w_call_count .obmag (Or.inr rfl) m) (flatTree 2) bandTree (src_model 2) band_model (obs 2 _) rfl⟩

example : 0 < factorValue Transc.real .obmag (-1) ((2 : ℝ) * 1 * (2 * 1) + (2 * 1 * (2 * 1) + 0)) 1 :=
  returned_factor_pos wE Transc.real_lawful par (src 2) band (-1) .obmag none false (some 1) none _ (src 2) false
    (w_call_count .obmag (Or.inr rfl) (-1)) (Or.inl rfl)

example := factor_formula wE par (src 2) band 3 .fnu none false none none _ (src 2) false
    (w_call .fnu (by intro h; cases h) (by intro h; cases h) 3 none none 1 .fnu rfl trivial
      (by norm_num [flatPhotlam, phys]))

/-! errors: the same call without an area / without Vega; a source flat at 0 -/

example : normalizeFactor wE par (src 2) band 5 .count none false none none = .error .synphotError :=
  missing_area_error_class wE par (src 2) band 5 .count (Or.inl rfl) none false none (src 2) false (flatTree 2) bandTree
    [2, 4] _ (admitOk wE 2 false) (src_model 2) band_model (grid_of _ _ rfl)
    (prod_samples wE (flatTree 2) (fun _ => 2) (flat_eval wE 2))

example : normalizeFactor wE par (src 2) band 5 .vegamag none false none none = .error .synphotError :=
  missing_vega_error_class wE par (src 2) band 5 none false none (src 2) false (flatTree 2) bandTree
    [2, 4] _ (admitOk wE 2 false) (src_model 2) band_model (grid_of _ _ rfl)
    (prod_integral wE (flatTree 2) (fun _ => 2) (flat_eval wE 2))

/-- a source that is zero in the band: `total = 0` -/
example : normalizeFactor wE par (src 0) band 5 .flam none false none none = .error .synphotError :=
  nonpositive_band_integral_raises wE par (src 0) band 5 .flam none false none none (src 0) false (flatTree 0) bandTree _ _
    (admitOk wE 0 false) (src_model 0) band_model
    (integrals_density Transc.real 0 .flam (by intro h; cases h) (by intro h; cases h) none none 1 .flam rfl trivial)
    (by norm_num)

example : normalizeAdmit wE par (src 2) band none true = .ok (src 2, false) :=
  (admit_verdicts wE par (src 2) band none true rfl).1 (overlap_full wE 2)

/-! partial overlap: a table on `[3, 4]` through the box sampled at 2 and 4 — half of the throughput is
outside the table: `partial_notmost`; refused without `force`, proceeds (on the extrapolating operand,
with the warning) with it -/

example : normalizeFactor wE par tabSrc band 3 .flam none false none none = .error .partialOverlap :=
  (overlap_errors wE par tabSrc band 3 .flam none false none none rfl).2 (overlap_partial wE) rfl

example : normalizeFactor wE par tabSrc band 3 .flam none true none none =
    (normalizeScalar wE par (tabSrc.forceExtrap).1 band 3 .flam none none none).map
      fun k => (k, (tabSrc.forceExtrap).1, true) :=
  partial_overlap_proceeds wE par tabSrc band 3 .flam none true none none rfl (Or.inr ⟨overlap_partial wE, rfl⟩)

example : normalizeAdmit wE par tabSrc band none true = .ok ((tabSrc.forceExtrap).1, true) :=
  (admit_verdicts wE par tabSrc band none true rfl).2.2.1 (overlap_partial wE) rfl

/-- the operand of the FLAM witness call comes back untouched -/
example := operand_after_call wE par (src 2) band 3 .flam none false none none _ (src 2) false
    (w_call .flam (by intro h; cases h) (by intro h; cases h) 3 none none 1 .flam rfl trivial
      (by norm_num [flatPhotlam, phys]))

/-- inside `[3, 4]` the extrapolating table is the table -/
example : (⟨[3, 4], [2, 2], false, false⟩ : Table ℝ).forceExtrap.eval (7 / 2) =
    (⟨[3, 4], [2, 2], false, false⟩ : Table ℝ).eval (7 / 2) :=
  (extrapolation_switch_inside _ _ (by norm_num [List.headD]) (by norm_num [List.getLastD])).1

example : ∃ k, normalizeFactor wE par (src 2) band 3 .fnu none false none none = .ok (k, src 2, false) :=
  ⟨_, normalize_returns wE par (src 2) band 3 .fnu none false none none (src 2) false (flatTree 2) bandTree _ _
    (admitOk wE 2 false) (src_model 2) band_model
    (integrals_density Transc.real 2 .fnu (by intro h; cases h) (by intro h; cases h) none none 1 .fnu rfl trivial)
    (by positivity) (fun h => by cases h)⟩

/-! explicit wavelengths `[2, 3, 4]` (finer than the box's own sampling set `[2, 4]` — the grid on which
the pre-673f123 code observed 2.8333 FNU for a 3 FNU target): the FNU, ABmag and VEGAMAG post-conditions -/

private theorem w_call234 (u : FluxUnit ℝ) (hu : u ≠ .count) (hu' : u ≠ .obmag) (target : ℝ)
    (a0 : ℝ) (u0 : FluxUnit ℝ)
    (hstd : stdTreeOf wE u none = .ok (.leaf (.constFlux a0 u0))) (hu0 : IsLinearDensity u0)
    (hq : 0 < |(|flatPhotlam phys u0 a0 2| + |flatPhotlam phys u0 a0 3|) / 2 +
      (|flatPhotlam phys u0 a0 3| + |flatPhotlam phys u0 a0 4|) / 2|) :
    normalizeFactor wE par (src 2) band target u (some [2, 3, 4]) false none none =
      .ok (factorValue Transc.real u target |(|(2 : ℝ)| + |2|) / 2 + (|2| + |2|) / 2|
        |(|flatPhotlam phys u0 a0 2| + |flatPhotlam phys u0 a0 3|) / 2 +
          (|flatPhotlam phys u0 a0 3| + |flatPhotlam phys u0 a0 4|) / 2|, src 2, false) :=
  normalizeFactor_of_pieces (admitOk234 wE 2 false) (src_model 2) band_model
    (integrals_density234 Transc.real 2 u hu hu' none none a0 u0 hstd hu0) (by positivity)
    (fun _ => div_pos (by positivity) hq)

example (atol rtol : ℝ) :
    ∃ k, effstim wE par.mergeThr atol rtol (obs 2 k) .fnu (some [2, 3, 4]) none none = .ok 3 :=
  ⟨_, normalize_fnu_model wE phys_pos Transc.real_lawful par (src 2) band 3
    (some [2, 3, 4]) false none none _ (src 2) false atol rtol
    (w_call234 .fnu (by intro h; cases h) (by intro h; cases h) 3 1 .fnu rfl trivial
      (by norm_num [flatPhotlam, phys]))
    (by apply factorValue_pos Transc.real_lawful <;> norm_num [flatPhotlam, phys])
    (flatTree 2) bandTree (src_model 2) band_model (prod_nonneg wE 2 (by norm_num)) (band_nonneg wE)
    (obs 2 _) rfl rfl none none⟩

example (atol rtol m : ℝ) :
    ∃ k, effstim wE par.mergeThr atol rtol (obs 2 k) .abmag (some [2, 3, 4]) none none = .ok m :=
  ⟨_, normalize_abmag_model wE phys_pos Transc.real_lawful par (src 2) band m
    (some [2, 3, 4]) false none none _ (src 2) false atol rtol
    (w_call234 .abmag (by intro h; cases h) (by intro h; cases h) m 1 .fnu rfl trivial
      (by norm_num [flatPhotlam, phys]))
    (flatTree 2) bandTree (src_model 2) band_model (prod_nonneg wE 2 (by norm_num)) (band_nonneg wE)
    (obs 2 _) rfl rfl none none⟩

example (atol rtol : ℝ) :
    ∃ k, effstim wE par.mergeThr atol rtol (obs 2 k) (.jy (1 / 1000)) (some [2, 3, 4]) none none = .ok 3 :=
  ⟨_, normalize_jy_model wE phys_pos Transc.real_lawful par (src 2) band (1 / 1000) 3 (by norm_num)
    (some [2, 3, 4]) false none none _ (src 2) false atol rtol
    (w_call234 (.jy (1 / 1000)) (by intro h; cases h) (by intro h; cases h) 3 1 (.jy (1 / 1000)) rfl trivial
      (by norm_num [flatPhotlam, phys]))
    (by apply factorValue_pos Transc.real_lawful <;> norm_num [flatPhotlam, phys])
    (flatTree 2) bandTree (src_model 2) band_model (prod_nonneg wE 2 (by norm_num)) (band_nonneg wE)
    (obs 2 _) rfl rfl none none⟩

example (atol rtol m : ℝ) :
    ∃ k, effstim wE par.mergeThr atol rtol (obs 2 k) .vegamag (some [2, 3, 4]) none (some (flatTree 1)) = .ok m :=
  ⟨_, normalize_vegamag_model wE Transc.real_lawful par (src 2) band m (some [2, 3, 4]) false none none (flatTree 1) _
    (src 2) false atol rtol
    (normalizeFactor_of_pieces (admitOk234 wE 2 false) (src_model 2) band_model
      (integrals_vega234 Transc.real 2 1 none) (by positivity) (fun _ => by positivity))
    (flatTree 2) bandTree (src_model 2) band_model (obs 2 _) rfl rfl⟩

end NonVacuity

end Synphot.C10
