/-
  Synphot.Core.Specio — `synphot/specio.py`: `write_fits_spec` (231-397), `read_fits_spec`
  (152-228), `read_ascii_spec` (102-146), and `units.validate_unit` (units.py:259-335) on strings,
  over an *abstract stored file*: unit strings × columns × header maps.

  What is modelled branch for branch: unit validation and the unit strings the writer emits
  (`_unit_to_fits_str`); the shape check; `trim_zero`; the precision decision and the epsilon thinning; `pad_zero_ends`;
  the header cards; the reader's TUNIT normalisation (both `validate_unit` passes), its
  case-insensitive column lookup, and the `try … finally: fs.close()` exception flow;
  the ASCII reader's choice of columns.

  What is *not* modelled (taken as given): `astropy.io.fits` / `astropy.io.ascii` / `QTable.read`
  themselves, float32 rounding of the stored numbers (the stored values are the exact inputs), and
  astropy's unit parser, which enters only as the parameter `astro : String → Option String`
  ("`u.Unit(s)` succeeds and the result prints as …" / "raises ValueError").

  A unit is identified by astropy's generic string of it (`unit.to_string()`): `"Angstrom"`,
  `"FLAM"`, `"mag(ST)"`, `"1 / micron"`, `""` for the dimensionless unit.  The name table of
  `validate_unit` is the generated one (`Generated/Tables.lean`, re-extracted from the source on
  every run), so the model follows the source's table.
-/
import Synphot.Core.Basic
import Synphot.Generated.Tables

namespace Synphot
variable {K : Type} [Field K] [LinearOrder K] [IsStrictOrderedRing K]

/-! ## units -/

/-- astropy's verdict on a unit string: `some id` if `u.Unit(s)` parses (to the unit whose generic
string is `id`), `none` if it raises `ValueError`. -/
abbrev Astro := String → Option String

/-- what a caller may pass as a unit: a string, an astropy unit (given by its generic string),
or anything else -/
inductive UnitSpec
  | str (s : String)
  | unit (id : String)
  | other
  deriving DecidableEq, Repr

/-- the `if/elif` chain of `validate_unit`: the key is the lower-cased input -/
def lookupUnitName (s : String) : Option String := Generated.unitNameTable.lookup s.toLower

/-- `units.validate_unit` -/
def validateUnit (astro : Astro) : UnitSpec → Except Err String
  | .str s =>
      match lookupUnitName s with
      | some id => .ok id
      | none =>
        match astro s with                 -- astropy.units is case-sensitive
        | some id => .ok id
        | none =>
          match astro s.toLower with       -- "synphot is case-insensitive"
          | some id => .ok id
          | none => .error .valueError
  | .unit id => .ok id
  | .other => .error .synphotError

/-- `_unit_to_fits_str(unit)`: the string handed to `fits.Column(unit=…)` — the unit's generic string,
upper-cased (the legacy convention) only if `validate_unit` maps the upper-cased string back to the
same unit; `ValueError` from that probe keeps the case.  (Unit equality is equality of generic
strings here.) -/
def emitUnit (astro : Astro) (id : String) : String :=
  match validateUnit astro (.str id.toUpper) with
  | .ok v => if v = id then id.toUpper else id
  | .error _ => id

/-- the `TUNITn` card astropy writes for a column unit string: none for the empty string -/
def tunitCard (s : String) : Option String := if s = "" then none else some s

/-- first pass of the reader over a `TUNITn` card ("Need to fix table units"): empty values are
skipped, everything else goes through `validate_unit` and is replaced by the unit's generic string -/
def fixTunit (astro : Astro) : Option String → Except Err String
  | none => .ok ""
  | some s => if s = "" then .ok "" else validateUnit astro (.str s)

/-- second pass: `validate_unit(col.unit.to_string())` on the unit `QTable.read` attached to the
column (absent unit ↦ dimensionless).  `QTable.read` is taken to hand back the string it was given. -/
def colUnit (astro : Astro) (fixed : String) : Except Err String :=
  if fixed = "" then .ok "" else validateUnit astro (.str fixed)

/-- both passes on one card -/
def readUnit (astro : Astro) (card : Option String) : Except Err String := do
  let u ← fixTunit astro card
  colUnit astro u

/-! ## the stored file -/

structure Column (K : Type) where
  name : String
  tunit : Option String
  vals : List K
  deriving Repr

inductive Dtype | f4 | f8 | other
  deriving DecidableEq, Repr

/-- a binary-table extension: its header cards other than the structural ones, the column
format (`E` = f4, `D` = f8) and the columns -/
structure TableHdu (K : Type) where
  extname : String
  header : List (String × String)
  format : Dtype
  cols : List (Column K)
  deriving Repr

/-- primary header cards (other than SIMPLE/BITPIX/NAXIS/EXTEND) and the table extensions
(HDU 1, 2, …) -/
structure FitsFile (K : Type) where
  pri : List (String × String)
  exts : List (TableHdu K)
  deriving Repr

/-- `header[key] = val` on a header seen as keyword ↦ value (keyword already upper-cased):
updates the card if the keyword exists, appends otherwise -/
def setCard : List (String × String) → String → String → List (String × String)
  | [], k, v => [(k, v)]
  | (k', v') :: t, k, v => if k' = k then (k, v) :: t else (k', v') :: setCard t k v

/-- `for key, val in d.items(): header[key] = val` (FITS keywords are upper case) -/
def setCards (h : List (String × String)) (d : List (String × String)) : List (String × String) :=
  d.foldl (fun h kv => setCard h kv.1.toUpper kv.2) h

/-! ## write_fits_spec -/

/-- `idx = np.where(flux_value != 0)` -/
def trimZero (rows : List (K × K)) : List (K × K) := rows.filter (fun r => decide (r.2 ≠ 0))

/-- `idx = np.where(np.abs(w[1:] - w[:-1]) > epsilon); w = np.append(w[idx], w[-1])` (same for the
flux) as a recursion over the rows: a row is kept iff the next wavelength is farther than `eps`
away; the last row is always kept. -/
def thinRows (eps : K) : List (K × K) → List (K × K)
  | a :: b :: t => if eps < |b.1 - a.1| then a :: thinRows eps (b :: t) else thinRows eps (b :: t)
  | l => l

/-- the thinning statement of the code (`wave_value[-1]` on an empty array is an IndexError) -/
def thin (eps : K) (rows : List (K × K)) : Except Err (List (K × K)) :=
  if rows.isEmpty then .error .indexError else .ok (thinRows eps rows)

/-- `w1 = w[0]**2 / w[1]; w2 = w[-1]**2 / w[-2]`, one zero-flux row inserted in front of the first
and one behind the last row.  Fewer than two rows: `w[1]` is an IndexError; a zero divisor gives
inf/nan. -/
def padZeroEnds (rows : List (K × K)) : Except Err (List (K × K)) :=
  match rows, rows.reverse with
  | r0 :: r1 :: _, l0 :: l1 :: _ =>
      if r1.1 = 0 ∨ l1.1 = 0 then .error .nan
      else .ok ((r0.1 ^ 2 / r1.1, 0) :: rows ++ [(l0.1 ^ 2 / l1.1, 0)])
  | _, _ => .error .indexError

/-- the precision decision (specio.py:323-349): native flux precision unless told otherwise;
then the check of the wavelength dtype -/
def resolvePrecision (precision : Option String) (waveDtype fluxDtype : Dtype) : Except Err Dtype := do
  let p ← match precision with
    | none =>
        match fluxDtype with
        | .f4 => pure Dtype.f4
        | .f8 => pure Dtype.f8
        | .other => throw Err.synphotError
    | some s =>
        if s.toLower = "single" then pure Dtype.f4
        else if s.toLower = "double" then pure Dtype.f8
        else throw Err.synphotError
  if waveDtype = .other then throw Err.synphotError
  pure p

structure WriteArgs (K : Type) where
  filename : String                       -- `os.path.basename(filename)`
  wave : List K
  flux : List K
  waveDtype : Dtype
  fluxDtype : Dtype
  waveSpec : UnitSpec                     -- the Quantity's unit if a Quantity, else the keyword
  fluxSpec : UnitSpec
  priHeader : List (String × String)
  extHeader : List (String × String)
  trimZero : Bool
  padZeroEnds : Bool
  precision : Option String
  epsilon : K
  waveCol : String
  fluxCol : String

/-- rows after trimming, thinning and padding (specio.py:312-371); `p` is the resolved precision -/
def storedRows (trim pad : Bool) (waveDtype p : Dtype) (eps : K) (rows : List (K × K)) :
    Except Err (List (K × K)) := do
  let rows := if trim then trimZero rows else rows
  let rows ← if waveDtype = .f8 ∧ p = .f4 then thin eps rows else pure rows
  if pad then padZeroEnds rows else pure rows

/-- `write_fits_spec`; the rows are the two parallel arrays zipped after the shape check. -/
def writeFitsSpec (astro : Astro) (a : WriteArgs K) : Except Err (FitsFile K) := do
  let wu ← validateUnit astro a.waveSpec
  let fu ← validateUnit astro a.fluxSpec
  if a.wave.length ≠ a.flux.length then throw Err.synphotError
  let rows := a.wave.zip a.flux
  -- the code trims first, then decides the precision; the precision decision does not look at the
  -- rows, so only the order of the *errors* matters: trimming cannot fail
  let p ← resolvePrecision a.precision a.waveDtype a.fluxDtype
  let rows ← storedRows a.trimZero a.padZeroEnds a.waveDtype p a.epsilon rows
  pure {
    pri := setCards [("FILENAME", a.filename), ("ORIGIN", "synphot")] a.priHeader
    exts := [{ extname := "", header := setCards [] a.extHeader, format := p,
               cols := [⟨a.waveCol, tunitCard (emitUnit astro wu), rows.map Prod.fst⟩,
                        ⟨a.fluxCol, tunitCard (emitUnit astro fu), rows.map Prod.snd⟩] }] }

/-! ## read_fits_spec -/

/-- `ext`: an HDU number or an `EXTNAME` -/
inductive ExtSel
  | idx (i : Int)
  | name (s : String)
  deriving DecidableEq, Repr

/-- `fs[ext]`.  HDU 0 is the primary HDU, which is not a table: selecting it is outside the model
(`notImplemented`); a number beyond the list is `IndexError`, an unknown name `KeyError`. -/
def selectExt (f : FitsFile K) : ExtSel → Except Err (TableHdu K)
  | .idx i =>
      let n : Int := f.exts.length + 1
      let j := if i < 0 then i + n else i
      if j < 0 ∨ n ≤ j then .error .indexError
      else if j = 0 then .error .notImplemented
      else match f.exts[j.toNat - 1]? with
        | some h => .ok h
        | none => .error .indexError
  | .name s =>
      match f.exts.find? (fun h => h.extname.toUpper = s.toUpper ∧ h.extname ≠ "") with
      | some h => .ok h
      | none => .error .lookupError

structure ReadResult (K : Type) where
  header : List (String × String)
  waveUnit : String
  wave : List K
  fluxUnit : String
  flux : List K
  deriving Repr

/-- `t.columns[lower_colnames.index(name)]`: the first column whose lower-cased name is `name`;
`list.index` raises `ValueError` ("… is not in list") when there is none -/
def findCol (cols : List (String × String × List K)) (name : String) :
    Except Err (String × String × List K) :=
  match cols.find? (fun c => c.1.toLower = name) with
  | some c => .ok c
  | none => .error .valueError

/-- "Need to fix table units": every `TUNITn` card of the extension is normalised first, whether
the column is asked for or not; result: (name, unit string now in the header, values) per column -/
def fixCols (astro : Astro) (cols : List (Column K)) : Except Err (List (String × String × List K)) :=
  cols.mapM (fun c => do
    let u ← fixTunit astro c.tunit
    pure (c.name, u, c.vals))

/-- the body of the `try` once the file is open -/
def readFitsBody (astro : Astro) (f : FitsFile K) (ext : ExtSel) (waveCol fluxCol : String) :
    Except Err (ReadResult K) := do
  let hdu ← selectExt f ext
  let cols ← fixCols astro hdu.cols
  let cw ← findCol cols waveCol
  let wu ← colUnit astro cw.2.1
  let cf ← findCol cols fluxCol
  let fu ← colUnit astro cf.2.1
  pure { header := f.pri, waveUnit := wu, wave := cw.2.2, fluxUnit := fu, flux := cf.2.2 }

/-- `try: body finally: fin` — an exception raised by the `finally` block replaces whatever the
body did -/
def pyTryFinally {α : Type} (body : Except Err α) (fin : Except Err Unit) : Except Err α :=
  match fin with
  | .error e => .error e
  | .ok _ => body

/-- `read_fits_spec`.  `file = none`: `fits.open` raises (missing, unreadable, empty or corrupt
file) — it is called *before* the `try`, so its `OSError` propagates as it is.  `isStr`: the caller
passed a file name rather than an open file object; only then does the `finally` block call
`fs.close()` (which does not raise: `fs` is bound whenever the `try` is entered). -/
def readFitsSpec (astro : Astro) (isStr : Bool) (file : Option (FitsFile K)) (ext : ExtSel)
    (waveCol fluxCol : String) : Except Err (ReadResult K) :=
  let wc := waveCol.toLower
  let fc := fluxCol.toLower
  match file with
  | none => .error .fileError
  | some f =>
    let fin : Except Err Unit := if isStr then .ok () else .ok ()
    pyTryFinally (readFitsBody astro f ext wc fc) fin

/-! ## read_ascii_spec -/

/-- a line of an ASCII table as `astropy.io.ascii` sees it -/
inductive AsciiLine (K : Type)
  | comment
  | blank
  | data (fields : List K)
  deriving Repr

def asciiRows (lines : List (AsciiLine K)) : List (List K) :=
  lines.filterMap (fun l => match l with | .data f => some f | _ => none)

/-- number of columns of the table: the number of fields of the first data line -/
def asciiNcols (rows : List (List K)) : Nat :=
  match rows with
  | [] => 0
  | r0 :: _ => r0.length

/-- `ascii.read(filename)`: `file = none` — the file cannot be opened; no line at all, or data lines
with different numbers of fields — astropy's `InconsistentTableError` (a `ValueError`).  Result:
number of columns and the data lines. -/
def asciiTable (file : Option (List (AsciiLine K))) : Except Err (Nat × List (List K)) :=
  match file with
  | none => .error .fileError
  | some lines =>
    if lines.isEmpty then .error .valueError
    else if (asciiRows lines).all (fun r => r.length == asciiNcols (asciiRows lines)) then
      .ok (asciiNcols (asciiRows lines), asciiRows lines)
    else .error .valueError

/-- after `ascii.read`: the units are validated (`none` for a unit keyword = its default, Angstrom
and FLAM), then column 0 and column 1 are taken (`IndexError` if the table has fewer columns) -/
def asciiFinish (astro : Astro) (waveSpec fluxSpec : Option UnitSpec) (n : Nat) (rows : List (List K)) :
    Except Err (String × List K × String × List K) := do
  let wu ← validateUnit astro (waveSpec.getD (.unit "Angstrom"))
  let fu ← validateUnit astro (fluxSpec.getD (.unit "FLAM"))
  if n < 2 then .error .indexError
  else .ok (wu, rows.map (fun r => r.getD 0 0), fu, rows.map (fun r => r.getD 1 0))

/-- `read_ascii_spec` -/
def readAsciiSpec (astro : Astro) (file : Option (List (AsciiLine K)))
    (waveSpec fluxSpec : Option UnitSpec) : Except Err (String × List K × String × List K) := do
  let t ← asciiTable file
  asciiFinish astro waveSpec fluxSpec t.1 t.2

end Synphot
