/-
  Helper lemmas for C17: a table built from samples `(x, x.map f)` of a non-negative function on a
  strictly monotone grid returns `f` at every sampled wavelength; bounds on the Madau optical depth.
-/
import Mathlib.Tactic.Ring
import Mathlib.Tactic.FieldSimp
import Mathlib.Tactic.Linarith
import Mathlib.Tactic.Positivity
import Mathlib.Tactic.NormNum
import Synphot.Core.Reddening
import Synphot.Lemmas.Wave

set_option linter.unusedSectionVars false
set_option linter.unusedSimpArgs false
set_option linter.unusedVariables false

namespace Synphot
variable {K : Type} [Field K] [LinearOrder K] [IsStrictOrderedRing K]

/-! ### strictly ascending lists -/

theorem strictAsc_head_lt (a : K) (l : List K) (hs : StrictAsc (a :: l)) : ∀ b ∈ l, a < b := by
  induction l generalizing a with
  | nil => intro b hb; cases hb
  | cons c l ih =>
    obtain ⟨hac, hs'⟩ := hs
    intro b hb
    rcases List.mem_cons.mp hb with rfl | hb
    · exact hac
    · exact lt_trans hac (ih c hs' b hb)

theorem strictAsc_tail (a : K) (l : List K) (hs : StrictAsc (a :: l)) : StrictAsc l := by
  cases l with
  | nil => trivial
  | cons b l => exact hs.2

theorem strictAsc_le_getLastD (l : List K) (hs : StrictAsc l) (d : K) : ∀ b ∈ l, b ≤ l.getLastD d := by
  induction l generalizing d with
  | nil => intro b hb; cases hb
  | cons a l ih =>
    intro b hb
    cases l with
    | nil =>
      rcases List.mem_cons.mp hb with rfl | hb
      · simp
      · cases hb
    | cons c l =>
      have hs' : StrictAsc (c :: l) := hs.2
      have hlast : (a :: c :: l).getLastD d = (c :: l).getLastD a := by simp [List.getLastD]
      rw [hlast]
      rcases List.mem_cons.mp hb with rfl | hb
      · exact le_trans (le_of_lt hs.1) (ih hs' b (c) (List.mem_cons_self))
      · exact ih hs' b b hb |>.trans (le_of_eq (by simp [List.getLastD]))

theorem strictDesc_lt_head (a : K) (l : List K) (hs : StrictDesc (a :: l)) : ∀ b ∈ l, b < a := by
  induction l generalizing a with
  | nil => intro b hb; cases hb
  | cons c l ih =>
    obtain ⟨hac, hs'⟩ := hs
    intro b hb
    rcases List.mem_cons.mp hb with rfl | hb
    · exact hac
    · exact lt_trans (ih c hs' b hb) hac

/-! ### interpolation at a knot -/

/-- on a strictly ascending grid the interpolant of the samples of `f` returns `f` at every knot -/
theorem interpAsc_map_mem (f : K → K) (xs : List K) (hs : StrictAsc xs) (w : K) (hw : w ∈ xs) :
    interpAsc xs (xs.map f) w = f w := by
  induction xs with
  | nil => cases hw
  | cons x0 xs ih =>
    cases xs with
    | nil =>
      rcases List.mem_cons.mp hw with rfl | hw
      · simp [interpAsc]
      · cases hw
    | cons x1 xs =>
      obtain ⟨h01, hs'⟩ := hs
      simp only [List.map_cons, interpAsc]
      by_cases hle : w ≤ x1
      · rw [if_pos hle]
        rcases List.mem_cons.mp hw with rfl | hw
        · simp
        · rcases List.mem_cons.mp hw with rfl | hw
          · have hne : w - x0 ≠ 0 := sub_ne_zero.mpr (ne_of_gt h01)
            simp [div_self hne]
          · exact absurd (strictAsc_head_lt x1 xs hs' w hw) (not_lt.mpr hle)
      · rw [if_neg hle]
        have hlt : x1 < w := not_le.mp hle
        rcases List.mem_cons.mp hw with rfl | hw
        · exact absurd (lt_trans h01 hlt) (lt_irrefl _)
        · have := ih hs' hw
          simpa using this

/-! ### `mkTable` on samples of a non-negative function -/

theorem clipNeg_nonneg (y : List K) (hy : ∀ v ∈ y, 0 ≤ v) : clipNeg false y = (y, false) := by
  unfold clipNeg
  simp only [Bool.false_eq_true, if_false, Prod.mk.injEq]
  constructor
  · conv_rhs => rw [← List.map_id y]
    apply List.map_congr_left
    intro v hv
    simp [not_lt.mpr (hy v hv)]
  · rw [List.any_eq_false]
    intro v hv
    simp [not_lt.mpr (hy v hv)]

/-- the order `Empirical1D.__init__` stores a grid in -/
def ascOrder (x : List K) : List K := if isDesc x then x.reverse else x

theorem ascOrder_cases (x : List K) : ascOrder x = x ∨ ascOrder x = x.reverse := by
  unfold ascOrder
  split_ifs <;> simp

theorem mem_ascOrder (x : List K) (w : K) : w ∈ ascOrder x ↔ w ∈ x := by
  rcases ascOrder_cases x with h | h <;> simp [h]

theorem ascOrder_strictAsc (x : List K) (hm : StrictAsc x ∨ StrictDesc x) : StrictAsc (ascOrder x) := by
  unfold ascOrder isDesc
  cases x with
  | nil => simp [StrictAsc]
  | cons a l =>
    cases hl : (a :: l).getLast? with
    | none => simp at hl
    | some b =>
      simp only [List.head?_cons, decide_eq_true_eq]
      have hb : b ∈ a :: l := List.mem_of_getLast? hl
      split_ifs with hba
      · -- last < head: cannot be strictly ascending
        rcases hm with hasc | hdesc
        · rcases List.mem_cons.mp hb with rfl | hb'
          · exact absurd hba (lt_irrefl _)
          · exact absurd (strictAsc_head_lt a l hasc b hb') (not_lt.mpr (le_of_lt hba))
        · exact (strictAsc_reverse _).mpr hdesc
      · rcases hm with hasc | hdesc
        · exact hasc
        · -- strictly descending with last ≥ head: a single point
          cases l with
          | nil => trivial
          | cons c l =>
            have hmem : b ∈ c :: l := by
              have : (a :: c :: l).getLast? = (c :: l).getLast? := by simp [List.getLast?_cons_cons]
              rw [this] at hl
              exact List.mem_of_getLast? hl
            exact absurd (strictDesc_lt_head a (c :: l) hdesc b hmem) hba

/-- contents of the table `Empirical1D(points=x, lookup_table=f(x))` -/
theorem mkTable_map (f : K → K) (x : List K) (hf : ∀ w ∈ x, 0 ≤ f w) :
    (mkTable x (x.map f) false).1.pts = ascOrder x ∧
    (mkTable x (x.map f) false).1.vals = (ascOrder x).map f ∧
    (mkTable x (x.map f) false).1.keepNeg = false := by
  unfold mkTable ascOrder
  by_cases hd : isDesc x = true
  · have hy : ∀ v ∈ (x.map f).reverse, 0 ≤ v := by
      intro v hv
      rw [List.mem_reverse, List.mem_map] at hv
      obtain ⟨w, hw, rfl⟩ := hv
      exact hf w hw
    simp only [hd, if_true, clipNeg_nonneg _ hy, List.map_reverse, and_self]
  · have hy : ∀ v ∈ x.map f, 0 ≤ v := by
      intro v hv
      rw [List.mem_map] at hv
      obtain ⟨w, hw, rfl⟩ := hv
      exact hf w hw
    simp only [hd, Bool.false_eq_true, if_false, clipNeg_nonneg _ hy, and_self]

/-- evaluating the table at a sampled wavelength returns the sampled value -/
theorem mkTable_map_eval (f : K → K) (x : List K) (hm : StrictAsc x ∨ StrictDesc x)
    (hf : ∀ w ∈ x, 0 ≤ f w) (w : K) (hw : w ∈ x) :
    (mkTable x (x.map f) false).1.eval w = f w := by
  obtain ⟨hp, hv, hk⟩ := mkTable_map f x hf
  have hs := ascOrder_strictAsc x hm
  have hw' : w ∈ ascOrder x := (mem_ascOrder x w).mpr hw
  unfold Table.eval
  rw [hp, hv, hk]
  have h0 : (ascOrder x).headD 0 ≤ w := by
    cases hx : ascOrder x with
    | nil => rw [hx] at hw'; cases hw'
    | cons a l =>
      rw [hx] at hw' hs
      simp only [List.headD_cons]
      rcases List.mem_cons.mp hw' with rfl | h
      · exact le_refl _
      · exact le_of_lt (strictAsc_head_lt a l hs w h)
  have hn : w ≤ (ascOrder x).getLastD 0 := strictAsc_le_getLastD _ hs 0 w hw'
  simp only [not_lt.mpr h0, not_lt.mpr hn, gt_iff_lt, if_false, Bool.false_eq_true]
  rw [interpAsc_map_mem f _ hs w hw']
  simp [not_lt.mpr (hf w hw)]

end Synphot
