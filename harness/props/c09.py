"""C09  Effective stimulus and effective wavelength follow their defining integrals."""
import math
from fractions import Fraction as F

import numpy as np

from .. import core, objects as O
from ..core import q, qs, guarded, same, unq
from . import c07, c08

PAR = c08.PAR
UNITS = ['flam', 'fnu', 'jy', 'mjy', 'photlam', 'photnu', 'stmag', 'abmag']
MAGS = {'stmag', 'abmag', 'obmag', 'vegamag'}
H, C = float(O.H), float(O.C)


def unit_obj(name):
    return O.astropy_flux_unit(name)


def impl_call(case):
    from synphot.config import conf

    def f():
        outs = []
        extra = {}
        with conf.set_temp('default_integrator', case.get('integrator', 'trapezoid')):
            obs = c08.build_obs(case)
            for qu in case['queries']:
                if qu['q'] == 'effstim':
                    kw = {}
                    if qu.get('area') is not None:
                        kw['area'] = O.fl(qu['area'])
                    outs.append(guarded(lambda: obs.effstim(unit_obj(qu['unit_name']), **kw).value))
                else:
                    outs.append(guarded(lambda: obs.effective_wavelength(binned=qu['binned'],
                                                                       mode='efflerg' if qu['erg'] else 'efflphot').value))
            # oracle data (implementation alone)
            w = obs.waveset.value
            flam = obs(w, flux_unit='flam').value
            bw = obs.bandpass.waveset
            xb = w if bw is None else bw.value
            yb = obs.bandpass(xb).value
            from scipy.integrate import trapezoid
            extra['flam_def'] = abs(trapezoid(w * flam, x=w)) / abs(trapezoid(xb * yb, x=xb))
            extra['pivot'] = float(obs.bandpass.pivot().value)
            extra['wrange'] = [float(w.min()), float(w.max())]
            extra['brange'] = [float(obs.binset.value.min()), float(obs.binset.value.max())]
            extra['nonneg'] = bool(np.all(flam >= 0)) and bool(np.all(obs.binflux.value >= 0))
            extra['efflam_def'] = float(abs(trapezoid(flam * w ** 2, x=w) / trapezoid(flam * w, x=w))) if trapezoid(flam * w, x=w) != 0 else None
        other = 'analytical' if case.get('integrator', 'trapezoid') == 'trapezoid' else 'trapezoid'
        with conf.set_temp('default_integrator', other):
            obs2 = c08.build_obs(case)
            extra['other_integrator'] = [
                guarded(lambda: obs2.effstim(unit_obj(qu['unit_name'])).value) if qu['q'] == 'effstim' and qu.get('area') is None
                else guarded(lambda: obs2.effective_wavelength(binned=qu['binned'],
                                                               mode='efflerg' if qu['erg'] else 'efflphot').value) if qu['q'] == 'efflam'
                else None for qu in case['queries']]
            extra['other_pivot'] = guarded(lambda: float(obs2.bandpass.pivot().value))
        if case.get('k') is not None:
            k = O.fl(case['k'])
            obs3 = c08.build_obs(case, scale=k)
            extra['scaled'] = [guarded(lambda: obs3.effstim(unit_obj(qu['unit_name'])).value) if qu['q'] == 'effstim' and qu.get('area') is None
                               else None for qu in case['queries']]
        return {'warned': 'PartialOverlap' in obs.warnings, 'queries': outs, '_x': extra}
    return guarded(f)


def model_case(case):
    c = {'op': 'obs', 'const': case['const'], 'src': case['src'], 'band': case['band'], 'binset': case.get('binset'),
         'force': case.get('force') or 'none'}
    c.update(PAR)
    qs_ = []
    for qu in case['queries']:
        if qu['q'] == 'effstim':
            qs_.append({'q': 'effstim', 'unit': O.model_flux_unit(qu['unit_name']), 'wl': None, 'area': qu.get('area'), 'vega': None})
        else:
            qs_.append({'q': 'efflam', 'binned': qu['binned'], 'wl': None, 'erg': qu['erg']})
    c['queries'] = qs_
    return c


def compare(case, o, m):
    o2 = {k: v for k, v in o.items() if not k.startswith('_')}
    if 'ok' in o2:
        o2 = {'ok': {k: v for k, v in o2['ok'].items() if not k.startswith('_')}}
    return same(o2, m, rtol=1e-9, atol=1e-9 if any(qu.get('unit_name') in MAGS for qu in case['queries']) else 0.0)


def flat_expect(case):
    """a source flat at value v in unit U observed through any bandpass has effstim v in U"""
    lf = case['src']['leaf']
    if lf['leaf'] == 'constflux' and 'z' not in case['src'] and lf['unit_name'] in ('flam', 'fnu', 'jy', 'mjy', 'stmag', 'abmag'):
        return lf['unit_name'], O.fl(lf['amp'])
    return None


def from_flam(val, unit, pivot):
    if unit == 'flam':
        return val
    fnu = val * pivot ** 2 / C
    if unit == 'fnu':
        return fnu
    if unit in ('jy', 'mjy'):
        return fnu / 1e-23 / float(O.JY_SCALE[unit])
    if unit == 'photlam':
        return val * pivot / (H * C)
    if unit == 'photnu':
        return val * pivot / (H * C) * pivot ** 2 / C
    import astropy.units as u
    if unit == 'stmag':
        return -2.5 * math.log10(val / (1 * u.ST).to(u.erg / u.cm ** 2 / u.s / u.AA).value)
    if unit == 'abmag':
        return -2.5 * math.log10(fnu / (1 * u.AB).to(u.erg / u.cm ** 2 / u.s / u.Hz).value)


def oracle(rep, case, out):
    if 'err' in out:
        if out['err'] not in ('PartialOverlap', 'DisjointError', 'UndefinedBinset', 'ZeroWavelength', 'SynphotError') and not (
                out['err'] == 'ValueError' and c07.c07_zero_band(case)):
            rep.oracle_fail('obs:%s' % out['err'], 'observation construction raised %s' % out['err'], case, out)
        return
    o = out['ok']
    x = o['_x']
    flat = flat_expect(case)
    for i, (qu, r) in enumerate(zip(case['queries'], o['queries'])):
        if qu['q'] == 'effstim':
            u = qu['unit_name']
            if 'err' in r:
                if r['err'] in ('SynphotError', 'NaN') and not (x['flam_def'] > 0):
                    continue
                rep.oracle_fail('effstim:%s:%s' % (u, r['err']), 'effstim raised %s' % r['err'], case, r)
                continue
            want = from_flam(x['flam_def'], u, x['pivot'])
            tol = 1e-9 * abs(want) + (1e-9 if u in MAGS else 0)
            if abs(r['ok'] - want) > tol:
                rep.oracle_fail('effstim:%s:definition' % u, 'effstim=%r, defining integrals converted at the pivot give %r' % (r['ok'], want), case, r)
            if flat and flat[0] == u:
                tolf = 1e-9 * abs(flat[1]) + (1e-9 if u in MAGS else 0)
                if abs(r['ok'] - flat[1]) > tolf:
                    rep.oracle_fail('effstim:%s:flat_spectrum' % u, 'flat spectrum at %r has effstim %r' % (flat[1], r['ok']), case, r)
            oi = x['other_integrator'][i]
            if oi is not None and ('err' in oi or oi['ok'] != r['ok']):
                rep.oracle_fail('effstim:%s:integrator_dependent' % u, 'default_integrator changes the result: %s vs %r' % (oi, r['ok']), case, r)
            if case.get('k') is not None and x.get('scaled') and x['scaled'][i] is not None:
                k = O.fl(case['k'])
                s = x['scaled'][i]
                if 'err' in s:
                    rep.oracle_fail('effstim:%s:scaled:%s' % (u, s['err']), 'scaled source failed', case, s)
                elif u in MAGS:
                    if abs(s['ok'] - (r['ok'] - 2.5 * math.log10(k))) > 1e-9:
                        rep.oracle_fail('effstim:%s:scale_law' % u, 'x%r shifts the magnitude by %r' % (k, s['ok'] - r['ok']), case, s)
                elif abs(s['ok'] - k * r['ok']) > 1e-9 * abs(k * r['ok']):
                    rep.oracle_fail('effstim:%s:scale_law' % u, 'x%r gives %r, expected %r' % (k, s['ok'], k * r['ok']), case, s)
        else:
            if 'err' in r:
                if r['err'] in ('InterpolationNotAllowed',):
                    continue
                rep.oracle_fail('efflam:%s' % r['err'], 'effective_wavelength raised %s' % r['err'], case, r)
                continue
            oi = x['other_integrator'][i]
            if oi is not None and ('err' in oi or oi['ok'] != r['ok']):
                rep.oracle_fail('efflam:integrator_dependent', 'default_integrator changes the effective wavelength: %s vs %r' % (oi, r['ok']), case, r)
            lo, hi = x['brange'] if qu['binned'] else x['wrange']
            if x['nonneg'] and r['ok'] != 0 and not (lo * (1 - 1e-9) <= r['ok'] <= hi * (1 + 1e-9)):
                rep.oracle_fail('efflam:outside_range', 'effective wavelength %r outside [%r, %r]' % (r['ok'], lo, hi), case, r)
            if not qu['binned'] and qu['erg'] and x['efflam_def'] is not None and abs(r['ok'] - x['efflam_def']) > 1e-9 * x['efflam_def']:
                rep.oracle_fail('efflam:definition', 'effective wavelength %r, defining integrals give %r' % (r['ok'], x['efflam_def']), case, r)
    op = x.get('other_pivot')
    if op is not None and not (x['pivot'] != x['pivot'] and op.get('err') == 'NaN') and ('err' in op or op['ok'] != x['pivot']):
        rep.oracle_fail('pivot:integrator_dependent', 'default_integrator changes the bandpass pivot: %s vs %r' % (op, x['pivot']), case, op)
    # magnitude = -2.5 log10(linear) - zero point
    res = {qu['unit_name']: r['ok'] for qu, r in zip(case['queries'], o['queries']) if qu['q'] == 'effstim' and 'ok' in r}
    import astropy.units as u
    if 'flam' in res and 'stmag' in res and res['flam'] > 0:
        if abs(res['stmag'] - (-2.5 * math.log10(res['flam']) - 21.10)) > 1e-9:
            rep.oracle_fail('effstim:stmag_vs_flam', 'STmag %r vs -2.5 log10(FLAM) - 21.10 = %r' % (res['stmag'], -2.5 * math.log10(res['flam']) - 21.1), case, res)
    if 'fnu' in res and 'abmag' in res and res['fnu'] > 0:
        if abs(res['abmag'] - (-2.5 * math.log10(res['fnu']) - 48.60)) > 1e-9:
            rep.oracle_fail('effstim:abmag_vs_fnu', 'ABmag %r vs -2.5 log10(FNU) - 48.60' % res['abmag'], case, res)


def gen_case(rng, K, nmax):
    src, band = c07.gen_pair(rng)
    if rng.random() < 0.35:
        src = O.fill_ss({'prim': 'source', 'leaf': {'leaf': 'constflux', 'amp': q(O.dy(rng, 0.25, 30, 3) if rng.random() < 0.6 else F(rng.randint(-20, 25))),
                                                   'unit_name': rng.choice(['flam', 'fnu', 'jy', 'stmag', 'abmag', 'photlam'])}})
        if src['leaf']['unit_name'] in ('stmag', 'abmag'):
            pass
        elif unq(src['leaf']['amp']) <= 0:
            src['leaf']['amp'] = '3/2'
    if band['leaf']['leaf'] == 'empirical' and all(unq(v) == 0 for v in band['leaf']['vals']):
        band['leaf']['vals'][0] = '1/2'
    binset, unit, kind = c07.gen_binset(rng, nmax)
    if unit != 'AA_number' or kind == 'outside':
        binset = None
    c = {'op': 'obs', 'const': K, 'src': src, 'band': band, 'force': 'extrap',
         'binset': None if binset is None else qs(sorted(binset)), '_kind': kind,
         'integrator': rng.choice(['trapezoid', 'analytical']), 'queries': []}
    for u in rng.sample(UNITS, rng.randint(3, 6)):
        c['queries'].append({'q': 'effstim', 'unit_name': u})
    for u in ('flam', 'stmag', 'fnu', 'abmag'):
        if rng.random() < 0.5 and not any(qq.get('unit_name') == u for qq in c['queries']):
            c['queries'].append({'q': 'effstim', 'unit_name': u})
    c['queries'].append({'q': 'efflam', 'binned': False, 'erg': True})
    c['queries'].append({'q': 'efflam', 'binned': True, 'erg': rng.random() < 0.7})
    if rng.random() < 0.6:
        c['k'] = q(F(2) ** rng.randint(-60, 60))
    return c


def mk_constflux_stmag(case):
    return case


def run(rep):
    thorough = rep.tier == 'thorough'
    rng = rep.rng('c09')
    K = O.consts()
    cases = core.load_corpus('C09')
    for c in cases:
        c['const'] = K
    cases += [gen_case(rng, K, 100 if thorough else 16) for _ in range(15000 if thorough else 900)]
    rep.rule = ('observations (table / constant-in-every-unit / box / trapezoid sources x table / box bandpasses, several binsets) '
                'x effstim in FLAM, FNU, Jy, mJy, PHOTLAM, PHOTNU, STmag, ABmag x scale factors 2^-60..2^60 x both default_integrator '
                'settings; effective wavelength binned/unbinned, efflerg/efflphot. Non-trivial: an observation was constructed and '
                'at least one effective stimulus returned.')

    def tags(c, o):
        t = ['outcome:' + (o.get('err') or 'ok'), 'integrator:' + c.get('integrator', 'trapezoid')]
        if 'ok' in o:
            for qu, r in zip(c['queries'], o['ok']['queries']):
                if qu['q'] == 'effstim':
                    t.append('unit:%s:%s' % (qu['unit_name'], r.get('err') or 'ok'))
        return t

    def nontrivial(c, o):
        return 'ok' in o and any('ok' in r for r in o['ok']['queries'])
    core.run_cases(rep, cases, impl_call, model_case, oracle, tags_fn=tags, nontrivial_fn=nontrivial, compare_fn=compare)
    rep.samples = [s if not isinstance(s, dict) else {k: v for k, v in s.items() if k != 'const'} for s in rep.samples]


def search(rep, mismatches):
    sub = core.Report(rep.pid, 'thorough', rep.seed + 1)
    rng = sub.rng('c09-search')
    K = O.consts()
    cases = [gen_case(rng, K, 16) for _ in range(2500)]
    impl = core.pmap(impl_call, cases)
    for c, o in zip(cases, impl):
        oracle(sub, c, o)
    rep.notes.append('directed search after mismatch: %d cases, %d oracle failures' % (len(cases), len(sub.oracle_failures)))
    return sub.oracle_failures


def replay(rep, payload):
    c = payload['case']
    c['const'] = O.consts()
    core.run_cases(rep, [c], impl_call, model_case, oracle, compare_fn=compare)
