"""./check <Cxx> [--tier quick|thorough] [--replay file]

1. (re)generate tables from /repo, build the property's Lean module (lake, under a lock)
2. proof audit: axioms of every listed theorem, forbidden-token grep, (thorough: leanchecker)
3. correspondence + oracles against the implementation in /repo's working tree
4. verdict, evidence, VIOLATION / KNOWN-FINDING lines

exit 0: property held on everything explored; 1: violation; 2: infrastructure failure
"""
import argparse
import fcntl
import fnmatch
import importlib
import json
import os
import re
import subprocess
import sys
import time
import traceback

from . import core

VERIF = core.VERIF
LEAN = core.LEAN
ALLOWED_AXIOMS = {'propext', 'Classical.choice', 'Quot.sound'}
FORBIDDEN = re.compile(r'\bsorry\b|\badmit\b|^\s*axiom\s|native_decide|bv_decide|implemented_by|'
                       r'\bunsafe\s|maxHeartbeats\s+0\b', re.M)
TRUSTED_BASE = [
    'Lean 4.33.0 kernel; Mathlib v4.33.0 as compiled under /opt/veriftools/mathlib4',
    'axioms: subset of {propext, Classical.choice, Quot.sound} (audited by #print axioms on every run); '
    'no native_decide, no bv_decide, no sorry, no user axioms',
    'hand-written Lean model lean/Synphot/Core/*.lean, tied to /repo by the correspondence '
    'harness (harness/*.py: generators, canonicalisation, tolerances) on every run',
    'table extractor tools/extract_tables.py (literal tables regenerated from /repo each run)',
    'CPython / NumPy / SciPy / astropy as installed in /venv; binary64 rounding is modelled, not verified',
    'Float-backed transcendental functions of the driver (libm via Lean Float): comparison only, never in a theorem',
]


def infra(msg):
    print('INFRASTRUCTURE FAILURE: ' + msg, flush=True)
    sys.exit(2)


def load_index():
    out = {}
    d = os.path.join(LEAN, 'index')
    for fn in sorted(os.listdir(d)):
        if fn.endswith('.json'):
            with open(os.path.join(d, fn)) as f:
                out[fn[:-5]] = json.load(f)
    return out


def strip_comments(src):
    # nested block comments /- ... -/ and line comments
    out, i, depth = [], 0, 0
    while i < len(src):
        if src.startswith('/-', i):
            depth += 1
            i += 2
        elif depth and src.startswith('-/', i):
            depth -= 1
            i += 2
        elif depth:
            if src[i] == '\n':
                out.append('\n')
            i += 1
        elif src.startswith('--', i):
            while i < len(src) and src[i] != '\n':
                i += 1
        else:
            out.append(src[i])
            i += 1
    return ''.join(out)


def grep_forbidden():
    hits = []
    for root, _, files in os.walk(os.path.join(LEAN, 'Synphot')):
        for fn in files:
            if fn.endswith('.lean'):
                p = os.path.join(root, fn)
                with open(p) as f:
                    src = strip_comments(f.read())
                for m in FORBIDDEN.finditer(src):
                    hits.append('%s: %s' % (os.path.relpath(p, LEAN), m.group(0).strip()))
    return hits


class LeanLock:
    def __enter__(self):
        os.makedirs(os.path.join(LEAN, '.lake'), exist_ok=True)
        self.f = open(os.path.join(LEAN, '.lake', 'verif.lock'), 'w')
        t0 = time.time()
        while True:
            try:
                fcntl.flock(self.f, fcntl.LOCK_EX | fcntl.LOCK_NB)
                return self
            except OSError:
                if time.time() - t0 > 3600:
                    infra('timeout waiting for the Lean build lock')
                time.sleep(0.5)

    def __exit__(self, *a):
        fcntl.flock(self.f, fcntl.LOCK_UN)
        self.f.close()


EXTRACTORS = {'extract_tables.py': 'Tables.lean', 'extract_optable.py': 'OpTable.lean',
              'extract_paramtable.py': 'ParamTable.lean'}


def extract_tables():
    """regenerate lean/Synphot/Generated/*.lean from /repo (each file is only rewritten on change).
    Returns (status, detail): 'ok' | 'fallback' (an extractor could not read the source: the committed
    baseline of that table is restored and the correspondence carries the tie) | 'absent'"""
    status, detail = 'absent', []
    for tool_name, out_name in EXTRACTORS.items():
        tool = os.path.join(VERIF, 'tools', tool_name)
        if not os.path.exists(tool):
            continue
        out = os.path.join(LEAN, 'Synphot', 'Generated', out_name)
        p = subprocess.run([sys.executable, tool, '--repo', core.REPO, '--out', out],
                           capture_output=True, text=True)
        if p.returncode != 0:
            status = 'fallback'
            detail.append('%s: %s' % (tool_name, (p.stdout + p.stderr)[-600:]))
            subprocess.run(['git', 'checkout', '--', os.path.relpath(out, VERIF)], cwd=VERIF, capture_output=True)
        else:
            if status != 'fallback':
                status = 'ok'
            detail.append(p.stdout.strip())
    return status, '; '.join(detail)


def lake_build(targets):
    p = subprocess.run(['lake', 'build'] + targets, cwd=LEAN, capture_output=True, text=True)
    return p.returncode, p.stdout + p.stderr


def audit(pid, entry, thorough):
    """returns (obligations, discharged, problems, axioms_by_theorem)"""
    thms = entry['theorems']
    src = 'import %s\n' % entry['module'] + ''.join('#print axioms %s\n' % t for t in thms)
    path = os.path.join(LEAN, '.lake', 'audit_%s.lean' % pid)
    with open(path, 'w') as f:
        f.write(src)
    p = subprocess.run(['lean', path], cwd=LEAN, env=core.lean_env(), capture_output=True, text=True)
    out = p.stdout + p.stderr
    problems = []
    axioms = {}
    # "'X' depends on axioms: [a, b]"  |  "'X' does not depend on any axioms"
    for m in re.finditer(r"'([^']+)' depends on axioms: \[([^\]]*)\]", out, re.S):
        axioms[m.group(1)] = {a.strip() for a in m.group(2).replace('\n', ' ').split(',') if a.strip()}
    for m in re.finditer(r"'([^']+)' does not depend on any axioms", out):
        axioms[m.group(1)] = set()
    discharged = 0
    for t in thms:
        if t not in axioms:
            problems.append('theorem %s not found / not checked: %s' % (t, out[-400:]))
        elif not axioms[t] <= ALLOWED_AXIOMS:
            problems.append('theorem %s depends on %s' % (t, sorted(axioms[t] - ALLOWED_AXIOMS)))
        else:
            discharged += 1
    for h in grep_forbidden():
        problems.append('forbidden token in Lean sources: ' + h)
    if thorough and not problems:
        p = subprocess.run(['lake', 'env', 'leanchecker', entry['module']], cwd=LEAN,
                           capture_output=True, text=True)
        if p.returncode != 0:
            problems.append('leanchecker rejected %s: %s' % (entry['module'], (p.stdout + p.stderr)[-500:]))
    return len(thms), discharged, problems, {k: sorted(v) for k, v in axioms.items()}


def load_known():
    out = []
    p = os.path.join(VERIF, 'known_findings.json')
    if os.path.exists(p):
        with open(p) as f:
            out.extend(json.load(f)['findings'])
    return out


def write_replay(pid, kind, payload):
    os.makedirs(os.path.join(VERIF, 'replays'), exist_ok=True)
    h = core.hashlib.sha256(json.dumps(payload, sort_keys=True, default=str).encode()).hexdigest()[:12]
    rel = os.path.join('replays', '%s-%s-%s.json' % (pid, kind, h))
    with open(os.path.join(VERIF, rel), 'w') as f:
        json.dump(payload, f, indent=1, default=str)
    return rel


def main():
    ap = argparse.ArgumentParser()
    ap.add_argument('pid')
    ap.add_argument('--tier', default=os.environ.get('VERIF_TIER', 'quick'), choices=['quick', 'thorough'])
    ap.add_argument('--replay')
    ap.add_argument('--no-build', action='store_true')
    a = ap.parse_args()
    pid = a.pid.upper()
    seed = int(os.environ.get('VERIF_SEED', '0') or 0)
    t0 = time.time()
    index = load_index()
    if pid not in index:
        infra('no lean/index/%s.json' % pid)
    entry = index[pid]
    rep = core.Report(pid, a.tier, seed)
    lean_broken = None       # text describing a proof obligation that no longer checks

    # ---- 1. tables + build
    with LeanLock():
        tstat, tdetail = extract_tables()
        rep.extra['table_extraction'] = tstat
        if tstat == 'fallback':
            rep.notes.append('table extractor could not read the source; committed baseline table '
                             'kept and validated against the running code: ' + tdetail[-300:])
        if not a.no_build:
            rc, out = lake_build(['Synphot.Driver.Main'])
            if rc != 0:
                infra('lake build of the driver failed:\n' + out[-3000:])
            rc, out = lake_build([entry['module']])
            if rc != 0:
                if 'Generated' in out or tstat == 'ok' and subprocess.run(
                        ['git', 'diff', '--quiet', '--', 'lean/Synphot/Generated'],
                        cwd=VERIF).returncode != 0:
                    lean_broken = out[-3000:]
                else:
                    infra('lake build %s failed:\n%s' % (entry['module'], out[-3000:]))
        # ---- 2. audit
        if lean_broken is None:
            nob, ndis, problems, axioms = audit(pid, entry, a.tier == 'thorough')
        else:
            nob, ndis, problems, axioms = len(entry['theorems']), 0, [], {}
    if problems:
        infra('proof audit failed:\n  ' + '\n  '.join(problems))

    # ---- 3. correspondence + oracles
    core.quiet()
    mod = importlib.import_module('harness.props.' + pid.lower())
    try:
        if a.replay:
            with open(a.replay) as f:
                mod.replay(rep, json.load(f))
        else:
            mod.run(rep)
            if lean_broken is not None and hasattr(mod, 'table_search'):
                mod.table_search(rep)
    except Exception:
        infra('harness crashed:\n' + traceback.format_exc())

    # ---- 4. verdict
    known = [k for k in load_known() if k['property'] == pid and k['status'] == 'finding']
    known_sigs = {k['signature']: k for k in known}
    seen_known = {}
    violations = []
    def known_match(sig):
        for pat in known_sigs:
            if sig == pat or fnmatch.fnmatchcase(sig, pat):
                return pat
        return None
    for sig, msg, case, impl in rep.oracle_failures:
        pat = known_match(sig)
        if pat is not None:
            seen_known.setdefault(pat, (msg, case))
        else:
            violations.append(('oracle', sig, msg, case, impl, None))
    if rep.mismatches and not violations:
        # the model no longer describes the code: directed search for a failing input
        found = []
        if hasattr(mod, 'search'):
            try:
                found = mod.search(rep, rep.mismatches) or []
            except Exception:
                rep.notes.append('search crashed: ' + traceback.format_exc()[-500:])
        found = [f for f in found if known_match(f[0]) is None]
        if found:
            for sig, msg, case, impl in found:
                violations.append(('oracle', sig, msg, case, impl, None))
        else:
            op, msg, case, impl, model = rep.mismatches[0]
            violations.append(('correspondence', op, msg, case, impl, model))
    if lean_broken is not None and not violations:
        violations.append(('theorem', entry['module'], 'a regenerated table no longer satisfies its theorem: '
                           + lean_broken[-800:], None, None, None))

    lines = []
    for k in known:
        obs = seen_known.get(k['signature'])
        lines.append('KNOWN-FINDING: property=%s %s%s' % (
            pid, k['what'], '' if obs else ' [not re-observed in this run]'))
    exit_code = 0
    seen_v = set()
    for kind, sig, msg, case, impl, model in violations:
        if (kind, sig) in seen_v:
            continue
        if len(seen_v) >= 8:
            rep.notes.append('more distinct violation signatures than reported lines')
            break
        seen_v.add((kind, sig))
        payload = {'property': pid, 'kind': kind, 'signature': sig, 'message': msg, 'seed': seed,
                   'tier': a.tier, 'case': case, 'impl_outcome': impl, 'model_outcome': model}
        if kind == 'oracle':
            rel = write_replay(pid, 'input', payload)
            lines.append('VIOLATION property=%s replay=%s' % (pid, rel))
        elif kind == 'correspondence':
            payload['broken'] = {'correspondence_op': sig, 'theorems_resting_on_it': entry['theorems'],
                                 'other_mismatches': len(rep.mismatches)}
            rel = write_replay(pid, 'corr', payload)
            lines.append('VIOLATION property=%s replay=%s no-failing-input-found' % (pid, rel))
        else:
            payload['broken'] = {'theorem_module': sig}
            rel = write_replay(pid, 'thm', payload)
            lines.append('VIOLATION property=%s replay=%s no-failing-input-found' % (pid, rel))
        exit_code = 1

    # ---- evidence
    cov = {
        'obligations': nob, 'discharged': ndis,
        'checker_cmd': 'cd lean && lake build %s && lean <(#print axioms of each theorem)%s' % (
            entry['module'], ' && lake env leanchecker ' + entry['module'] if a.tier == 'thorough' else ''),
        'trusted_base': TRUSTED_BASE + entry.get('modelled_not_verified', []),
        'theorems': entry['theorems'], 'axioms': axioms,
        'evaluations': rep.evaluations, 'distinct_nontrivial': len(rep.distinct),
        'rule': rep.rule, 'samples': rep.samples[:6], 'exhaustive': rep.exhaustive,
        'distribution': dict(sorted(rep.dist.items())),
        'correspondence_mismatches': len(rep.mismatches),
        'oracle_failures': len(rep.oracle_failures),
        'known_findings_reobserved': sorted(seen_known),
        'notes': rep.notes,
    }
    cov.update(rep.extra)
    ev = {'property_id': pid, 'tier': a.tier, 'seed': seed, 'level': 'proof', 'coverage': cov,
          'assumptions': entry.get('assumptions', []), 'wall_s': round(time.time() - t0, 2),
          'violations': sum(1 for l in lines if l.startswith('VIOLATION'))}
    os.makedirs(os.path.join(VERIF, 'evidence'), exist_ok=True)
    if not a.replay:
        with open(os.path.join(VERIF, 'evidence', pid + '.json'), 'w') as f:
            json.dump(ev, f, indent=1, default=str)
    print('%s tier=%s seed=%d theorems=%d/%d cases=%d distinct=%d mismatches=%d oracle_failures=%d wall=%.1fs' % (
        pid, a.tier, seed, ndis, nob, rep.evaluations, len(rep.distinct), len(rep.mismatches),
        len(rep.oracle_failures), time.time() - t0))
    for l in lines:
        print(l)
    sys.stdout.flush()
    sys.exit(exit_code)


if __name__ == '__main__':
    main()
