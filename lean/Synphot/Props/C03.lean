/-
  C03 — Tabulated spectra interpolate linearly and extrapolate only by the stated rule.

  `Table` is the state of an `Empirical1D` after construction, `Table.eval` its `evaluate`,
  `mkTable` its constructor, `taperPts` the table `BaseSpectrum.taper` builds.
  All theorems: every ordered field, every table length, any spacing.
-/
import Synphot.Lemmas.Interp

set_option linter.unusedSectionVars false
set_option linter.unusedVariables false
set_option linter.unusedSimpArgs false

namespace Synphot.C03
open Synphot
variable {K : Type} [Field K] [LinearOrder K] [IsStrictOrderedRing K]

/-- well-formed table: strictly ascending points (what `mkTable` produces from any strictly
monotone input), as many values as points -/
structure WF (t : Table K) : Prop where
  asc : StrictAsc t.pts
  len : t.vals.length = t.pts.length

/-- negative values were clipped at construction unless the caller kept them -/
def Clipped (t : Table K) : Prop := t.keepNeg = true ∨ ∀ y ∈ t.vals, 0 ≤ y

/-- between two neighbouring knots the spectrum is the straight line through them -/
theorem eval_is_chord (t : Table K) (hw : WF t) (hc : Clipped t) (s : (K × K) × (K × K))
    (hs : s ∈ segs t.pts t.vals) (x : K) (h1 : s.1.1 ≤ x) (h2 : x ≤ s.2.1) :
    t.eval x = chord s x := by
  have hk := segs_mem_knots t.pts t.vals s hs
  have hlt := segs_strict t.pts t.vals hw.asc s hs
  have hx0 : t.pts.headD 0 ≤ x := by
    cases hp : t.pts with
    | nil => rw [hp] at hk; simp at hk
    | cons p0 ps =>
      simp only [List.headD_cons]
      exact le_trans (strictAsc_head_le_mem p0 ps (hp ▸ hw.asc) s.1.1 (hp ▸ hk.1)) h1
  have hxn : x ≤ t.pts.getLastD 0 := le_trans h2 (strictAsc_mem_le_last t.pts hw.asc 0 _ hk.2)
  have hraw := interpAsc_chord t.pts t.vals hw.asc s hs x h1 h2
  unfold Table.eval
  simp only [not_lt.mpr hx0, not_lt.mpr hxn, if_false, hraw]
  rcases hc with hc | hc
  · simp [hc]
  · have hv := segs_mem_vals t.pts t.vals s hs
    have hb := (chord_between s hlt x h1 h2).1
    have : 0 ≤ chord s x := le_trans (le_min (hc _ hv.1) (hc _ hv.2)) hb
    cases t.keepNeg <;> simp [not_lt.mpr this]

/-- the tabulated value at every tabulated wavelength (left knot of a segment) -/
theorem eval_knot_left (t : Table K) (hw : WF t) (hc : Clipped t) (s : (K × K) × (K × K))
    (hs : s ∈ segs t.pts t.vals) : t.eval s.1.1 = s.1.2 := by
  have hlt := segs_strict t.pts t.vals hw.asc s hs
  rw [eval_is_chord t hw hc s hs s.1.1 (le_refl _) (le_of_lt hlt), chord_left]

/-- … and at the right knot (covers the last tabulated wavelength) -/
theorem eval_knot_right (t : Table K) (hw : WF t) (hc : Clipped t) (s : (K × K) × (K × K))
    (hs : s ∈ segs t.pts t.vals) : t.eval s.2.1 = s.2.2 := by
  have hlt := segs_strict t.pts t.vals hw.asc s hs
  rw [eval_is_chord t hw hc s hs s.2.1 (le_of_lt hlt) (le_refl _), chord_right s hlt]

/-- hence never outside the two neighbouring values -/
theorem eval_between (t : Table K) (hw : WF t) (hc : Clipped t) (s : (K × K) × (K × K))
    (hs : s ∈ segs t.pts t.vals) (x : K) (h1 : s.1.1 ≤ x) (h2 : x ≤ s.2.1) :
    min s.1.2 s.2.2 ≤ t.eval x ∧ t.eval x ≤ max s.1.2 s.2.2 := by
  rw [eval_is_chord t hw hc s hs x h1 h2]
  exact chord_between s (segs_strict t.pts t.vals hw.asc s hs) x h1 h2

/-- outside the table, below: the first value (nearest end) unless the table is zero-ended -/
theorem eval_below (t : Table K) (x : K) (hx : x < t.pts.headD 0)
    (h0 : t.keepNeg = true ∨ 0 ≤ t.vals.headD 0) :
    t.eval x = if t.fillNaN then t.vals.headD 0 else 0 := by
  unfold Table.eval
  dsimp only
  rw [if_pos hx]
  by_cases hk : t.keepNeg = true
  · rw [if_pos hk]
  · rw [if_neg hk]
    have h0' : 0 ≤ t.vals.headD 0 := by
      rcases h0 with h0 | h0
      · exact absurd h0 hk
      · exact h0
    by_cases hf : t.fillNaN = true
    · rw [if_pos hf, if_neg (not_lt.mpr h0')]
    · rw [if_neg hf, if_neg (lt_irrefl 0)]

/-- outside the table, above: the last value unless the table is zero-ended -/
theorem eval_above (t : Table K) (x : K) (hx0 : ¬ x < t.pts.headD 0) (hx : t.pts.getLastD 0 < x)
    (h0 : t.keepNeg = true ∨ 0 ≤ t.vals.getLastD 0) :
    t.eval x = if t.fillNaN then t.vals.getLastD 0 else 0 := by
  unfold Table.eval
  dsimp only
  rw [if_neg hx0, if_pos hx]
  by_cases hk : t.keepNeg = true
  · rw [if_pos hk]
  · rw [if_neg hk]
    have h0' : 0 ≤ t.vals.getLastD 0 := by
      rcases h0 with h0 | h0
      · exact absurd h0 hk
      · exact h0
    by_cases hf : t.fillNaN = true
    · rw [if_pos hf, if_neg (not_lt.mpr h0')]
    · rw [if_neg hf, if_neg (lt_irrefl 0)]

/-- unless the caller asked to keep them, no sampled value is negative -/
theorem eval_nonneg (t : Table K) (hk : t.keepNeg = false) (x : K) : 0 ≤ t.eval x := by
  unfold Table.eval
  simp only [hk, Bool.false_eq_true, if_false]
  split_ifs <;> first | exact le_refl _ | (rename_i h; exact not_lt.mp h)

/-- construction: negative entries are replaced by zero and the warning is recorded exactly
when there was one; with `keep_neg` the values are untouched and no warning is recorded -/
theorem clipNeg_spec (keepNeg : Bool) (y : List K) :
    (keepNeg = true → clipNeg keepNeg y = (y, false)) ∧
    (keepNeg = false → (∀ v ∈ (clipNeg keepNeg y).1, 0 ≤ v) ∧
        ((clipNeg keepNeg y).2 = true ↔ ∃ v ∈ y, v < 0) ∧
        (clipNeg keepNeg y).1 = y.map (fun v => max v 0)) := by
  constructor
  · intro h; simp [clipNeg, h]
  · intro h
    simp only [clipNeg, h, Bool.false_eq_true, if_false]
    refine ⟨?_, ?_, ?_⟩
    · intro v hv
      rw [List.mem_map] at hv
      obtain ⟨u, _, rfl⟩ := hv
      split_ifs with hu
      · exact le_refl _
      · exact not_lt.mp hu
    · simp [List.any_eq_true]
    · apply List.map_congr_left
      intro v _
      split_ifs with hv
      · exact (max_eq_right (le_of_lt hv)).symm
      · exact (max_eq_left (not_lt.mp hv)).symm

/-- the fill rule: zero fill exactly for zero-ended (tapered) tables -/
theorem mkTable_fill (x y : List K) (k : Bool) :
    (mkTable x y k).1.fillNaN = !(mkTable x y k).1.isTapered := by
  simp [mkTable, Table.isTapered]

/-- a table given in descending order is the same table as its ascending reversal -/
theorem mkTable_order (a b : K) (l : List K) (y : List K) (k : Bool)
    (hs : StrictDesc (a :: b :: l)) :
    mkTable (a :: b :: l) y k = mkTable (a :: b :: l).reverse y.reverse k := by
  have hlt := strictDesc_last_lt_head a b l hs
  have hl1 : (a :: b :: l).getLast? = some ((a :: b :: l).getLastD a) := by
    rw [List.getLastD_eq_getLast?]
    cases h : (a :: b :: l).getLast? with
    | none => simp at h
    | some v => rfl
  have hd1 : isDesc (a :: b :: l) = true := by
    unfold isDesc; rw [hl1]
    show decide ((a :: b :: l).getLastD a < a) = true
    exact decide_eq_true hlt
  have hrev_head : (a :: b :: l).reverse.head? = some ((a :: b :: l).getLastD a) := by
    rw [List.head?_reverse, hl1]
  have hrev_last : (a :: b :: l).reverse.getLast? = some a := by
    rw [List.getLast?_reverse]; rfl
  have hd2 : isDesc (a :: b :: l).reverse = false := by
    unfold isDesc; rw [hrev_head, hrev_last]
    show decide (a < (a :: b :: l).getLastD a) = false
    exact decide_eq_false (not_lt.mpr (le_of_lt hlt))
  unfold mkTable
  simp only [hd1, hd2, if_true, Bool.false_eq_true, if_false]

/-! ### tapering -/

/-- `taper` adds exactly one point beyond each non-zero end, with value zero, at `x₀²/x₁`
(resp. `xₙ²/xₙ₋₁`), and none at a zero end; all other points and values are the sampled ones -/
theorem taper_spec (x0 x1 : K) (xs : List K) (first last : K) (f : K → K) :
    let x := x0 :: x1 :: xs
    let w1 := x0 ^ 2 / x1
    let w2 := x.getLastD x0 ^ 2 / (x.dropLast).getLastD x0
    taperPts x first last f =
      if first = 0 ∧ last = 0 then none
      else some ((if first ≠ 0 then [w1] else []) ++ x ++ (if last ≠ 0 then [w2] else []),
                 (if first ≠ 0 then [0] else []) ++ x.map f ++ (if last ≠ 0 then [0] else [])) := by
  intro x w1 w2
  simp only [taperPts, x, w1, w2]
  by_cases h : first = 0 ∧ last = 0
  · simp [h]
  · rw [if_neg h, if_neg h]
    by_cases h1 : first = 0 <;> by_cases h2 : last = 0 <;> simp [h1, h2]

/-- the added lower point lies below the table and the added upper point above it
(positive ascending wavelengths) -/
theorem taper_points_outside (x0 x1 xl2 xl : K) (h0 : 0 < x0) (h01 : x0 < x1) (hl2 : 0 < xl2)
    (hl : xl2 < xl) : x0 ^ 2 / x1 < x0 ∧ xl < xl ^ 2 / xl2 := by
  constructor
  · rw [div_lt_iff₀ (lt_trans h0 h01)]; nlinarith
  · rw [lt_div_iff₀ hl2]; nlinarith

/-- a tapered table is zero-ended, so tapering it again returns the spectrum itself -/
theorem taper_idem (x : List K) (f : K → K) : taperPts x 0 0 f = none := by
  unfold taperPts
  cases x with
  | nil => rfl
  | cons a l => cases l <;> simp

/-- non-vacuity: a concrete descending table with a negative entry -/
example : (mkTable ([3, 2, 1] : List ℚ) [5, -1, 4] false).1.pts = [1, 2, 3] ∧
    (mkTable ([3, 2, 1] : List ℚ) [5, -1, 4] false).1.vals = [4, 0, 5] ∧
    (mkTable ([3, 2, 1] : List ℚ) [5, -1, 4] false).2 = true := by decide

end Synphot.C03
