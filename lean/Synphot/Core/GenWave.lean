/-
  Synphot.Core.GenWave — `utils.generate_wavelengths` (synphot/utils.py:142-205) and the
  `np.arange` rule the analytic models use for their default sampling sets
  (models.py:77-96, 213-238, 461-487, 593-614, 634-655).
-/
import Mathlib.Algebra.Order.Floor.Ring
import Synphot.Core.Transc

namespace Synphot
variable {K : Type} [Field K] [LinearOrder K] [IsStrictOrderedRing K]

/-- `start + i·step` for `i < n` -/
def affineGrid (start step : K) (n : Nat) : List K :=
  (List.range n).map fun (i : Nat) => start + (i : K) * step

/-- `np.arange(start, stop, step)` for `step > 0`: `⌈(stop − start)/step⌉` points
(the implementation decides the count in binary64; see DESIGN §1.2a) -/
def arange [FloorRing K] (start stop step : K) : List K :=
  affineGrid start step (Nat.ceil ((stop - start) / step))

/-- `np.linspace(a, b, num, endpoint=False)` -/
def linspaceOpen (a b : K) (num : Nat) : List K := affineGrid a ((b - a) / (num : K)) num

/-- `generate_wavelengths(minwave, maxwave, num, delta, log)`; `delta = none` uses `num` -/
def generateWavelengths [FloorRing K] (T : Transc K) (minw maxw : K) (num : Nat) (delta : Option K)
    (log : Bool) : List K :=
  if log then
    let lo := T.log10 minw
    let hi := T.log10 maxw
    match delta with
    | none => (linspaceOpen lo hi num).map T.pow10
    | some d => (arange lo hi d).map T.pow10
  else
    match delta with
    | none => linspaceOpen minw maxw num
    | some d => arange minw maxw d

/-- default sampling grid of a Gaussian: `arange(m − 5σ, m + 5σ, 0.1σ)` -/
def gaussianGrid [FloorRing K] (m s : K) : List K := arange (m - 5 * s) (m + 5 * s) (s / 10)

/-- Lorentz: `arange(x0 − 25·fwhm, x0 + 25·fwhm, 0.05·fwhm)` -/
def lorentzGrid [FloorRing K] (x0 fwhm : K) : List K :=
  arange (x0 - 25 * fwhm) (x0 + 25 * fwhm) (fwhm / 20)

/-- Ricker wavelet: `arange(x0 − 10σ, x0 + 10σ, 0.1σ)` -/
def rickerGrid [FloorRing K] (x0 s : K) : List K := arange (x0 - 10 * s) (x0 + 10 * s) (s / 10)

/-- Box: `arange(w1 − step, w2 + 2·step, step)` with `w1, w2 = x0 ∓ width/2` -/
def boxGrid [FloorRing K] (x0 w step : K) : List K :=
  arange (x0 - w / 2 - step) (x0 + w / 2 + step + step) step

/-- Trapezoid: its four knots -/
def trapezoidGrid (amp x0 w slope : K) : List K :=
  [x0 - w / 2 - amp / slope, x0 - w / 2, x0 + w / 2, x0 + w / 2 + amp / slope]

end Synphot
