/-
  Synphot.Lemmas.Params — helper lemmas about the parameter-processing model (`Core/Params.lean`):
  `mapM` in `Except`, idempotence of the per-keyword processing, the element-wise form of the flux
  conversion at the redshifted reference wavelengths.
-/
import Mathlib.Tactic.Ring
import Mathlib.Tactic.FieldSimp
import Mathlib.Tactic.Linarith
import Synphot.Core.Params
import Synphot.Lemmas.Units

set_option linter.unusedSectionVars false
set_option linter.unusedSimpArgs false
set_option linter.unusedVariables false

namespace Synphot.Params
open Synphot
variable {K : Type} [Field K] [LinearOrder K] [IsStrictOrderedRing K]

/-! ### `mapM` in `Except` -/

section mapM
variable {α β : Type}

theorem mapM_nil' (f : α → Except Err β) : ([] : List α).mapM f = .ok [] := rfl

theorem mapM_cons' (f : α → Except Err β) (a : α) (l : List α) :
    (a :: l).mapM f = (do let b ← f a; let bs ← l.mapM f; pure (b :: bs)) := by
  simp [List.mapM_cons]

theorem mapM_cons_ok (f : α → Except Err β) (a : α) (l : List α) (b : β) (bs : List β)
    (ha : f a = .ok b) (hl : l.mapM f = .ok bs) : (a :: l).mapM f = .ok (b :: bs) := by
  rw [mapM_cons', ha, hl]; rfl

theorem mapM_cons_inv (f : α → Except Err β) (a : α) (l : List α) (r : List β)
    (h : (a :: l).mapM f = .ok r) : ∃ b bs, f a = .ok b ∧ l.mapM f = .ok bs ∧ r = b :: bs := by
  rw [mapM_cons'] at h
  cases ha : f a with
  | error e => rw [ha] at h; cases h
  | ok b =>
    cases hl : l.mapM f with
    | error e => rw [ha, hl] at h; cases h
    | ok bs =>
      rw [ha, hl] at h
      refine ⟨b, bs, rfl, rfl, ?_⟩
      injection h with h; exact h.symm

/-- a function that fixes its own outputs fixes the output of `mapM` -/
theorem mapM_idem (f : α → Except Err α) (hf : ∀ p p', f p = .ok p' → f p' = .ok p') :
    ∀ (l l' : List α), l.mapM f = .ok l' → l'.mapM f = .ok l'
  | [], l', h => by
      rw [mapM_nil'] at h; injection h with h; subst h; rfl
  | a :: l, l', h => by
      obtain ⟨b, bs, ha, hl, rfl⟩ := mapM_cons_inv f a l l' h
      exact mapM_cons_ok f b bs b bs (hf a b ha) (mapM_idem f hf l bs hl)

/-- one failing element fails the whole call (with the error of the first failing element) -/
theorem mapM_error_of_mem (f : α → Except Err β) :
    ∀ (l : List α) (p : α), p ∈ l → (∃ e, f p = .error e) → ∃ e, l.mapM f = .error e
  | [], p, hp, _ => by cases hp
  | a :: l, p, hp, he => by
      rw [mapM_cons']
      cases ha : f a with
      | error e => exact ⟨e, rfl⟩
      | ok b =>
        rcases List.mem_cons.mp hp with rfl | hp'
        · obtain ⟨e, he⟩ := he; rw [ha] at he; cases he
        · obtain ⟨e, hl⟩ := mapM_error_of_mem f l p hp' he
          exact ⟨e, by rw [hl]; rfl⟩

/-- when only the first element can fail, its error is the call's -/
theorem mapM_error_head (f : α → Except Err β) (a : α) (l : List α) (e : Err) (h : f a = .error e) :
    (a :: l).mapM f = .error e := by
  rw [mapM_cons', h]; rfl

end mapM

/-! ### association lists -/

theorem mem_of_lookup {β : Type} : ∀ (l : List (String × β)) (k : String) (v : β),
    l.lookup k = some v → (k, v) ∈ l
  | [], _, _, h => by cases h
  | (k', v') :: t, k, v, h => by
      by_cases hk : k = k'
      · subst hk
        simp only [List.lookup_cons_self] at h
        injection h with h; subst h; exact List.mem_cons_self
      · have : (k == k') = false := by simpa using hk
        rw [List.lookup_cons, this] at h
        exact List.mem_cons_of_mem _ (mem_of_lookup t k v h)

theorem mem_popKey (k : String) : ∀ (l : Args K) (p : String × Arg K), p ∈ l → p.1 ≠ k → p ∈ popKey k l
  | [], _, h, _ => by cases h
  | a :: t, p, h, hk => by
      unfold popKey
      by_cases ha : a.1 = k
      · rw [if_pos ha]
        rcases List.mem_cons.mp h with rfl | h'
        · exact absurd ha hk
        · exact h'
      · rw [if_neg ha]
        rcases List.mem_cons.mp h with rfl | h'
        · exact List.mem_cons_self
        · exact List.mem_cons_of_mem _ (mem_popKey k t p h' hk)

/-! ### plain numbers pass every kind of processing unchanged -/

theorem Arg.eq_num_of_unit_none (a : Arg K) (h : a.unit = none) : Arg.num a.vals = a := by
  cases a; simp only [Arg.num] at *; subst h; rfl

theorem processWave_num (P : PhysConst K) (v : List K) : processWave P (Arg.num v) = .ok v := rfl

theorem processWave_plain (P : PhysConst K) (a : Arg K) (h : a.unit = none) : processWave P a = .ok a.vals := by
  unfold processWave; rw [h]

theorem processFlux_plain (P : PhysConst K) (T : Transc K) (cls : SpecClass) (z : K) (w : Option (List K))
    (a : Arg K) (h : a.unit = none) : processFlux P T cls z w a = .ok a.vals := by
  unfold processFlux; rw [h]

theorem processGeneric_plain (kind : String) (a : Arg K) (h : a.unit = none) :
    processGeneric kind a = .ok a.vals := by
  unfold processGeneric; rw [h]

/-- a keyword whose value is a plain number is handed to the model class as it is -/
theorem processOne_plain (P : PhysConst K) (T : Transc K) (cls : SpecClass) (z : K) (w : Option (List K))
    (kinds : List (String × String)) (p : String × Arg K) (h : p.2.unit = none) :
    processOne P T cls z w kinds p = .ok p := by
  have hp : (p.1, Arg.num p.2.vals) = p := by
    rw [Arg.eq_num_of_unit_none p.2 h]
  unfold processOne
  cases kinds.lookup p.1 with
  | none => rfl
  | some kind =>
    simp only
    split_ifs
    · rw [processWave_plain P p.2 h]; simp [Except.map, hp]
    · rw [processFlux_plain P T cls z w p.2 h]; simp [Except.map, hp]
    · rfl
    · rw [processGeneric_plain kind p.2 h]; simp [Except.map, hp]

theorem map_ok_inv {α β : Type} (g : α → β) (x : Except Err α) (y : β) (h : x.map g = .ok y) :
    ∃ a, x = .ok a ∧ y = g a := by
  cases x with
  | error e => cases h
  | ok a => exact ⟨a, rfl, by simp [Except.map] at h; exact h.symm⟩

/-- what the processing of one keyword returns is either the keyword itself (not a parameter of the
class, or a parameter the class converts itself) or a plain number under the same name -/
theorem processOne_out (P : PhysConst K) (T : Transc K) (cls : SpecClass) (z : K) (w : Option (List K))
    (kinds : List (String × String)) (p p' : String × Arg K) (h : processOne P T cls z w kinds p = .ok p') :
    p' = p ∧ (kinds.lookup p.1 = none ∨ kinds.lookup p.1 = some "noconv") ∨ (p'.1 = p.1 ∧ p'.2.unit = none) := by
  unfold processOne at h
  cases hk : kinds.lookup p.1 with
  | none => rw [hk] at h; injection h with h; exact Or.inl ⟨h.symm, Or.inl rfl⟩
  | some kind =>
    rw [hk] at h; simp only at h
    split_ifs at h with h1 h2 h3
    · obtain ⟨v, _, rfl⟩ := map_ok_inv _ _ _ h; exact Or.inr ⟨rfl, rfl⟩
    · obtain ⟨v, _, rfl⟩ := map_ok_inv _ _ _ h; exact Or.inr ⟨rfl, rfl⟩
    · injection h with h; subst h3; exact Or.inl ⟨h.symm, Or.inr rfl⟩
    · obtain ⟨v, _, rfl⟩ := map_ok_inv _ _ _ h; exact Or.inr ⟨rfl, rfl⟩

/-- processing is idempotent on single keywords -/
theorem processOne_idem (P : PhysConst K) (T : Transc K) (cls : SpecClass) (z : K) (w : Option (List K))
    (kinds : List (String × String)) (p p' : String × Arg K) (h : processOne P T cls z w kinds p = .ok p') :
    processOne P T cls z w kinds p' = .ok p' := by
  rcases processOne_out P T cls z w kinds p p' h with ⟨rfl, _⟩ | ⟨_, hu⟩
  · exact h
  · exact processOne_plain P T cls z w kinds p' hu

/-! ### the flux conversion, element by element -/

/-- every flux value converted at its own reference wavelength × (1+z) -/
def convEach (P : PhysConst K) (T : Transc K) (z : K) (u : FluxUnit K) : List K → List K → Except Err (List K)
  | w :: ws, f :: fs => do
      let y ← toPhotlam P T (plainSamp (w * (1 + z))) u f
      let ys ← convEach P T z u ws fs
      pure (y :: ys)
  | _, _ => pure []

theorem convertOne_to_photlam (P : PhysConst K) (T : Transc K) (s : Samp K) (u : FluxUnit K) (hu : u ≠ .photlam)
    (f : K) : convertOne P T s u .photlam f = toPhotlam P T s u f := by
  unfold convertOne
  rw [if_neg hu]
  cases toPhotlam P T s u f with
  | error e => rfl
  | ok p => rfl

theorem convertAll_plain (P : PhysConst K) (T : Transc K) (z : K) (u : FluxUnit K) (hu : u ≠ .photlam) :
    ∀ (w f : List K),
      convertAll P T u .photlam (mkSamples (w.map (· * (1 + z))) none none) f = convEach P T z u w f
  | [], f => by cases f <;> rfl
  | w :: ws, [] => rfl
  | w :: ws, f :: fs => by
      simp only [List.map_cons, mkSamples, convertAll, convEach, Option.bind_none, Option.map_none]
      rw [convertOne_to_photlam P T _ u hu, convertAll_plain P T z u hu ws fs]
      rfl

theorem needsArea_of_fluxDensity (u : FluxUnit K) (h : isFluxDensity u = true) : u.needsArea = false := by
  cases u <;> simp [isFluxDensity, FluxUnit.needsArea] at h ⊢

/-- `convert_flux` at the redshifted reference wavelengths is the element-wise conversion -/
theorem convertAtRef_eq (P : PhysConst K) (T : Transc K) (z : K) (u : FluxUnit K) (hu : u ≠ .photlam)
    (hfd : isFluxDensity u = true) (w f : List K) :
    convertAtRef P T z (some w) u f = convEach P T z u w f := by
  have hcf : countFactorsFor (w.map (· * (1 + z))) u (.photlam : FluxUnit K) (none : Option K) = .ok none := by
    unfold countFactorsFor
    rw [needsArea_of_fluxDensity u hfd]
    simp [FluxUnit.needsArea]
    rfl
  show convertFlux P T (w.map (· * (1 + z))) f u .photlam none none = _
  unfold convertFlux
  rw [if_neg hu, hcf]
  exact convertAll_plain P T z u hu w f

end Synphot.Params
