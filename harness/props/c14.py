"""C14  FITS spectrum files round-trip values, units and headers.

Real files are written into a scratch directory under /tmp (removed afterwards).  Every case is run on
the implementation (write_fits_spec / read_fits_spec / read_spec / read_ascii_spec / to_fits /
from_file), the written file is inspected with astropy.io.fits directly, and the same case goes to the
Lean model (Core/Specio.lean at K = Q), which predicts the stored unit strings, column names, format,
rows and header cards and the outcome of reading them back.  The property oracle looks at the
implementation alone.

Cases run as short HISTORIES: 1-4 consecutive requests (writes/reads of different objects, units, headers,
precisions) executed in one freshly forked process.  Every step is measured: the model's prediction is a pure
function of that step's request, and the oracle demands that the step's file holds exactly the caller's cards
plus the documented standard cards of that object - so anything an earlier save leaves behind (module- or
class-level state) shows up as a disagreement whose replay is the history up to that step.

Results are fed back in: what read_fits_spec / read_spec / read_ascii_spec returned (byte-swapped arrays for
FITS) is written again and read again for up to three laps, objects returned by from_file are saved and loaded
again, and first-lap arrays come in every memory layout a caller may hold for the same numbers (native or
byte-swapped dtype, strided or reversed views, read-only, lists inside a Quantity).  The model's line for a lap is
a pure function of the values, their float32/float64 class and the precision rule.
"""
import functools
import json
import math
import os
import re
import shutil
import tempfile
import warnings
from fractions import Fraction as F

import numpy as np

from .. import core
from ..core import q, qs, unq

SCRATCH = None          # set by run()/replay(); inherited by the fork pool
EPS_DEFAULT = 0.00032

# ---------------------------------------------------------------------------------- units
# wavelength units the package supports (validate_wave_unit: length, frequency, wave number):
# astropy name -> power-of-two exponent that puts k * 2**e (k ~ 2**8 .. 2**20) into a plausible range
WAVE_UNITS = {
    'AA': -4, 'nm': -7, 'micron': -17, 'um': -17, 'mm': -27, 'cm': -30, 'm': -37,
    'Hz': 30, 'kHz': 20, 'MHz': 10, 'GHz': 0, 'THz': -10,
    'micron-1': -16, 'cm-1': -3, 'mm-1': -6, 'm-1': 4,
    'Mm': -57, 'pm': 3, 'km': -47, 'mHz': 40,
}
WAVE_COMMON = ['AA', 'nm', 'micron', 'um', 'mm', 'cm', 'm', 'Hz', 'kHz', 'MHz', 'GHz', 'THz',
               'micron-1', 'cm-1', 'mm-1', 'm-1']
WAVE_RARE = ['Mm', 'pm', 'km']
# flux / throughput units: name -> kind of values
FLUX_UNITS = {
    'PHOTLAM': 'lin', 'PHOTNU': 'lin', 'FLAM': 'lin', 'FNU': 'lin', 'Jy': 'lin', 'mJy': 'lin', 'uJy': 'lin',
    'nJy': 'lin', 'MJy': 'lin', 'kJy': 'lin', 'STmag': 'mag', 'ABmag': 'mag', 'OBMAG': 'mag', 'VEGAMAG': 'mag',
    'count': 'pos', 'dimensionless': 'thru',
    'erg / (Angstrom s cm2)': 'lin', 'W / (Hz m2)': 'lin',
}
FLUX_COMMON = [k for k in FLUX_UNITS if '/' not in k]
# unit *strings* for the keyword path (plain arrays + wave_unit= / flux_unit=)
WAVE_STRS = ['angstroms', 'Angstroms', 'ANGSTROMS', 'Angstrom', 'angstrom', 'AA', 'nm', 'NM', 'inversemicrons',
             'InverseMicrons', 'micron', 'MICRON', 'Hz', 'hz', 'cm', 'bogusunit']
FLUX_STRS = ['flam', 'FLAM', 'Flam', 'photlam', 'PHOTLAM', 'fnu', 'photnu', 'jy', 'JY', 'Jy', 'stmag', 'ABMAG',
             'obmag', 'VegaMag', 'mag(st)', 'MAG(AB)', 'mag(OB)', 'transmission', 'Extinction', 'EMISSIVITY',
             'throughput', 'none', 'count', 'ct', 'mJy', 'mjy', 'sec', 'bogusunit']


def astropy_unit(name):
    import astropy.units as u
    from synphot import units
    special = {'PHOTLAM': units.PHOTLAM, 'PHOTNU': units.PHOTNU, 'FLAM': units.FLAM, 'FNU': units.FNU,
               'STmag': u.STmag, 'ABmag': u.ABmag, 'OBMAG': units.OBMAG, 'VEGAMAG': units.VEGAMAG,
               'dimensionless': u.dimensionless_unscaled}
    if name in special:
        return special[name]
    return u.Unit(name)


@functools.lru_cache(maxsize=None)
def unit_id(name):
    """generic string of a unit of the catalogue (the model's identifier of the unit)"""
    return astropy_unit(name).to_string()


@functools.lru_cache(maxsize=None)
def verdict(s):
    """astropy's verdict on a unit string: generic string of u.Unit(s), or None (ValueError)"""
    import astropy.units as u
    with warnings.catch_warnings():
        warnings.simplefilter('ignore')
        try:
            return u.Unit(s).to_string()
        except ValueError:
            return None
        except Exception:       # e.g. TypeError for exotic strings: counts as "does not parse"
            return None


def astro_table(strings):
    """every string the model may ask astropy about, starting from the given ones: the string, its lower
    case, and for every unit reached its generic string and that string upper-cased (what the writer emits)"""
    seen = {}
    names = table_names()
    todo = [s for s in strings if isinstance(s, str)]
    for _ in range(5):
        nxt = []
        for s in todo:
            if s.lower() in names and names[s.lower()]:
                i = names[s.lower()]
                nxt.extend([i, i.upper()])
            for t in (s, s.lower()):
                if t in seen or t == '':
                    continue
                seen[t] = verdict(t)
                if seen[t]:
                    nxt.extend([seen[t], seen[t].upper()])
        todo = [t for t in nxt if t not in seen]
    return seen


@functools.lru_cache(maxsize=1)
def table_names():
    """lower-case names of the generated validate_unit table (lean/Synphot/Generated/Tables.lean)"""
    p = os.path.join(core.LEAN, 'Synphot', 'Generated', 'Tables.lean')
    with open(p) as f:
        src = f.read()
    m = re.search(r'def unitNameTable[^\[]*\[(.*?)\n\]', src, re.S)
    return {k: v for k, v in re.findall(r'\("((?:[^"\\]|\\.)*)",\s*"((?:[^"\\]|\\.)*)"\)', m.group(1))}


def model_spec(us):
    """unit description of a case -> UnitSpec JSON of the model"""
    k = us['kind']
    if k in ('quantity_id', 'kw_unit_id'):
        return {'unit': us['id']}
    if k in ('quantity', 'kw_unit'):
        return {'unit': unit_id(us['name'])}
    if k == 'kw_str':
        return {'str': us['s']}
    return 'other'


def spec_unit_id(us):
    """generic string of the unit a unit description stands for (None: a string spec / invalid)"""
    if us['kind'] in ('quantity_id', 'kw_unit_id'):
        return us['id']
    if us['kind'] in ('quantity', 'kw_unit'):
        return unit_id(us['name'])
    return None


def spec_strings(us):
    if us['kind'] in ('quantity_id', 'kw_unit_id'):
        return [us['id'], us['id'].upper()]
    if us['kind'] in ('quantity', 'kw_unit'):
        i = unit_id(us['name'])
        return [i, i.upper()]
    if us['kind'] == 'kw_str':
        return [us['s']]
    return []


def enc(v):
    """header value -> the opaque string the model carries"""
    if isinstance(v, (tuple, list)):
        v = v[0]
    if isinstance(v, str):
        return v
    if isinstance(v, (bool, np.bool_)):
        return 'true' if v else 'false'
    if isinstance(v, (int, np.integer)):
        return str(int(v))
    return repr(float(v))


def outcome_err(e):
    return {'err': core.exc_name(e), 'msg': str(e)[:160]}


def np_dtype(code):
    return {'f4': np.float32, 'f8': np.float64, 'i8': np.int64, 'f2': np.float16}[code]


def model_dtype(code, us=None):
    """dtype class the writer sees; a Quantity built from an integer array holds float64"""
    if code == 'i8' and us is not None and us['kind'] == 'quantity':
        return 'f8'
    return code if code in ('f4', 'f8') else 'other'


def arr(vals, code):
    return np.array([float(unq(x)) for x in vals], dtype=np.float64).astype(np_dtype(code))


def scratch_path(case, suffix='.fits'):
    return os.path.join(SCRATCH, 'c%07d%s' % (case['id'], suffix))


def cleanup(*paths):
    for p in paths:
        try:
            if os.path.isdir(p):
                os.rmdir(p)
            elif os.path.exists(p):
                os.remove(p)
        except OSError:
            pass


# ---------------------------------------------------------------------------------- implementation calls
def inspect_fits(fn):
    """what is in the file, read with astropy.io.fits alone"""
    from astropy.io import fits
    with fits.open(fn) as h:
        e = h[1]
        hdr = e.header
        n = hdr['TFIELDS']
        out = {'ttype': [hdr['TTYPE%d' % (i + 1)] for i in range(n)],
               'tunit': [hdr.get('TUNIT%d' % (i + 1)) for i in range(n)],
               'tform': [hdr['TFORM%d' % (i + 1)] for i in range(n)],
               'cols': [np.array(e.data.field(i), dtype=np.float64).tolist() for i in range(n)],
               'pri': {k: enc(v) for k, v in h[0].header.items() if k not in ('COMMENT', 'HISTORY', '')},
               'ext': {k: enc(v) for k, v in hdr.items() if k not in ('COMMENT', 'HISTORY', '')}}
    return out


LAYOUTS = ['native', 'swapped_astype', 'swapped_view', 'strided', 'reversed_view', 'readonly', 'list_quantity']


def apply_layout(a, layout):
    """the same numbers in another memory layout a caller may hold"""
    if layout == 'swapped_astype':
        return a.astype(a.dtype.newbyteorder('>' if a.dtype.byteorder in ('=', '<', '|') else '<'))
    if layout == 'swapped_view':
        return a.byteswap().view(a.dtype.newbyteorder())
    if layout == 'strided':
        big = np.full(2 * len(a), 77, dtype=a.dtype)
        big[::2] = a
        return big[::2]
    if layout == 'reversed_view':
        return a[::-1].copy()[::-1]
    if layout == 'readonly':
        b = a.copy()
        b.flags.writeable = False
        return b
    return a


def quantity_or_array(vals, code, us, layout='native'):
    a = arr(vals, code)
    if layout == 'list_quantity':
        if us['kind'] == 'quantity' and code == 'f8':
            return [float(x) for x in a] * astropy_unit(us['name'])
        layout = 'native'
    a = apply_layout(a, layout)
    if us['kind'] == 'quantity':
        return a * astropy_unit(us['name'])
    return a


def finite(xs):
    return all(isinstance(x, float) and math.isfinite(x) for x in xs)


def dtype_code(char):
    return {'f': 'f4', 'd': 'f8'}.get(char, 'other')


def flag_kwargs(d):
    kw = {}
    for k, name in (('trim', 'trim_zero'), ('pad', 'pad_zero_ends')):
        if d.get(k) is not None:
            kw[name] = d[k]
    if d.get('precision') is not None:
        kw['precision'] = d['precision']
    return kw


def run_laps(case, w, f):
    """laps 2..n of a table: what the previous read returned (Quantities holding the file's byte-swapped arrays,
    or the ASCII reader's arrays) is written again as it is - as Quantities, or as bare arrays plus unit
    keywords - and read again"""
    from synphot import specio
    outs = []
    for k, lap in enumerate(case.get('laps') or [], start=2):
        inp = {'wave': np.asarray(w.value, dtype=np.float64).tolist(), 'flux': np.asarray(f.value, dtype=np.float64).tolist(),
               'wchar': w.value.dtype.char, 'fchar': f.value.dtype.char, 'wstr': w.value.dtype.str,
               'fstr': f.value.dtype.str, 'wunit': w.unit.to_string(), 'funit': f.unit.to_string()}
        if not (finite(inp['wave']) and finite(inp['flux'])) or np.ndim(w.value) != 1:
            break
        o = {'input': inp, 'write': None, 'read': None}
        outs.append(o)
        fn = scratch_path(case, '_l%d.fits' % k)
        try:
            try:
                if lap['feed'] == 'quantity':
                    specio.write_fits_spec(fn, w, f, **flag_kwargs(lap))
                else:
                    specio.write_fits_spec(fn, w.value, f.value, wave_unit=w.unit, flux_unit=f.unit, **flag_kwargs(lap))
                o['write'] = {'ok': inspect_fits(fn)}
            except Exception as e:  # noqa
                o['write'] = outcome_err(e)
                break
            try:
                hdr, w, f = specio.read_fits_spec(fn)
                o['read'] = {'ok': {'wunit': w.unit.to_string(), 'funit': f.unit.to_string(),
                                    'wave': np.asarray(w.value, dtype=np.float64).tolist(),
                                    'flux': np.asarray(f.value, dtype=np.float64).tolist(),
                                    'wdtype': w.value.dtype.char, 'fdtype': f.value.dtype.char,
                                    'header': {k2: enc(v) for k2, v in hdr.items() if k2 not in ('COMMENT', 'HISTORY', '')}}}
            except Exception as e:  # noqa
                o['read'] = outcome_err(e)
                break
        finally:
            cleanup(fn)
    return outs


def lap_steps(case, out):
    """laps 2..n of a table as requests of their own: (derived fits_rt case, outcome).  The derived case is what
    the lap asked for: the values and dtype class the previous read returned, its units, the lap's options."""
    res = []
    for k, (lap, o) in enumerate(zip(case.get('laps') or [], out.get('laps') or []), start=2):
        inp = o['input']
        kind = 'quantity_id' if lap['feed'] == 'quantity' else 'kw_unit_id'
        dc = {'op': 'fits_rt', 'id': case['id'], '_lap': k, '_fname': 'c%07d_l%d.fits' % (case['id'], k),
              'wunit': {'kind': kind, 'id': inp['wunit']}, 'funit': {'kind': kind, 'id': inp['funit']},
              'wdt': dtype_code(inp['wchar']), 'fdt': dtype_code(inp['fchar']), 'wave': qs(inp['wave']), 'flux': qs(inp['flux']),
              'precision': lap.get('precision'), 'trim': lap.get('trim'), 'pad': lap.get('pad'), 'eps': None,
              'pri': None, 'ext': None, 'wcol': None, 'fcol': None, 'rwcol': None, 'rfcol': None,
              'via': 'read_fits_spec', 'layout': 'fed back %s/%s' % (inp['wstr'], inp['fstr'])}
        res.append((dc, {'write': o['write'], 'read': o['read']}))
    return res


def unit_kw(us):
    if us['kind'] == 'kw_str':
        return us['s']
    if us['kind'] == 'kw_unit':
        return astropy_unit(us['name'])
    if us['kind'] == 'kw_other':
        return 5
    return None


def header_arg(pairs):
    d = {}
    for k, v, comment in pairs:
        d[k] = (v, comment) if comment else v
    return d


def impl_fits_rt(case):
    from synphot import specio
    fn = scratch_path(case)
    kw = {}
    for k in ('trim', 'pad'):
        if case[k] is not None:
            kw[{'trim': 'trim_zero', 'pad': 'pad_zero_ends'}[k]] = case[k]
    if case['precision'] is not None:
        kw['precision'] = case['precision']
    if case['eps'] is not None:
        kw['epsilon'] = float(unq(case['eps']))
    if case['wcol'] is not None:
        kw['wave_col'] = case['wcol']
    if case['fcol'] is not None:
        kw['flux_col'] = case['fcol']
    if case['pri'] is not None:
        kw['pri_header'] = header_arg(case['pri'])
    if case['ext'] is not None:
        kw['ext_header'] = header_arg(case['ext'])
    for key, us in (('wave_unit', case['wunit']), ('flux_unit', case['funit'])):
        if us['kind'] != 'quantity':
            kw[key] = unit_kw(us)
    out = {'write': None, 'read': None}
    try:
        with warnings.catch_warnings():
            warnings.simplefilter('ignore')
            try:
                lay = case.get('layout') or ['native', 'native']
                specio.write_fits_spec(fn, quantity_or_array(case['wave'], case['wdt'], case['wunit'], lay[0]),
                                       quantity_or_array(case['flux'], case['fdt'], case['funit'], lay[1]), **kw)
                out['write'] = {'ok': inspect_fits(fn)}
            except Exception as e:  # noqa
                out['write'] = outcome_err(e)
                return out
            rkw = {}
            if case['rwcol'] is not None:
                rkw['wave_col'] = case['rwcol']
            if case['rfcol'] is not None:
                rkw['flux_col'] = case['rfcol']
            try:
                reader = specio.read_spec if case['via'] == 'read_spec' else specio.read_fits_spec
                hdr, w, f = reader(fn, **rkw)
                out['read'] = {'ok': {'wunit': w.unit.to_string(), 'funit': f.unit.to_string(),
                                      'wave': np.asarray(w.value, dtype=np.float64).tolist(),
                                      'flux': np.asarray(f.value, dtype=np.float64).tolist(),
                                      'wdtype': w.value.dtype.char, 'fdtype': f.value.dtype.char,
                                      'header': {k: enc(v) for k, v in hdr.items() if k not in ('COMMENT', 'HISTORY', '')}}}
            except Exception as e:  # noqa
                out['read'] = outcome_err(e)
                return out
            out['laps'] = run_laps(case, w, f)
    finally:
        cleanup(fn)
    return out


def build_object(case):
    from synphot import SourceSpectrum, SpectralElement, ReddeningLaw
    from synphot.models import Empirical1D
    pts = [float(unq(x)) for x in case['pts']]
    vals = [float(unq(x)) for x in case['vals']]
    kw = {}
    if case.get('meta') is not None:
        kw['meta'] = dict(case['meta'])
    if case['cls'] == 'source':
        return SourceSpectrum, SourceSpectrum(Empirical1D, points=pts, lookup_table=vals, **kw)
    if case['cls'] == 'bandpass':
        return SpectralElement, SpectralElement(Empirical1D, points=pts, lookup_table=vals, **kw)
    return ReddeningLaw, ReddeningLaw(Empirical1D, points=pts, lookup_table=vals, **kw)


def obj_lap_case(case, k):
    """lap k >= 2 of an object: the object from_file returned is saved again (default wavelengths = the waveset
    it got from the file) and loaded again.  A request of its own, built from the case alone."""
    lap = case['laps'][k - 2]
    return {'op': 'obj_rt', 'id': case['id'], '_lap': k, '_fname': 'c%07d_l%d.fits' % (case['id'], k),
            'cls': case['cls'], 'pts': None, 'vals': None, 'flux_unit': lap.get('flux_unit') if case['cls'] == 'source' else None,
            'wl': None, 'wl_unit': None, 'trim': lap.get('trim'), 'pad': lap.get('pad'), 'precision': lap.get('precision'),
            'pri': None, 'ext': None, 'meta': None}


def obj_one_lap(cls, obj, case, fn):
    """sample, save, load again, sample the loaded object at the stored wavelengths; returns (outcome, loaded)"""
    out = {'sampled': None, 'write': None, 'reload': None}
    wl = None
    if case['wl'] is not None:
        wl = apply_layout(np.array([float(unq(x)) for x in case['wl']]), case.get('wl_layout') or 'native')
        if case['wl_unit']:
            wl = wl * astropy_unit(case['wl_unit'])
    akw = {}
    if case['cls'] == 'source' and case['flux_unit'] is not None:
        akw['flux_unit'] = case['flux_unit']
    try:
        w, y = obj._get_arrays(wl, **akw)
        out['sampled'] = {'ok': {'wave': np.asarray(w.value, float).tolist(), 'flux': np.asarray(y.value, float).tolist(),
                                 'wunit': w.unit.to_string(), 'funit': y.unit.to_string(),
                                 'wdt': dtype_code(w.value.dtype.char), 'fdt': dtype_code(y.value.dtype.char),
                                 'wstr': w.value.dtype.str}}
    except Exception as e:  # noqa
        out['sampled'] = outcome_err(e)
        return out, None
    kw = dict(akw)
    kw.update(flag_kwargs(case))
    if case['pri'] is not None:
        kw['pri_header'] = header_arg(case['pri'])
    if case['ext'] is not None:
        kw['ext_header'] = header_arg(case['ext'])
    try:
        obj.to_fits(fn, wavelengths=wl, **kw)
        out['write'] = {'ok': inspect_fits(fn)}
    except Exception as e:  # noqa
        out['write'] = outcome_err(e)
        return out, None
    try:
        obj2 = cls.from_file(fn)
        st = out['write']['ok']
        wq = np.array(st['cols'][0]) * w.unit
        if case['cls'] == 'source':
            v = obj2(wq, flux_unit=y.unit if case['flux_unit'] else None)
        else:
            v = obj2(wq)
        out['reload'] = {'ok': {'vals': np.asarray(v.value, float).tolist(),
                                'header': {k: enc(x) for k, x in obj2.meta['header'].items()
                                           if k not in ('COMMENT', 'HISTORY', '')}}}
        return out, obj2
    except Exception as e:  # noqa
        out['reload'] = outcome_err(e)
        return out, None


def impl_obj_rt(case):
    """to_fits / from_file of the three classes: what was sampled, what is stored, and what the reloaded
    object returns at the stored wavelengths (in the stored units); then the loaded object is saved and loaded
    again (laps)"""
    fn = scratch_path(case)
    fns = [fn]
    try:
        with warnings.catch_warnings():
            warnings.simplefilter('ignore')
            cls, obj = build_object(case)
            out, obj2 = obj_one_lap(cls, obj, case, fn)
            out['laps'] = []
            for k in range(2, 2 + len(case.get('laps') or [])):
                if obj2 is None or not finite(out['write']['ok']['cols'][0]) or len(out['write']['ok']['cols'][0]) < 2:
                    break
                fk = scratch_path(case, '_l%d.fits' % k)
                fns.append(fk)
                lo, obj2 = obj_one_lap(cls, obj2, obj_lap_case(case, k), fk)
                out['laps'].append(lo)
                if 'ok' not in (lo.get('write') or {}):
                    break
    finally:
        cleanup(*fns)
    return out


def obj_lap_steps(case, out):
    return [(obj_lap_case(case, k), lo) for k, lo in enumerate(out.get('laps') or [], start=2)]


def make_fits_file(case, fn):
    """a FITS file built with astropy.io.fits alone"""
    from astropy.io import fits
    pri = fits.PrimaryHDU()
    for k, v in case['file']['pri']:
        pri.header[k] = v
    hdus = [pri]
    for e in case['file']['exts']:
        cols = []
        for c in e['cols']:
            a = np.array([float(unq(x)) for x in c['vals']], dtype=np.float64)
            if e['format'] == 'f4':
                a = a.astype(np.float32)
            cols.append(fits.Column(name=c['name'], array=a, unit=c['tunit'], format='E' if e['format'] == 'f4' else 'D'))
        t = fits.BinTableHDU.from_columns(fits.ColDefs(cols))
        if e['extname']:
            t.header['EXTNAME'] = e['extname']
        hdus.append(t)
    fits.HDUList(hdus).writeto(fn, overwrite=True)


def impl_fits_read(case):
    from synphot import specio
    fn = scratch_path(case)
    fp = None
    try:
        with warnings.catch_warnings():
            warnings.simplefilter('ignore')
            kind = case['kind']
            if kind == 'ok':
                make_fits_file(case, fn)
            elif kind == 'dir':
                os.makedirs(fn, exist_ok=True)
            elif kind == 'empty':
                open(fn, 'w').close()
            elif kind == 'garbage':
                with open(fn, 'wb') as f:
                    f.write(b'this is not a FITS file\n' * 200)
            kw = {}
            if case['ext_sel'] is not None:
                kw['ext'] = case['ext_sel']
            if case['rwcol'] is not None:
                kw['wave_col'] = case['rwcol']
            if case['rfcol'] is not None:
                kw['flux_col'] = case['rfcol']
            try:
                via = case['via']
                if via == 'read_fits_spec':
                    target = fn
                    if not case['is_str']:
                        fp = open(fn, 'rb')
                        target = fp
                    hdr, w, f = specio.read_fits_spec(target, **kw)
                elif via == 'read_spec':
                    hdr, w, f = specio.read_spec(fn, **kw)
                else:
                    from synphot import SourceSpectrum, SpectralElement, ReddeningLaw
                    cls = {'source': SourceSpectrum, 'bandpass': SpectralElement, 'redlaw': ReddeningLaw}[via]
                    o = cls.from_file(fn, **kw)
                    return {'ok': {'object': type(o).__name__}}
                res = {'ok': {'wunit': w.unit.to_string(), 'funit': f.unit.to_string(),
                              'wave': np.asarray(w.value, dtype=np.float64).tolist(),
                              'flux': np.asarray(f.value, dtype=np.float64).tolist(),
                              'header': {k: enc(v) for k, v in hdr.items() if k not in ('COMMENT', 'HISTORY', '')}}}
            except Exception as e:  # noqa
                return outcome_err(e)
            res['laps'] = run_laps(case, w, f)
            return res
    finally:
        if fp is not None:
            fp.close()
        cleanup(fn)


def ascii_text(case):
    lines = []
    for ln in case['lines']:
        if ln == 'b':
            lines.append('')
        elif isinstance(ln, str):
            lines.append(ln)                         # a comment line, text included
        else:
            lines.append(ln['sep'].join(repr(float(unq(x))) for x in ln['f']) + ln.get('tail', ''))
    return '\n'.join(lines) + '\n'


def impl_ascii(case):
    from synphot import specio
    fn = scratch_path(case, case['suffix'])
    try:
        with warnings.catch_warnings():
            warnings.simplefilter('ignore')
            if case['lines'] is not None:
                with open(fn, 'w') as f:
                    f.write(ascii_text(case))
            kw = {}
            for key, us in (('wave_unit', case['wunit']), ('flux_unit', case['funit'])):
                if us is not None:
                    kw[key] = unit_kw(us)
            try:
                via = case['via']
                if via == 'read_ascii_spec':
                    hdr, w, f = specio.read_ascii_spec(fn, **kw)
                elif via == 'read_spec':
                    hdr, w, f = specio.read_spec(fn, **kw)
                else:
                    from synphot import SourceSpectrum
                    sp = SourceSpectrum.from_file(fn, **kw)
                    return {'ok': {'object': type(sp).__name__,
                                   'points': np.asarray(sp.model.points[0], float).tolist()}}
                res = {'ok': {'wunit': w.unit.to_string(), 'funit': f.unit.to_string(),
                              'wave': np.asarray(w.value).tolist(), 'flux': np.asarray(f.value).tolist(),
                              'wdtype': w.value.dtype.char, 'fdtype': f.value.dtype.char, 'header': dict(hdr)}}
            except Exception as e:  # noqa
                return outcome_err(e)
            res['laps'] = run_laps(case, w, f)
            return res
    finally:
        cleanup(fn)


def impl_unit_name(case):
    from synphot import units
    try:
        with warnings.catch_warnings():
            warnings.simplefilter('ignore')
            return {'ok': units.validate_unit(case['name']).to_string()}
    except Exception as e:  # noqa
        return outcome_err(e)


def isolated(fn, arg):
    """run fn(arg) in a freshly forked child: whatever module- or class-level state the steps leave behind dies
    with the child, so a history is reproducible from its own steps"""
    r, w = os.pipe()
    pid = os.fork()
    if pid == 0:
        code = 0
        try:
            os.close(r)
            try:
                data = json.dumps(fn(arg)).encode()
            except BaseException as e:  # noqa
                data = json.dumps({'crash': '%s: %s' % (type(e).__name__, e)}).encode()
            with os.fdopen(w, 'wb') as f:
                f.write(data)
        except BaseException:  # noqa
            code = 1
        finally:
            os._exit(code)
    os.close(w)
    with os.fdopen(r, 'rb') as f:
        data = f.read()
    os.waitpid(pid, 0)
    if not data:
        raise RuntimeError('history child died without a result')
    out = json.loads(data)
    if isinstance(out, dict) and 'crash' in out:
        raise RuntimeError('history child crashed: ' + out['crash'])
    return out


def impl_history(case):
    return isolated(lambda c: {'steps': [impl_call(st) for st in c['steps']]}, case)


def impl_call(case):
    op = case['op']
    if op == 'history':
        return impl_history(case)
    if op == 'fits_rt':
        return impl_fits_rt(case)
    if op == 'obj_rt':
        return impl_obj_rt(case)
    if op == 'fits_read':
        return impl_fits_read(case)
    if op == 'ascii':
        return impl_ascii(case)
    if op == 'unit_name':
        return impl_unit_name(case)
    raise KeyError(op)


# ---------------------------------------------------------------------------------- model lines
def pairs_for_model(pairs):
    return [[k, enc(v)] for k, v, _ in (pairs or [])]


def write_line(case, wave, flux, wdt, fdt, wspec, fspec, strings, pri=None, ext=None, wcol=None, fcol=None):
    return {'filename': case.get('_fname') or 'c%07d.fits' % case['id'], 'wave': wave, 'flux': flux, 'wdt': wdt, 'fdt': fdt,
            'wspec': wspec, 'fspec': fspec, 'pri': pairs_for_model(pri), 'ext': pairs_for_model(ext),
            'trim': True if case['trim'] is None else case['trim'], 'pad': True if case['pad'] is None else case['pad'],
            'precision': case['precision'], 'eps': q(EPS_DEFAULT) if case.get('eps') is None else case['eps'],
            'wcol': wcol or 'WAVELENGTH', 'fcol': fcol or 'FLUX', 'astro': astro_table(strings)}


def model_case(case):
    op = case['op']
    if op == 'fits_rt':
        m = write_line(case, case['wave'], case['flux'], model_dtype(case['wdt'], case['wunit']),
                       model_dtype(case['fdt'], case['funit']),
                       model_spec(case['wunit']), model_spec(case['funit']),
                       spec_strings(case['wunit']) + spec_strings(case['funit']),
                       case['pri'], case['ext'], case['wcol'], case['fcol'])
        m['op'] = 'c14_roundtrip'
        m['rwcol'] = case['rwcol'] or 'WAVELENGTH'
        m['rfcol'] = case['rfcol'] or 'FLUX'
        return m
    if op == 'fits_read':
        strings = []
        if case['kind'] == 'ok':
            for e in case['file']['exts']:
                strings += [c['tunit'] for c in e['cols'] if c['tunit']]
        return {'op': 'c14_read', 'is_str': case['is_str'],
                'file': ({'pri': [[k.upper(), enc(v)] for k, v in case['file']['pri']],
                          'exts': [{'extname': e['extname'], 'header': [], 'format': e['format'],
                                    'cols': [{'name': c['name'], 'tunit': c['tunit'], 'vals': c['vals']} for c in e['cols']]}
                                   for e in case['file']['exts']]} if case['kind'] == 'ok' else None),
                'ext_sel': 1 if case['ext_sel'] is None else case['ext_sel'],
                'rwcol': case['rwcol'] or 'WAVELENGTH',
                'rfcol': case['rfcol'] or ({'bandpass': 'THROUGHPUT', 'redlaw': 'Av/E(B-V)'}.get(case['via'], 'FLUX')),
                'astro': astro_table(strings)}
    if op == 'ascii':
        lines = None
        if case['lines'] is not None:
            lines = ['b' if ln == 'b' else 'c' if isinstance(ln, str) else ln['f'] for ln in case['lines']]
        strings = []
        for us in (case['wunit'], case['funit']):
            if us is not None:
                strings += spec_strings(us)
        return {'op': 'c14_ascii', 'lines': lines,
                'wspec': None if case['wunit'] is None else model_spec(case['wunit']),
                'fspec': None if case['funit'] is None else model_spec(case['funit']),
                'astro': astro_table(strings)}
    if op == 'unit_name':
        return {'op': 'c14_unit', 'spec': {'str': case['name']}, 'astro': astro_table([case['name']])}
    return None          # obj_rt: the model line needs the sampled arrays (second pass)


def standard_ext_cards(case):
    """the documented standard extension cards of to_fits() for this object: TDISP1/TDISP2, and EXPR iff the
    object's own metadata has an 'expr' entry"""
    cards = [('tdisp1', 'G15.7', ''), ('tdisp2', 'G15.7', '')]
    meta = case.get('meta') or {}
    if 'expr' in meta:
        cards.append(('expr', meta['expr'], 'synphot expression'))
    return cards


def obj_model_case(case, out):
    """second pass for obj_rt: which rows does the model store for the arrays the object sampled?"""
    s = out.get('sampled') or {}
    if 'ok' not in s:
        return None
    s = s['ok']
    fcol = {'source': 'FLUX', 'bandpass': 'THROUGHPUT', 'redlaw': 'Av/E(B-V)'}[case['cls']]
    c2 = dict(case)
    if case['cls'] == 'redlaw':
        c2['trim'] = False if case['trim'] is None else case['trim']
        c2['pad'] = False if case['pad'] is None else case['pad']
    ext = list(case['ext'] or []) + standard_ext_cards(case)
    m = write_line(c2, qs(s['wave']), qs(s['flux']), s.get('wdt', 'f8'), s.get('fdt', 'f8'), {'unit': s['wunit']}, {'unit': s['funit']},
                   [s['wunit'], s['wunit'].upper(), s['funit'], s['funit'].upper()], case['pri'], ext, None, fcol)
    m['op'] = 'c14_roundtrip'
    m['rwcol'] = 'WAVELENGTH'
    m['rfcol'] = fcol
    return m


# ---------------------------------------------------------------------------------- comparison with the model
HALF_ULP32 = 2.0 ** -24


def close_vals(impl, model, rel, what):
    if len(impl) != len(model):
        return '%s: %d rows on the implementation, %d in the model' % (what, len(impl), len(model))
    for i, (a, b) in enumerate(zip(impl, model)):
        b = unq(b)
        if not isinstance(a, float) or not math.isfinite(a):
            return '%s[%d]: impl %r vs model %s' % (what, i, a, float(b))
        r = rel[i] if isinstance(rel, list) else rel
        if abs(F(a) - b) > F(r) * abs(b):
            return '%s[%d]: impl %r vs model %r' % (what, i, a, float(b))
    return None


def row_tolerances(n, pad, single_store, any_f4_arith):
    """non-pad rows: exact, or half an ulp of binary32 when double values are stored as single;
    pad rows are computed (w0**2/w1) in the input precision, then stored"""
    base = HALF_ULP32 * 1.0000001 if single_store else 0.0
    tol = [base] * n
    if pad and n >= 2:
        tol[0] = tol[-1] = 1e-6 if (any_f4_arith or single_store) else 1e-13
    return tol


STRUCTURAL = re.compile(r'^(SIMPLE|BITPIX|NAXIS\d*|EXTEND|XTENSION|PCOUNT|GCOUNT|TFIELDS|TTYPE\d+|TFORM\d+|TUNIT\d+)$')


def user_cards(hdr):
    """the cards of a stored header that are not structural FITS keywords"""
    return {k: v for k, v in hdr.items() if not STRUCTURAL.match(k)}


def sub_header(model_pairs, impl_hdr, what, exact=False):
    for k, v in model_pairs:
        if impl_hdr.get(k) != v:
            return '%s card %s: impl %r vs model %r' % (what, k, impl_hdr.get(k), v)
    if exact:
        extra = sorted(set(user_cards(impl_hdr)) - {k for k, _ in model_pairs})
        if extra:
            return '%s header has cards the model does not predict: %s' % (what, ', '.join(
                '%s=%r' % (k, impl_hdr[k]) for k in extra))
    return None


def compare_written(case, w, m, wdt, fdt, pad):
    """implementation's stored file (inspected) vs the model's"""
    if ('err' in w) != ('err' in m) or ('err' in w and w['err'] != m['err']):
        return 'write: impl %s vs model %s' % (core._short(w), core._short(m))
    if 'err' in w:
        return None
    st, mf = w['ok'], m['ok']
    hd = mf['exts'][0]
    if st['ttype'] != [c['name'] for c in hd['cols']]:
        return 'column names: impl %r vs model %r' % (st['ttype'], [c['name'] for c in hd['cols']])
    if st['tunit'] != [c['tunit'] for c in hd['cols']]:
        return 'TUNIT: impl %r vs model %r' % (st['tunit'], [c['tunit'] for c in hd['cols']])
    fmt = {'E': 'f4', 'D': 'f8'}.get(st['tform'][0], st['tform'][0])
    if st['tform'][0] != st['tform'][1] or fmt != hd['format']:
        return 'TFORM: impl %r vs model %r' % (st['tform'], hd['format'])
    single = fmt == 'f4'
    n = len(hd['cols'][0]['vals'])
    r = close_vals(st['cols'][0], hd['cols'][0]['vals'],
                   row_tolerances(n, pad, single and wdt == 'f8', wdt == 'f4'), 'stored wavelength')
    r = r or close_vals(st['cols'][1], hd['cols'][1]['vals'],
                        row_tolerances(n, False, single and fdt != 'f4', False), 'stored flux')
    r = r or sub_header(mf['pri'], st['pri'], 'primary', exact=True) or \
        sub_header(hd['header'], st['ext'], 'extension', exact=True)
    return r


def compare_read(rd, m, what='read'):
    if ('err' in rd) != ('err' in m) or ('err' in rd and rd['err'] != m['err']):
        return '%s: impl %s vs model %s' % (what, core._short(rd), core._short(m))
    if 'err' in rd:
        return None
    a, b = rd['ok'], m['ok']
    if a['wunit'] != b['wunit'] or a['funit'] != b['funit']:
        return '%s units: impl %r,%r vs model %r,%r' % (what, a['wunit'], a['funit'], b['wunit'], b['funit'])
    return None


def compare(case, out, m):
    op = case['op']
    if op in ('fits_rt', 'obj_rt'):
        pad = True if case['pad'] is None else case['pad']
        if op == 'obj_rt':
            sm = (out.get('sampled') or {}).get('ok') or {}
            wdt, fdt = sm.get('wdt', 'f8'), sm.get('fdt', 'f8')
            if case['cls'] == 'redlaw' and case['pad'] is None:
                pad = False
        else:
            wdt, fdt = model_dtype(case['wdt'], case['wunit']), model_dtype(case['fdt'], case['funit'])
        r = compare_written(case, out['write'], m['write'], wdt, fdt, pad)
        if r or 'err' in out['write']:
            return r
        if op == 'obj_rt':
            return None
        rd, mr = out['read'], m['read']
        r = compare_read(rd, mr)
        if r or 'err' in rd:
            return r
        # the reader hands back what is stored: compare with the *stored* values exactly
        st = out['write']['ok']
        if rd['ok']['wave'] != st['cols'][0] or rd['ok']['flux'] != st['cols'][1]:
            return 'read values differ from the stored ones'
        return sub_header(mr['ok']['header'], rd['ok']['header'], 'returned primary header')
    if op == 'fits_read':
        if case['via'] in ('source', 'bandpass', 'redlaw'):
            if 'err' in m or 'err' in out:
                if out.get('err') != m.get('err') and not ('ok' in m and 'err' in out):
                    return 'from_file: impl %s vs model %s' % (core._short(out), core._short(m))
            return None
        r = compare_read(out, m, 'read_fits_spec')
        if r or 'err' in out:
            return r
        r = close_vals(out['ok']['wave'], m['ok']['wave'], 0.0, 'wavelength') or \
            close_vals(out['ok']['flux'], m['ok']['flux'], 0.0, 'flux')
        return r or sub_header(m['ok']['header'], out['ok']['header'], 'returned primary header')
    if op == 'ascii':
        if case['via'] == 'source':
            if 'err' in m and out.get('err') != m['err']:
                return 'from_file(ascii): impl %s vs model %s' % (core._short(out), core._short(m))
            return None
        r = compare_read(out, m, 'read_ascii_spec')
        if r or 'err' in out:
            return r
        return close_vals(out['ok']['wave'], m['ok']['wave'], 0.0, 'wavelength') or \
            close_vals(out['ok']['flux'], m['ok']['flux'], 0.0, 'flux')
    if op == 'unit_name':
        return core.same(out, m)
    return None


# ---------------------------------------------------------------------------------- property oracles
SIG_OPEN = 'read_fits_spec:unopenable_filename:UnboundLocalError'
SIG_UNIT = 'fits_roundtrip:emitted_unit_unparsable:ValueError'
SIG_UNIT_CHANGED = 'fits_roundtrip:emitted_unit_reads_as_other_unit'


def emitted_class(tunit, unit_in):
    """condition class of an emitted TUNIT string: does the reader's rule map it back to the unit?"""
    if tunit is None:
        return 'ok' if unit_in == '' else 'other'
    names = table_names()
    if tunit.lower() in names:
        got = names[tunit.lower()]
    else:
        got = verdict(tunit)
        if got is None:
            got = verdict(tunit.lower())
    if got is None:
        return 'unparsable'
    return 'ok' if got == unit_in else 'other'


def vals_equal(got, want, single, what):
    if len(got) != len(want):
        return '%s: %d values, expected %d' % (what, len(got), len(want))
    for i, (a, b) in enumerate(zip(got, want)):
        if single:
            ok = abs(a - b) <= HALF_ULP32 * 1.0000001 * abs(b)
        else:
            ok = a == b
        if not ok:
            return '%s[%d]: %r, expected %r' % (what, i, a, b)
    return None


def prec_is_explicit(case):
    return case['precision'] is not None


def thin_reference(w, f, eps):
    keep = [i for i in range(len(w) - 1) if abs(w[i + 1] - w[i]) > eps] + [len(w) - 1]
    return keep


def check_headers(rep, case, out, st, prefix, standard):
    """the headers of the file hold exactly the caller's cards (last one wins for a repeated keyword) plus the
    documented standard cards of THIS request: FILENAME and ORIGIN in the primary header unless the caller
    overrides them; for to_fits() TDISP1/TDISP2 and, iff the object's metadata has 'expr', EXPR in the
    extension header (the standard cards are applied after the caller's).  No card from anywhere else."""
    want_pri = {'FILENAME': case.get('_fname') or 'c%07d.fits' % case['id'], 'ORIGIN': 'synphot'}
    for k, v, _ in (case['pri'] or []):
        want_pri[k.upper()] = enc(v)
    want_ext = {}
    for k, v, _ in list(case['ext'] or []) + list(standard):
        want_ext[k.upper()] = enc(v)
    for name, want, got in (('primary', want_pri, user_cards(st['pri'])), ('extension', want_ext, user_cards(st['ext']))):
        for k, v in want.items():
            if got.get(k) != v:
                rep.oracle_fail('%s:%s_header_card_lost' % (prefix, name),
                                'card %s=%r is %r in the %s header of the file' % (k, v, got.get(k), name), case, out)
                return False
        extra = sorted(set(got) - set(want))
        if extra:
            rep.oracle_fail('%s:%s_header_spurious_card' % (prefix, name),
                            'the %s header of the file has cards nobody asked for: %s' % (
                                name, ', '.join('%s=%r' % (k, got[k]) for k in extra)), case, out)
            return False
    return True


def oracle_fits_rt(rep, case, out):
    """read(write(t)) vs t, on the implementation alone"""
    wr = out['write']
    wdt, fdt = model_dtype(case['wdt'], case['wunit']), model_dtype(case['fdt'], case['funit'])
    w_in = arr(case['wave'], case['wdt']).astype(np.float64).tolist() if wdt in ('f4', 'f8') else None
    f_in = arr(case['flux'], case['fdt']).astype(np.float64).tolist() if fdt in ('f4', 'f8') else None
    if prec_is_explicit(case) and fdt == 'other' and case['fdt'] == 'i8':
        f_in = arr(case['flux'], 'i8').astype(np.float64).tolist()      # integer fluxes are accepted with an explicit precision
    valid_units = all(us['kind'] in ('quantity', 'kw_unit', 'quantity_id', 'kw_unit_id') or
                      (us['kind'] == 'kw_str' and (us['s'].lower() in table_names() or verdict(us['s']) is not None
                                                   or verdict(us['s'].lower()) is not None))
                      for us in (case['wunit'], case['funit']))
    prec = case['precision']
    valid_args = (valid_units and w_in is not None and f_in is not None and len(case['wave']) == len(case['flux'])
                  and (prec is None or prec.lower() in ('single', 'double')))
    if not valid_args:
        if 'ok' in wr:
            return
        if wr['err'] not in ('SynphotError', 'ValueError'):
            rep.oracle_fail('write_fits_spec:invalid_args:%s' % wr['err'], 'invalid arguments raised %s' % wr['err'], case, out)
        return
    trim = True if case['trim'] is None else case['trim']
    pad = True if case['pad'] is None else case['pad']
    single = (prec.lower() == 'single') if prec is not None else fdt == 'f4'
    if prec is None and fdt == 'other':
        if 'ok' in wr:
            rep.oracle_fail('write_fits_spec:non_float_flux:accepted', 'a non-float flux array was written at native precision', case, out)
        return
    thinning = wdt == 'f8' and single
    eps = EPS_DEFAULT if case['eps'] is None else float(unq(case['eps']))
    rows = list(zip(w_in, f_in))
    if trim:
        rows = [r for r in rows if r[1] != 0]
    if thinning and rows:
        keep = thin_reference([r[0] for r in rows], None, eps)
        kept = [rows[i] for i in keep]
        # the thinning rule itself: survivors pairwise farther apart than eps (monotone tables), last row kept
        ws = [r[0] for r in kept]
        if any(abs(ws[i + 1] - ws[i]) <= eps for i in range(len(ws) - 1)):
            rep.oracle_fail('fits_rt:thinning:reference_inconsistent', 'internal: reference thinning broke its own rule', case, out)
        rows = kept
    elif thinning:
        rows = None
    expect_fail = rows is None or (pad and len(rows) < 2)
    if 'err' in wr:
        if not expect_fail:
            rep.oracle_fail('write_fits_spec:valid_table:%s' % wr['err'],
                            'writing a valid table raised %s: %s' % (wr['err'], wr.get('msg')), case, out)
        return
    if expect_fail:
        return              # nothing left to pad: the property does not say what happens
    st = wr['ok']
    sw, sf = st['cols'][0], st['cols'][1]
    flags = 'trim=%s,pad=%s%s' % (trim, pad, ',thinned' if thinning else '')
    body_w, body_f = (sw[1:-1], sf[1:-1]) if pad else (sw, sf)
    if pad:
        if len(sw) != len(rows) + 2:
            rep.oracle_fail('fits_rt:%s:row_count' % flags, 'stored %d rows for %d expected data rows + 2 pad rows' % (
                len(sw), len(rows)), case, out)
            return
        if sf[0] != 0 or sf[-1] != 0:
            rep.oracle_fail('fits_rt:%s:pad_not_zero' % flags, 'the first/last stored row is not a zero-flux row', case, out)
            return
        ws = [r[0] for r in rows]
        asc = all(ws[i] < ws[i + 1] for i in range(len(ws) - 1))
        desc = all(ws[i] > ws[i + 1] for i in range(len(ws) - 1))
        if (asc or desc) and min(ws) > 0:
            lo, hi = (sw[0], sw[-1]) if asc else (sw[-1], sw[0])
            # end rows closer than a few ulps of the stored precision: the pad row may round onto the end row
            gap = min(abs(ws[1] - ws[0]) / abs(ws[0]), abs(ws[-1] - ws[-2]) / abs(ws[-1]))
            strict = gap > (2.0 ** -21 if (single or wdt == 'f4') else 2.0 ** -50)
            if strict and not (0 < lo < min(body_w) and hi > max(body_w)) or \
                    not strict and not (0 < lo <= min(body_w) and hi >= max(body_w)):
                rep.oracle_fail('fits_rt:%s:pad_not_beyond_ends' % flags,
                                'pad wavelengths %r, %r are not strictly outside [%r, %r]' % (
                                    sw[0], sw[-1], min(body_w), max(body_w)), case, out)
                return
    r = vals_equal(body_w, [r[0] for r in rows], single and wdt == 'f8', 'stored wavelength') or \
        vals_equal(body_f, [r[1] for r in rows], single and fdt == 'f8', 'stored flux')
    if r:
        rep.oracle_fail('fits_rt:%s:rows_differ' % flags, r, case, out)
        return
    # header cards, looked up in the file itself
    if not check_headers(rep, case, out, st, 'fits_rt', []):
        return
    # reading back
    rd = out['read']
    uin = [spec_unit_id(us) for us in (case['wunit'], case['funit'])]
    for i, us in enumerate((case['wunit'], case['funit'])):
        if uin[i] is None:
            s = us['s']
            uin[i] = table_names().get(s.lower()) if s.lower() in table_names() else (verdict(s) if verdict(s) is not None else verdict(s.lower()))
    classes = [emitted_class(st['tunit'][i], uin[i]) for i in range(2)]
    if 'err' in rd:
        if rd['err'] == 'ValueError' and 'unparsable' in classes:
            rep.oracle_fail(SIG_UNIT, 'unit written as %r cannot be read back: %s' % (
                st['tunit'][classes.index('unparsable')], rd.get('msg')), case, out)
        else:
            rep.oracle_fail('fits_rt:read_back:%s' % rd['err'], 'reading the written file raised %s: %s' % (
                rd['err'], rd.get('msg')), case, out)
        return
    got = rd['ok']
    if got['wave'] != sw or got['flux'] != sf:
        rep.oracle_fail('fits_rt:read_values_differ_from_stored', 'read_fits_spec does not return the stored values', case, out)
        return
    if [got['wunit'], got['funit']] != uin:
        sig = SIG_UNIT_CHANGED if 'other' in classes else 'fits_rt:units_differ'
        rep.oracle_fail(sig, 'units %r read back as %r' % (uin, [got['wunit'], got['funit']]), case, out)
        return
    last = {}
    for k, v, _ in (case['pri'] or []):
        last[k.upper()] = enc(v)
    for k, v in last.items():
        if got['header'].get(k) != v:
            rep.oracle_fail('fits_rt:returned_header_card_lost', 'card %s=%r is %r in the returned header' % (
                k, v, got['header'].get(k)), case, out)
            return


def oracle_obj_rt(rep, case, out):
    if 'ok' not in (out.get('sampled') or {}):
        return
    s = out['sampled']['ok']
    wr = out['write']
    trim = case['trim'] if case['trim'] is not None else case['cls'] != 'redlaw'
    pad = case['pad'] if case['pad'] is not None else case['cls'] != 'redlaw'
    if case['precision'] is not None:
        single = case['precision'].lower() == 'single'
    else:
        single = s.get('fdt', 'f8') == 'f4'            # native precision of the sampled values
    rows = list(zip(s['wave'], s['flux']))
    if trim:
        rows = [r for r in rows if r[1] != 0]
    if single and s.get('wdt', 'f8') == 'f8':
        keep = thin_reference([r[0] for r in rows], None, EPS_DEFAULT) if rows else []
        rows = [rows[i] for i in keep]
    if pad and len(rows) < 2 or not rows:
        return
    if 'err' in wr:
        rep.oracle_fail('to_fits:%s:%s' % (case['cls'], wr['err']), 'to_fits raised %s: %s' % (wr['err'], wr.get('msg')), case, out)
        return
    st = wr['ok']
    sw, sf = st['cols'][0], st['cols'][1]
    body_w, body_f = (sw[1:-1], sf[1:-1]) if pad else (sw, sf)
    r = vals_equal(body_w, [r[0] for r in rows], single, 'stored wavelength') or \
        vals_equal(body_f, [r[1] for r in rows], single, 'stored value')
    if not r and pad and (sf[0] != 0 or sf[-1] != 0):
        r = 'pad rows are not zero rows'
    if r:
        rep.oracle_fail('to_fits:%s:rows_differ' % case['cls'], r, case, out)
        return
    want_col = {'source': 'FLUX', 'bandpass': 'THROUGHPUT', 'redlaw': 'Av/E(B-V)'}[case['cls']]
    if st['ttype'] != ['WAVELENGTH', want_col]:
        rep.oracle_fail('to_fits:%s:column_names' % case['cls'], 'columns %r' % st['ttype'], case, out)
        return
    if not check_headers(rep, case, out, st, 'to_fits', standard_ext_cards(case)):
        return
    if len(sw) < 2:
        return          # a one-row table is not a spectrum (Empirical1D needs two points): not this property's subject
    rl = out['reload']
    classes = [emitted_class(st['tunit'][0], s['wunit']), emitted_class(st['tunit'][1], s['funit'])]
    if 'err' in rl:
        if rl['err'] == 'ValueError' and 'unparsable' in classes:
            rep.oracle_fail(SIG_UNIT, 'unit written as %r cannot be read back: %s' % (
                st['tunit'][classes.index('unparsable')], rl.get('msg')), case, out)
        else:
            rep.oracle_fail('from_file:%s:%s' % (case['cls'], rl['err']), 'loading the saved %s raised %s: %s' % (
                case['cls'], rl['err'], rl.get('msg')), case, out)
        return
    mag = case['cls'] == 'source' and case['flux_unit'] in ('stmag', 'abmag')
    # The reloaded table is interpolated: at a knot the result is the knot value up to (i) rounding of the value and
    # (ii) the rounding of the knot position (the wavelengths are converted to Angstrom in the table's precision)
    # times the slope towards the neighbouring knots.
    single_tab = st['tform'][0] == 'E'
    rel = 4e-6 if single_tab else 1e-9
    epsw = 2.0 ** -22 if single_tab else 2.0 ** -50
    lin = (lambda m: 10 ** (-0.4 * m)) if mag else (lambda x: x)
    for i, (a, b) in enumerate(zip(rl['ok']['vals'], sf)):
        nb = [lin(x) for x in sf[max(0, i - 1):i + 2]]
        gaps = [abs(sw[k + 1] - sw[k]) for k in (i - 1, i) if 0 <= k < len(sw) - 1]
        pos = epsw * abs(sw[i]) / min(gaps) if gaps and min(gaps) > 0 else 0.0
        a, b = lin(a), lin(b)
        tol = (rel + 4 * pos) * max(abs(x) for x in nb)
        if not abs(a - b) <= tol:
            rep.oracle_fail('from_file:%s:samples_differ' % case['cls'],
                            'reloaded object returns %r at saved wavelength %r, saved value %r' % (a, sw[i], b), case, out)
            return
    last = {}
    for k, v, _ in (case['pri'] or []):
        last[k.upper()] = enc(v)
    for k, v in last.items():
        if rl['ok']['header'].get(k) != v:
            rep.oracle_fail('from_file:%s:header_card_lost' % case['cls'], 'card %s=%r is %r in meta[header]' % (
                k, v, rl['ok']['header'].get(k)), case, out)
            return


def unit_ok(s):
    """does validate_unit (by its own rule) accept this TUNIT string?"""
    return s.lower() in table_names() or verdict(s) is not None or verdict(s.lower()) is not None


def oracle_fits_read(rep, case, out):
    via = case['via']
    if case['kind'] != 'ok':
        if out.get('err') != 'OSError':
            sig = SIG_OPEN if (out.get('err') == 'UnboundLocalError' and case['is_str']) else \
                'read_fits_spec:unopenable:%s' % out.get('err', 'returned')
            rep.oracle_fail(sig, 'a file that cannot be opened (%s) was reported as %s: %s' % (
                case['kind'], out.get('err', 'a value'), out.get('msg')), case, out)
        return
    exts = case['file']['exts']
    sel = 1 if case['ext_sel'] is None else case['ext_sel']
    if isinstance(sel, int):
        idx = sel if sel >= 0 else sel + len(exts) + 1
        hdu = exts[idx - 1] if 1 <= idx <= len(exts) else None
        if idx == 0:
            return
    else:
        hdu = next((e for e in exts if e['extname'] and e['extname'].upper() == sel.upper()), None)
    if hdu is None:
        if out.get('err') not in ('IndexError', 'LookupError'):
            rep.oracle_fail('read_fits_spec:missing_ext:%s' % out.get('err', 'returned'),
                            'a missing extension was reported as %s: %s' % (out.get('err', 'a value'), out.get('msg')), case, out)
        return
    if not all(unit_ok(c['tunit']) for c in hdu['cols'] if c['tunit']):
        return          # an unreadable TUNIT card in the table: astropy's ValueError, not this property's subject
    rw = (case['rwcol'] or 'WAVELENGTH').lower()
    rf = (case['rfcol'] or {'bandpass': 'THROUGHPUT', 'redlaw': 'Av/E(B-V)'}.get(via, 'FLUX')).lower()
    cw = next((c for c in hdu['cols'] if c['name'].lower() == rw), None)
    cf = next((c for c in hdu['cols'] if c['name'].lower() == rf), None)
    if cw is None or cf is None:
        ok = out.get('err') in ('IndexError', 'LookupError') or (
            out.get('err') == 'ValueError' and 'is not in list' in (out.get('msg') or ''))
        if not ok:
            rep.oracle_fail('read_fits_spec:missing_column:%s' % out.get('err', 'returned'),
                            'a missing column was reported as %s: %s' % (out.get('err', 'a value'), out.get('msg')), case, out)
        return
    if via in ('source', 'bandpass', 'redlaw'):
        return          # constructing the object is C03's subject
    if 'err' in out:
        rep.oracle_fail('read_fits_spec:valid_file:%s' % out['err'], 'a readable file with the requested extension and '
                        'columns raised %s: %s' % (out['err'], out.get('msg')), case, out)
        return
    single = hdu['format'] == 'f4'
    want_w = [float(np.float32(float(unq(x)))) if single else float(unq(x)) for x in cw['vals']]
    want_f = [float(np.float32(float(unq(x)))) if single else float(unq(x)) for x in cf['vals']]
    if out['ok']['wave'] != want_w or out['ok']['flux'] != want_f:
        rep.oracle_fail('read_fits_spec:wrong_column_values', 'the values returned are not those of the requested columns', case, out)
        return
    for got, c in ((out['ok']['wunit'], cw), (out['ok']['funit'], cf)):
        t = c['tunit']
        want = '' if not t else (table_names()[t.lower()] if t.lower() in table_names() else
                                 (verdict(t) if verdict(t) is not None else verdict(t.lower())))
        if got != want:
            rep.oracle_fail('read_fits_spec:unit_differs', 'TUNIT %r read as %r, validate_unit gives %r' % (t, got, want), case, out)
            return
    for k, v in case['file']['pri']:
        if out['ok']['header'].get(k.upper()) != enc(v):
            rep.oracle_fail('read_fits_spec:primary_header_lost', 'primary card %s missing from the returned header' % k, case, out)
            return


def oracle_ascii(rep, case, out):
    if case['lines'] is None:
        if out.get('err') != 'OSError':
            rep.oracle_fail('read_ascii_spec:unopenable:%s' % out.get('err', 'returned'),
                            'a missing ASCII file was reported as %s' % out.get('err', 'a value'), case, out)
        return
    rows = [ln['f'] for ln in case['lines'] if isinstance(ln, dict)]
    if not rows or len({len(r) for r in rows}) != 1:
        return
    ncol = len(rows[0])
    for us in (case['wunit'], case['funit']):
        if us is not None and (us['kind'] == 'kw_other' or (us['kind'] == 'kw_str' and not unit_ok(us['s']))):
            return
    if ncol < 2:
        if out.get('err') not in ('IndexError', 'LookupError'):
            rep.oracle_fail('read_ascii_spec:one_column:%s' % out.get('err', 'returned'),
                            'a table without a second column was reported as %s' % out.get('err', 'a value'), case, out)
        return
    if case['via'] == 'source':
        if 'err' in out:
            return          # object construction (sorted, positive wavelengths) is not this property's subject
        want = sorted(float(unq(r[0])) for r in rows)
        if 'points' in out['ok'] and sorted(out['ok']['points']) != want and case['wunit'] is None:
            rep.oracle_fail('from_file:ascii:wrong_wavelengths', 'object built from an ASCII file has other wavelengths', case, out)
        return
    if 'err' in out:
        rep.oracle_fail('read_ascii_spec:valid_table:%s' % out['err'], 'a valid ASCII table raised %s: %s' % (
            out['err'], out.get('msg')), case, out)
        return
    o = out['ok']
    if o['wave'] != [float(unq(r[0])) for r in rows] or o['flux'] != [float(unq(r[1])) for r in rows]:
        rep.oracle_fail('read_ascii_spec:wrong_columns', 'first/second column are not returned as wavelength/flux', case, out)
        return
    if o['wdtype'] != 'd' or o['fdtype'] != 'd':
        rep.oracle_fail('read_ascii_spec:not_float64', 'values are not float64', case, out)
        return
    want = []
    for us, dflt in ((case['wunit'], 'Angstrom'), (case['funit'], 'FLAM')):
        if us is None:
            want.append(dflt)
        elif us['kind'] == 'kw_str':
            s = us['s']
            want.append(table_names()[s.lower()] if s.lower() in table_names() else
                        (verdict(s) if verdict(s) is not None else verdict(s.lower())))
        else:
            want.append(unit_id(us['name']))
    if [o['wunit'], o['funit']] != want:
        rep.oracle_fail('read_ascii_spec:units', 'units %r, expected %r' % ([o['wunit'], o['funit']], want), case, out)
        return
    if o['header'] != {}:
        rep.oracle_fail('read_ascii_spec:header_not_empty', 'header is %r' % o['header'], case, out)


STATED = [('photlam', 'PHOTLAM'), ('photnu', 'PHOTNU'), ('flam', 'FLAM'), ('fnu', 'FNU'), ('jy', 'Jy'),
          ('stmag', 'mag(ST)'), ('abmag', 'mag(AB)'), ('obmag', 'mag(OB)'), ('vegamag', 'mag(VEGA)'),
          ('angstroms', 'Angstrom'), ('inversemicrons', '1 / micron'), ('transmission', ''),
          ('extinction', ''), ('emissivity', '')]


def oracle_unit_name(rep, case, out):
    want = dict(STATED).get(case['name'].lower())
    if want is not None and out.get('ok') != want:
        rep.oracle_fail('unit_name:%s' % case['name'].lower(), 'unit name %r resolves to %r, expected %r' % (
            case['name'], out.get('ok', out.get('err')), want), case, out)


def oracle(rep, case, out):
    op = case['op']
    if op == 'fits_rt':
        oracle_fits_rt(rep, case, out)
    elif op == 'obj_rt':
        oracle_obj_rt(rep, case, out)
    elif op == 'fits_read':
        oracle_fits_read(rep, case, out)
    elif op == 'ascii':
        oracle_ascii(rep, case, out)
    elif op == 'unit_name':
        oracle_unit_name(rep, case, out)


# ---------------------------------------------------------------------------------- generators
KEYS = ['OBSERVER', 'instrume', 'Detector', 'exptime', 'MJD-OBS', 'key_1', 'A', 'zz9', 'Object', 'airmass',
        'GAIN', 'ra_targ', 'dec-targ', 'pedigree', 'descrip', 'useafter']


def gen_header(rng, allow_override=False):
    if rng.random() < 0.25:
        return None
    n = rng.choice([0, 1, 1, 2, 3, 5])
    keys = rng.sample(KEYS, n)
    if n and rng.random() < 0.05:
        keys.append(keys[0].swapcase())        # same keyword twice in another letter case: the later one wins
    if allow_override and rng.random() < 0.05:
        keys.append(rng.choice(['filename', 'ORIGIN']))
    out = []
    for k in keys:
        r = rng.random()
        if r < 0.4:
            v = rng.choice(['synphot test', 'HST', 'x', 'Ab cD', 'a-b_c', 'v1.0 (beta)', 'it''s'])
        elif r < 0.65:
            v = rng.randint(-1000, 100000)
        elif r < 0.9:
            v = rng.randint(-8000, 8000) / 8.0
        else:
            v = rng.random() < 0.5
        out.append((k, v, 'a comment' if rng.random() < 0.15 else ''))
    return out


def gen_waves(rng, n, unit, f4, thin_stream=False, eps=None):
    """strictly monotone positive values k * 2**e on a dyadic lattice (exact in the array's dtype)"""
    e = WAVE_UNITS.get(unit, -4)
    if thin_stream:
        # spacings around epsilon: multiples of 2**-16 (eps = 0.00032 lies between 20 and 21 of them)
        base = rng.randint(900, 9000) * 2 ** 16
        ks = [base]
        for _ in range(n - 1):
            r = rng.random()
            if eps is not None and r < 0.25:
                step = int(unq(eps) * 2 ** 16)                     # exactly on the threshold (dyadic eps)
            elif r < 0.7:
                step = rng.randint(1, 45)
            else:
                step = rng.randint(46, 2 ** 20)
            ks.append(ks[-1] + max(1, step))
        vals = [F(k, 2 ** 16) for k in ks]
    else:
        hi = 2 ** 12 if f4 else 2 ** 19
        lo = 2 ** 8
        ks = sorted(rng.sample(range(lo, hi), n))
        vals = [F(k) * F(2) ** e for k in ks]
    if rng.random() < 0.25:
        vals = vals[::-1]
    return vals


def gen_flux(rng, n, kind, code, pzero):
    out = []
    for _ in range(n):
        if rng.random() < pzero:
            out.append(0.0)
            continue
        if kind == 'mag':
            v = round(rng.uniform(-30, 30) * 64) / 64
        elif kind == 'thru':
            v = rng.random()
        elif kind == 'pos':
            v = 10 ** rng.uniform(-3, 8)
        else:
            v = 10 ** rng.uniform(-30, 30) * (-1 if rng.random() < 0.08 else 1)
        if code == 'f4':
            v = float(np.float32(v))
        elif code == 'i8':
            v = float(int(v) % 1000)
        out.append(v)
    return out


COLS = [(None, None), (None, None), ('Wave', 'Flux'), ('lambda', 'THROUGHPUT'), ('WAVELENGTH', 'Av/E(B-V)'), ('w', 'f'),
        ('Wavelength', 'flux')]


def recase(rng, s):
    return rng.choice([s, s.upper(), s.lower(), s.swapcase(), s.title()])


def gen_unit_spec(rng, which, quantity_only=False, name=None):
    """(unit description, value kind, wave exponent key)"""
    common, rare, strs = (WAVE_COMMON, WAVE_RARE, WAVE_STRS) if which == 'w' else (FLUX_COMMON, [k for k in FLUX_UNITS if '/' in k], FLUX_STRS)
    r = rng.random()
    if name is not None or quantity_only or r < 0.6:
        nm = name or (rng.choice(rare) if rng.random() < 0.06 else rng.choice(common))
        return {'kind': 'quantity', 'name': nm}
    if r < 0.72:
        return {'kind': 'kw_unit', 'name': rng.choice(common)}
    if r < 0.985:
        return {'kind': 'kw_str', 's': rng.choice(strs)}
    return {'kind': 'kw_other'}


def flux_kind_of(us):
    if us['kind'] in ('quantity', 'kw_unit'):
        return FLUX_UNITS[us['name']]
    s = us.get('s', '').lower()
    if 'mag' in s:
        return 'mag'
    if s in ('transmission', 'extinction', 'emissivity', 'throughput', 'none'):
        return 'thru'
    if s in ('count', 'ct'):
        return 'pos'
    return 'lin'


def wave_key_of(us):
    if us['kind'] in ('quantity', 'kw_unit'):
        return us['name']
    return {'nm': 'nm', 'micron': 'micron', 'hz': 'Hz', 'cm': 'cm', 'inversemicrons': 'micron-1'}.get(us.get('s', '').lower(), 'AA')


def gen_laps(rng, p, obj=False):
    """options of laps 2..n (the data are whatever the previous lap's read returned)"""
    if rng.random() >= p:
        return []
    laps = []
    for _ in range(rng.choice([1, 1, 2])):
        lap = {'precision': rng.choice([None, None, 'single', 'double']), 'trim': rng.choice([None, False, False, True]),
               'pad': rng.choice([None, False, False, True]), 'feed': rng.choice(['quantity', 'quantity', 'arrays'])}
        if obj:
            lap['flux_unit'] = rng.choice([None, None, 'flam', 'fnu'])
        laps.append(lap)
    return laps


def make_fits_rt(rng, nid, nmax, wname=None, fname=None, flags=None, stream=None):
    wus = gen_unit_spec(rng, 'w', name=wname)
    fus = gen_unit_spec(rng, 'f', name=fname)
    wdt = rng.choice(['f8', 'f8', 'f4'])
    fdt = rng.choice(['f8', 'f8', 'f4'])
    r = rng.random()
    if r < 0.02:
        wdt = rng.choice(['i8', 'f2'])
    elif r < 0.04:
        fdt = 'i8'
    precision = rng.choice([None, None, 'single', 'double', 'double'])
    if precision and rng.random() < 0.15:
        precision = recase(rng, precision)
    if rng.random() < 0.015:
        precision = rng.choice(['half', 'float', ''])
    if flags is None:
        trim = rng.choice([None, True, False, False])
        pad = rng.choice([None, True, False, False])
    else:
        trim, pad = flags
    eps = None
    thin_stream = stream == 'thin'
    if thin_stream:
        wdt = 'f8'
        if rng.random() < 0.5:
            precision = 'single'
        else:
            precision, fdt = None, 'f4'
        if rng.random() < 0.4:
            eps = q(F(rng.choice([1, 8, 21, 32, 64]), 2 ** 16))
        if wus['kind'] != 'kw_str':
            wus = {'kind': wus['kind'] if wus['kind'] != 'kw_other' else 'quantity', 'name': 'AA'}
    n = rng.randint(2, nmax)
    waves = gen_waves(rng, n, wave_key_of(wus), wdt != 'f8', thin_stream, eps)
    pzero = rng.choice([0.0, 0.1, 0.3, 0.6, 0.9])
    flux = gen_flux(rng, n, flux_kind_of(fus), fdt, pzero)
    if rng.random() < 0.2:
        flux[0] = 0.0
    if rng.random() < 0.2:
        flux[-1] = 0.0
    if wdt == 'f4':
        waves = [F(float(np.float32(float(v)))) for v in waves]
    elif wdt in ('i8', 'f2'):
        ks = sorted(rng.sample(range(2, 2000), n), reverse=waves[0] > waves[-1])
        waves = [F(k) for k in ks]
    if rng.random() < 0.02 and n > 2:
        flux = flux[:-1]                                   # shape mismatch
    wcol, fcol = rng.choice(COLS)
    rw = recase(rng, wcol) if wcol and rng.random() < 0.8 else (wcol if wcol else (recase(rng, 'WAVELENGTH') if rng.random() < 0.3 else None))
    rf = recase(rng, fcol) if fcol and rng.random() < 0.8 else (fcol if fcol else (recase(rng, 'FLUX') if rng.random() < 0.3 else None))
    layout = [rng.choice(LAYOUTS) if rng.random() < 0.45 else 'native' for _ in range(2)]
    return {'op': 'fits_rt', 'id': nid, 'laps': gen_laps(rng, 0.45), 'layout': layout, 'wunit': wus, 'funit': fus, 'wdt': wdt, 'fdt': fdt,
            'wave': qs(waves), 'flux': qs(flux), 'precision': precision, 'trim': trim, 'pad': pad, 'eps': eps,
            'pri': gen_header(rng, True), 'ext': gen_header(rng), 'wcol': wcol, 'fcol': fcol, 'rwcol': rw, 'rfcol': rf,
            'via': rng.choice(['read_fits_spec', 'read_fits_spec', 'read_spec'])}


def make_obj_rt(rng, nid, nmax):
    cls = rng.choice(['source', 'source', 'bandpass', 'redlaw'])
    n = rng.randint(2, nmax)
    ks = sorted(rng.sample(range(2 ** 8, 2 ** 15), n))
    pts = [F(k, 2) for k in ks]                                    # 128 .. 16384 Angstrom, half-Angstrom lattice
    flux_unit = None
    pz = rng.choice([0.0, 0.15, 0.4])
    if cls == 'source':
        flux_unit = rng.choice([None, None, 'flam', 'fnu', 'photnu', 'jy', 'stmag', 'abmag', 'mjy', 'FLAM'])
        if flux_unit in ('stmag', 'abmag'):
            pz = 0.0
        vals = [0.0 if rng.random() < pz else 10 ** rng.uniform(-6, 4) for _ in range(n)]
    elif cls == 'bandpass':
        vals = [0.0 if rng.random() < pz else rng.random() for _ in range(n)]
    else:
        vals = [0.0 if rng.random() < pz / 3 else rng.uniform(0.5, 12) for _ in range(n)]
    wl = wl_unit = None
    if rng.random() < 0.35:
        m = rng.randint(2, nmax)
        lo, hi = float(pts[0]), float(pts[-1])
        inside = sorted({round(rng.uniform(lo, hi) * 4) / 4 for _ in range(m)})
        if len(inside) >= 2:
            wl_unit = rng.choice([None, 'AA', 'nm', 'micron'])
            fac = {None: 1, 'AA': 1, 'nm': 10, 'micron': 10000}[wl_unit]
            wl = [F(x) / fac for x in inside]
            wl = qs([float(x) for x in wl])
    meta = None
    r = rng.random()
    if r < 0.4:
        meta = {'expr': rng.choice(['bb(5000)', 'em(1000, 20, 1e-12, flam)', 'ebv(earlier law)', 'band(v)',
                                    'rn(bb(3000), band(b), 18, abmag)', 'x'])}
        if rng.random() < 0.3:
            meta['note'] = 'some other metadata'
    elif r < 0.55:
        meta = {'note': 'no expression here', 'warnings': {}}
    ext = gen_header(rng)
    if (meta is None or 'expr' not in meta or rng.random() < 0.2) and rng.random() < 0.3:
        ext = list(ext or []) + [(rng.choice(['expr', 'EXPR', 'Expr']), rng.choice(['caller card', 'my own expression']), '')]
    return {'op': 'obj_rt', 'id': nid, 'cls': cls, 'pts': qs(pts), 'vals': qs(vals), 'flux_unit': flux_unit,
            'wl': wl, 'wl_unit': wl_unit, 'trim': rng.choice([None, None, True, False]),
            'pad': rng.choice([None, None, True, False]), 'precision': rng.choice([None, None, 'single', 'double']),
            'pri': gen_header(rng), 'ext': ext, 'meta': meta, 'laps': gen_laps(rng, 0.5, obj=True),
            'wl_layout': rng.choice(LAYOUTS[:6])}


TUNITS = ['angstroms', 'ANGSTROMS', 'Angstrom', 'ANGSTROM', 'nm', 'NM', 'micron', 'MICRON', 'Hz', 'HZ', 'flam', 'FLAM',
          'photlam', 'PHOTLAM', 'FNU', 'photnu', 'count', 'COUNT', 'ct', 'transmission', 'EXTINCTION', 'emissivity', 'none',
          None, None, 'mag(st)', 'MAG(AB)', 'ABMAG', 'stmag', 'obmag', 'MAG(VEGA)', 'JY', 'Jy', 'mJy', 'MJy', 'MJY', 'sec', 'bogusunit',
          'INVERSEMICRONS', '1 / MICRON', 'CM']
COLNAMES = ['WAVELENGTH', 'wavelength', 'Wavelength', 'Wave', 'FLUX', 'Flux', 'flux', 'THROUGHPUT', 'Throughput',
            'Av/E(B-V)', 'ERROR', 'dq', 'lambda']


def make_fits_read(rng, nid, nmax):
    kind = 'ok'
    r = rng.random()
    if r < 0.12:
        kind = rng.choice(['missing', 'missing', 'dir', 'empty', 'garbage'])
    is_str = True
    via = rng.choice(['read_fits_spec', 'read_fits_spec', 'read_fits_spec', 'read_spec'])
    if kind in ('empty', 'garbage', 'ok') and via == 'read_fits_spec' and rng.random() < 0.15:
        is_str = False
    if kind == 'missing' and rng.random() < 0.4:
        via = rng.choice(['source', 'bandpass', 'redlaw', 'read_spec'])
    file = {'pri': [], 'exts': []}
    ext_sel = None
    rwcol = rfcol = None
    if kind == 'ok':
        file['pri'] = [(k, v) for k, v, _ in (gen_header(rng) or [])]
        seen = set()
        file['pri'] = [(k, v) for k, v in file['pri'] if not (k.upper() in seen or seen.add(k.upper()))]
        nx = rng.choice([1, 1, 2, 3])
        names = rng.sample(['SCI', 'spec', 'Table', 'ERR'], nx)
        for i in range(nx):
            n = rng.randint(2, nmax)
            ncol = rng.choice([2, 2, 3, 4])
            pool = COLNAMES[:]
            rng.shuffle(pool)
            cn, low = [], set()
            # usually make sure a wavelength and a flux column exist
            want = []
            if rng.random() < 0.85:
                want = [rng.choice(['WAVELENGTH', 'wavelength', 'Wavelength']), rng.choice(['FLUX', 'Flux', 'flux'])]
                rng.shuffle(want)
            for c in want + pool:
                if c.lower() not in low and len(cn) < ncol:
                    cn.append(c)
                    low.add(c.lower())
            rng.shuffle(cn)
            fmt = rng.choice(['f8', 'f8', 'f4'])
            cols = []
            for c in cn:
                vals = [rng.randint(1, 2 ** 14) / 8.0 for _ in range(n)]
                t = rng.choice(TUNITS)
                if t == 'bogusunit' and rng.random() < 0.7:
                    t = None
                cols.append({'name': c, 'tunit': t, 'vals': qs(vals)})
            file['exts'].append({'extname': names[i] if rng.random() < 0.7 else '', 'format': fmt, 'cols': cols})
        r = rng.random()
        if r < 0.5:
            ext_sel = None
        elif r < 0.7:
            ext_sel = rng.randint(1, nx)
        elif r < 0.8:
            ext_sel = rng.choice([nx + 1, nx + 3, 7])
        elif r < 0.85:
            ext_sel = -rng.randint(1, nx)
        else:
            ext_sel = rng.choice([recase(rng, e['extname']) for e in file['exts'] if e['extname']] + ['NOPE', 'sci2'])
        r = rng.random()
        if r < 0.35:
            pass
        elif r < 0.8:
            e0 = file['exts'][0]
            rwcol = recase(rng, rng.choice(e0['cols'])['name'])
            rfcol = recase(rng, rng.choice(e0['cols'])['name'])
        else:
            rwcol = rng.choice([None, 'nosuchcol', 'WAVE_LENGTH'])
            rfcol = rng.choice([None, 'nosuchcol', 'FLUXX'])
    return {'op': 'fits_read', 'id': nid, 'laps': gen_laps(rng, 0.4) if via in ('read_fits_spec', 'read_spec') else [],
            'kind': kind, 'is_str': is_str, 'via': via, 'file': file,
            'ext_sel': ext_sel, 'rwcol': rwcol, 'rfcol': rfcol}


def make_ascii(rng, nid, nmax):
    if rng.random() < 0.06:
        return {'op': 'ascii', 'id': nid, 'lines': None, 'suffix': rng.choice(['.txt', '.dat']), 'wunit': None,
                'funit': None, 'via': rng.choice(['read_ascii_spec', 'read_spec', 'source'])}
    n = rng.randint(1, nmax)
    ncol = rng.choice([2, 2, 2, 3, 4, 5, 1])
    sep = rng.choice([' ', '  ', '\t', '   '])
    lines = []
    w = 100.0
    for i in range(n):
        if rng.random() < 0.2:
            lines.append(rng.choice(['# a comment', '#', '# 1.0 2.0 3.0', '#comment without space', '  # indented comment']))
        if rng.random() < 0.05:
            lines.append('b')
        w += rng.randint(1, 4000) / 8.0
        f = [w] + [rng.choice([0.0, 10 ** rng.uniform(-20, 5), rng.randint(0, 9) * 1.0]) for _ in range(ncol - 1)]
        ln = {'f': qs(f), 'sep': sep}
        lines.append(ln)
    if rng.random() < 0.5:
        lines.insert(0, '# wavelength flux')
    if rng.random() < 0.2:
        lines.append('# end')
    wus = fus = None
    if rng.random() < 0.4:
        wus = gen_unit_spec(rng, 'w')
        if wus['kind'] == 'quantity':
            wus['kind'] = 'kw_unit'
    if rng.random() < 0.4:
        fus = gen_unit_spec(rng, 'f')
        if fus['kind'] == 'quantity':
            fus['kind'] = 'kw_unit'
    via = rng.choice(['read_ascii_spec', 'read_ascii_spec', 'read_spec', 'source'])
    return {'op': 'ascii', 'id': nid, 'laps': gen_laps(rng, 0.4) if via != 'source' else [], 'lines': lines,
            'suffix': rng.choice(['.txt', '.dat', '.tab', '']),
            'wunit': wus, 'funit': fus, 'via': via}


def casings(rng, s):
    out = {s, s.upper(), s.capitalize(), s.swapcase(), s.title()}
    out.add(''.join(ch.upper() if rng.random() < 0.5 else ch for ch in s))
    return sorted(out)


def gen_unit_names(rng):
    names = sorted(set(table_names()) | {n for n, _ in STATED})
    for n in names:
        for s in casings(rng, n):
            yield {'op': 'unit_name', 'name': s}
    for s in ['Hz', 'hz', 'HZ', 'nm', 'NM', 'mJy', 'MJY', 'mjy', 'Angstrom', 'ANGSTROM', 'angstrom', 'bogusunit', 'ct',
              'COUNT', 'micron', 'MICRON', 'THz', 'thz']:
        yield {'op': 'unit_name', 'name': s}


def generate(rep, rng, thorough, scale=1.0):
    nmax = 200 if thorough else 50
    cases = []
    nid = [0]

    def next_id():
        nid[0] += 1
        return nid[0]
    # every wavelength unit x every flux unit, flags off, as quantities (exhaustive part)
    for wn in WAVE_COMMON + WAVE_RARE:
        for fn in FLUX_UNITS:
            if thorough or wn in ('AA', 'nm', 'Hz', 'micron-1') or fn in ('FLAM', 'dimensionless', 'STmag') \
                    or rng.random() < 0.35:
                cases.append(make_fits_rt(rng, next_id(), 12, wn, fn, (False, False)))
    nrt = int((20000 if thorough else 700) * scale)
    for _ in range(nrt):
        cases.append(make_fits_rt(rng, next_id(), nmax if rng.random() < 0.1 else 50))
    for _ in range(int((2500 if thorough else 120) * scale)):
        cases.append(make_fits_rt(rng, next_id(), 30, stream='thin'))
    for _ in range(int((1500 if thorough else 80) * scale)):
        cases.append(make_fits_rt(rng, next_id(), 50, flags=(None, None)))
    for _ in range(int((2500 if thorough else 140) * scale)):
        cases.append(make_obj_rt(rng, next_id(), 50))
    for _ in range(int((3500 if thorough else 260) * scale)):
        cases.append(make_fits_read(rng, next_id(), 20))
    for _ in range(int((2000 if thorough else 150) * scale)):
        cases.append(make_ascii(rng, next_id(), 40))
    names = list(gen_unit_names(rng))
    # dedicated histories: something that could be left behind by an earlier save, then a request that would show it
    dedicated = []
    for _ in range(int((400 if thorough else 40) * scale)):
        first = make_obj_rt(rng, next_id(), 12)
        first['meta'] = {'expr': rng.choice(['bb(5000)', 'ebv(earlier law)', 'band(v)'])}
        steps = [first]
        for _ in range(rng.randint(1, 3)):
            nxt = make_obj_rt(rng, next_id(), 12)
            if rng.random() < 0.7:
                nxt['meta'] = rng.choice([None, {'note': 'no expression here'}])
                nxt['ext'] = rng.choice([None, [], [('EXPR', 'caller card', ''), ('SPEC_SRC', 'RANDOM', '')],
                                         [('key_1', 7, '')]])
            steps.append(nxt)
        dedicated.append(steps)
    twins = [('f', 'mJy', 'MJy'), ('f', 'MJy', 'mJy'), ('w', 'Mm', 'mm'), ('w', 'mm', 'Mm'), ('w', 'MHz', 'mHz'),
             ('w', 'mHz', 'MHz'), ('f', 'Jy', 'mJy'), ('f', 'kJy', 'nJy')]
    for _ in range(int((400 if thorough else 40) * scale)):
        which, a, b = rng.choice(twins)
        steps = []
        for name in (a, b) + ((a,) if rng.random() < 0.3 else ()):
            if rng.random() < 0.75:
                steps.append(make_fits_rt(rng, next_id(), 8, name if which == 'w' else None,
                                          name if which == 'f' else None, (False, False)))
            else:       # the same unit string arriving through a TUNIT card or a unit keyword
                c = make_fits_read(rng, next_id(), 6)
                if c['kind'] == 'ok':
                    for e in c['file']['exts']:
                        e['cols'][0]['tunit'] = unit_id(name)
                steps.append(c)
        dedicated.append(steps)
    # everything else: shuffled and cut into histories of 1..4 consecutive requests (every step is measured)
    rng.shuffle(cases)
    hists = []
    i = 0
    while i < len(cases):
        k = rng.choice([1, 2, 2, 3, 3, 4])
        hists.append(cases[i:i + k])
        i += k
    for i in range(0, len(names), 6):
        hists.append(names[i:i + 6])
    hists += dedicated
    return [{'op': 'history', 'id': next_id(), 'steps': st} for st in hists]


# ---------------------------------------------------------------------------------- driver of the check
def tags(case, out):
    op = case['op']
    t = [op]
    if op == 'fits_rt':
        w = out.get('write') or {}
        t.append('write:' + (w.get('err') or 'ok'))
        if out.get('read') is not None:
            t.append('read:' + (out['read'].get('err') or 'ok'))
        t.append('flags:trim=%s,pad=%s' % (case['trim'], case['pad']))
        t.append('dtype:%s/%s,precision=%s' % (case['wdt'], case['fdt'], (case['precision'] or 'None').lower()))
        t.append('wunit:' + (case['wunit'].get('name') or case['wunit'].get('id') or case['wunit']['kind']))
        t.append('funit:' + (case['funit'].get('name') or case['funit'].get('id') or case['funit']['kind']))
        t.append('lap:%d' % case.get('_lap', 1))
        if case.get('layout') and not case.get('_lap'):
            t.append('layout:%s' % case['layout'][0])
            t.append('layout:%s' % case['layout'][1])
    elif op == 'obj_rt':
        t.append('obj:%s' % case['cls'])
        t.append('objlap:%d' % case.get('_lap', 1))
        t.append('reload:' + ((out.get('reload') or {}).get('err') or ('ok' if out.get('reload') else 'n/a')))
    elif op == 'fits_read':
        t.append('file:%s,%s' % (case['kind'], 'name' if case['is_str'] else 'fileobj'))
        t.append('read:' + (out.get('err') or 'ok'))
    elif op == 'ascii':
        t.append('ascii:' + (out.get('err') or 'ok'))
    return t


def nontrivial(case, out):
    op = case['op']
    if op == 'fits_rt':
        return 'ok' in (out.get('write') or {})
    if op == 'obj_rt':
        return 'ok' in (out.get('write') or {})
    return True


class _StepReport:
    """what an oracle sees while it judges step k of a history: a failure is recorded with the history up to
    and including that step as its case, so that the replay reproduces the state the step ran in"""

    def __init__(self, rep, hist, k, lap=None):
        self.rep, self.hist, self.k, self.lap = rep, hist, k, lap

    def where(self):
        n = self.k + 1
        t = 'step %d of a %d-step history: ' % (n, n) if n > 1 else ''
        if self.lap:
            t += 'lap %d (what the previous lap read back is written again): ' % self.lap
        return t

    def prefix(self):
        return {'op': 'history', 'id': self.hist['id'], 'steps': self.hist['steps'][:self.k + 1]}

    def oracle_fail(self, sig, msg, case, impl=None):
        self.rep.oracle_fail(sig, self.where() + msg, self.prefix(), impl)


def as_history(case):
    if case.get('op') == 'history':
        return case
    return {'op': 'history', 'id': case.get('id', 0), 'steps': [case]}


def process(rep, cases, with_model=True):
    """implementation (fork pool; every history in a fresh child), model (Lean driver, one pure line per step),
    comparison, property oracle on every step"""
    hists = [as_history(c) for c in cases]
    impl = core.pmap(impl_call, hists)
    flat = []           # (history index, step index, step case, step outcome)
    for hi, (h, o) in enumerate(zip(hists, impl)):
        for k, (c, so) in enumerate(zip(h['steps'], o['steps'])):
            flat.append((hi, k, c, so))
            if c['op'] == 'obj_rt':
                derived = obj_lap_steps(c, so)
            elif c['op'] in ('fits_rt', 'fits_read', 'ascii') and isinstance(so, dict):
                derived = lap_steps(c, so)
            else:
                derived = []
            for dc, do in derived:         # later laps of the same step: requests of their own
                flat.append((hi, k, dc, do))
    model = [None] * len(flat)
    if with_model:
        mcases, midx = [], []
        for i, (hi, k, c, o) in enumerate(flat):
            mc = obj_model_case(c, o) if c['op'] == 'obj_rt' else model_case(c)
            if mc is not None:
                mcases.append(mc)
                midx.append(i)
        for i, m in zip(midx, core.run_model(mcases)):
            model[i] = m
    for (hi, k, c, o), m in zip(flat, model):
        h = hists[hi]
        sr = _StepReport(rep, h, k, c.get('_lap'))
        rep.count(c, nontrivial=nontrivial(c, o), tags=tags(c, o) + ['history:step%d' % (k + 1)])
        if m is not None:
            r = compare(c, o, m)
            if r:
                rep.mismatch(c['op'], sr.where() + r, sr.prefix(), o, m)
        oracle(sr, c, o)
    return impl, model


def with_scratch(fn):
    global SCRATCH
    SCRATCH = tempfile.mkdtemp(prefix='verif_c14_', dir='/tmp')
    try:
        return fn()
    finally:
        shutil.rmtree(SCRATCH, ignore_errors=True)
        SCRATCH = None


def run(rep):
    thorough = rep.tier == 'thorough'
    rng = rep.rng('c14')
    cases = core.load_corpus('C14')
    for i, c in enumerate(cases):
        c.setdefault('id', 9000000 + i)
    cases += generate(rep, rng, thorough)
    rep.rule = ('real files in a scratch directory: write_fits_spec -> astropy.io.fits inspection -> read_fits_spec/read_spec for '
                'every wavelength unit x every flux unit (flags off, exhaustive in the thorough tier) and random unit '
                '(quantity / keyword unit / keyword string in several casings / invalid) x float32|float64|int arrays x '
                'precision None|single|double|invalid x trim/pad flags (explicit and default) x 2..50 (200) rows on a dyadic '
                'lattice, both orders, zeros anywhere x header dictionaries x column names; a stream with spacings around epsilon '
                '(incl. exactly on it); to_fits/from_file of SourceSpectrum, SpectralElement, ReddeningLaw; hand-built FITS '
                'files (1-3 extensions, 2-4 columns, legacy TUNIT strings) read with every kind of ext / column request; '
                'unopenable paths (missing, directory, empty, garbage; file name or file object); ASCII tables with comments, '
                'blank lines and extra columns; every name of the validate_unit table in six casings. '
                'All requests run as histories of 1-4 consecutive requests in one freshly forked process (every step measured, '
                'model = pure function of the step); dedicated histories: objects with an expr metadata entry followed by '
                'objects without (with and without caller EXPR / ext_header cards), and units differing only in letter case '
                '(mJy/MJy, Mm/mm, MHz/mHz) in consecutive files; headers must hold exactly the caller\'s plus the standard cards. '
                'Non-trivial: the write succeeded (for reads and ASCII: every case).')
    with_scratch(lambda: process(rep, cases))
    # keep the evidence small: collapse the per-unit tags into counts
    d = rep.dist
    for pre in ('wunit:', 'funit:', 'dtype:'):
        ks = [k for k in d if k.startswith(pre)]
        rep.extra[pre.rstrip(':') + '_classes_exercised'] = len(ks)
        for k in ks:
            del d[k]
    rep.extra['histories'] = len(cases)
    rep.extra['files_written'] = sum(1 for c in cases for st in as_history(c)['steps'] if st['op'] != 'unit_name')


def search(rep, mismatches):
    """directed search after a model/implementation disagreement: a larger budget of the oracles on the ops involved"""
    sub = core.Report(rep.pid, 'thorough', rep.seed + 1)
    rng = sub.rng('c14-search')
    cases = generate(sub, rng, False, scale=3.0)
    with_scratch(lambda: process(sub, cases, with_model=False))
    rep.notes.append('directed search after mismatch: %d cases, %d oracle failures' % (len(cases), len(sub.oracle_failures)))
    return sub.oracle_failures


def table_search(rep):
    """the generated name table no longer satisfies its theorem: look for the name that breaks the property"""
    rng = rep.rng('c14-table')
    for n, want in STATED:
        for s in casings(rng, n):
            c = {'op': 'unit_name', 'name': s}
            oracle_unit_name(rep, c, impl_unit_name(c))


def replay(rep, payload):
    case = payload['case']
    cases = [case] if isinstance(case, dict) else case
    for c in cases:
        for i, st in enumerate(as_history(c)['steps']):
            st.setdefault('id', 9100000 + i)
    with_scratch(lambda: process(rep, cases))
