/-
  Synphot.Lemmas.C10x — helper lemmas for the deepened C10 (normalisation) theorems:
  the magnitude factor in closed form, spectra flat in a linear flux-density unit, the conversion
  of a FLAM effective stimulus at the pivot wavelength, the decomposition of `normalizeFactor`
  into admission and scalar computation, and the behaviour of sampling / integration / count
  conversion under a scalar multiple of the source.
-/
import Synphot.Lemmas.ObsPhot
import Synphot.Lemmas.Trapz
import Synphot.Lemmas.Units
import Synphot.Lemmas.Spectrum

set_option linter.unusedSectionVars false
set_option linter.unusedVariables false
set_option linter.unusedSimpArgs false

namespace Synphot.C10x
open Synphot
variable {K : Type} [Field K] [LinearOrder K] [IsStrictOrderedRing K]

/-! ### 1. the magnitude factor -/

theorem pow10_neg {T : Transc K} (hT : T.Lawful) (x : K) : T.pow10 (-x) = (T.pow10 x)⁻¹ := by
  have h : T.pow10 (-x) * T.pow10 x = 1 := by
    rw [← hT.pow10_add]; simp [hT.pow10_zero]
  exact eq_inv_of_mul_eq_one_left h

/-- the factor of the magnitude branch in closed form: `10^(−0.4 (m + 2.5 log₁₀ q)) = 10^(−0.4 m) / q` -/
theorem magFactor_eq {T : Transc K} (hT : T.Lawful) (m q : K) (hq : 0 < q) :
    T.pow10 (-(2/5) * (m + (5/2) * T.log10 q)) = ofMag T m / q := by
  have e : -(2/5 : K) * (m + (5/2) * T.log10 q) = -(2/5) * m + -(T.log10 q) := by ring
  rw [e, hT.pow10_add, pow10_neg hT, hT.pow10_log10 q hq]
  exact (div_eq_mul_inv _ _).symm

/-- the scalar `normalize` multiplies the spectrum by: magnitude branch for the four magnitude
units, linear branch otherwise (`total` = band integral of the source, `std` = of the standard) -/
def factorValue (T : Transc K) (u : FluxUnit K) (target total std : K) : K :=
  if u.isMag then T.pow10 (-(2/5) * (target + (5/2) * T.log10 (total / std)))
  else target * (std / total)

theorem factorValue_mag {T : Transc K} (hT : T.Lawful) (u : FluxUnit K) (hu : u.isMag = true)
    (target total std : K) (ht : 0 < total) (hs : 0 < std) :
    factorValue T u target total std = ofMag T target * (std / total) := by
  unfold factorValue
  rw [if_pos hu, magFactor_eq hT _ _ (div_pos ht hs)]
  have := ne_of_gt ht; have := ne_of_gt hs
  field_simp

theorem factorValue_pos {T : Transc K} (hT : T.Lawful) (u : FluxUnit K) (target total std : K)
    (ht : 0 < total) (hs : 0 < std) (htg : u.isMag = true ∨ 0 < target) : 0 < factorValue T u target total std := by
  unfold factorValue
  split_ifs with hu
  · exact hT.pow10_pos _
  · rcases htg with h | h
    · exact absurd h hu
    · exact mul_pos h (div_pos hs ht)

/-! ### 2. spectra flat in a linear flux-density unit -/

/-- the linear flux-density units (`ConstFlux1D` standard spectra `1 * unit`) -/
def IsLinearDensity : FluxUnit K → Prop
  | .photlam | .photnu | .flam | .fnu | .jy _ => True
  | _ => False

/-- PHOTLAM flux at wavelength `l` of a spectrum flat at `a` in the linear density unit `u`
(the expressions of `toPhotlam`) -/
def flatPhotlam (P : PhysConst K) : FluxUnit K → K → K → K
  | .photlam, a, _ => a
  | .photnu, a, l => a * P.c / l ^ 2
  | .flam, a, l => a * l / (P.h * P.c)
  | .fnu, a, l => a * P.c / l ^ 2 * l / (P.h * P.c)
  | .jy k, a, l => a * k * P.jyFnu * P.c / l ^ 2 * l / (P.h * P.c)
  | _, _, _ => 0

theorem toPhotlam_flat (P : PhysConst K) (T : Transc K) (u : FluxUnit K) (hu : IsLinearDensity u) (a l : K) :
    toPhotlam P T (plainSamp l) u a = .ok (flatPhotlam P u a l) := by
  cases u <;> first | rfl | exact absurd hu (by simp [IsLinearDensity])

/-- a `ConstFlux1D` leaf in a linear density unit evaluates to `flatPhotlam` -/
theorem constFlux_eval (E : Env K) (u : FluxUnit K) (hu : IsLinearDensity u) (a l : K) :
    (Tree.leaf (.constFlux a u)).eval E l = .ok (flatPhotlam E.P u a l) := by
  simp only [Tree.eval, Leaf.eval]; exact toPhotlam_flat E.P E.T u hu a l

theorem flatPhotlam_amp (P : PhysConst K) (u : FluxUnit K) (a l : K) :
    flatPhotlam P u a l = a * flatPhotlam P u 1 l := by
  cases u <;> simp only [flatPhotlam] <;> ring

theorem flatPhotlam_nonneg (P : PhysConst K) (hP : P.Pos) (u : FluxUnit K) (hu : u.Pos) (a l : K)
    (ha : 0 ≤ a) (hl : 0 < l) : 0 ≤ flatPhotlam P u a l := by
  have hh := hP.h; have hc := hP.c; have hj := hP.jy
  cases u <;> simp only [flatPhotlam] <;> try positivity
  · rename_i k
    have hk : 0 < k := hu
    positivity

/-! ### 3. trapezoid sums of weighted bandpass samples -/

/-- `(λ, λ·f)`, `(λ, f/λ)` and the FLAM effective stimulus `|∫λ F_λ P| / |∫λP|`: the definitions
`C09.timesLam`, `C09.overLam`, `C09.effstimFlam` of Props/C09.lean unfold to exactly these (kept
here so that this file does not depend on Props/C09.lean) -/
def tLam (l : List (K × K)) : List (K × K) := l.map fun p => (p.1, p.1 * p.2)
def oLam (l : List (K × K)) : List (K × K) := l.map fun p => (p.1, p.2 / p.1)
def effFlam (obsFlam band : List (K × K)) : K := |trapz (tLam obsFlam)| / |trapz (tLam band)|

theorem trapz_lam_weight (band : List (K × K)) (α : K) :
    trapz (band.map fun p => (p.1, α * p.1 * p.2)) = α * trapz (tLam band) := by
  unfold tLam
  have : (band.map fun p => (p.1, α * p.1 * p.2)) =
      (band.map fun p => (p.1, p.1 * p.2)).map fun p => (p.1, α * p.2) := by
    simp only [List.map_map]; apply List.map_congr_left; intro p _; simp only [Function.comp]; congr 1; ring
  rw [this, trapz_smul]

theorem trapz_invlam_weight (band : List (K × K)) (α : K) :
    trapz (band.map fun p => (p.1, α / p.1 * p.2)) = α * trapz (oLam band) := by
  unfold oLam
  have : (band.map fun p => (p.1, α / p.1 * p.2)) =
      (band.map fun p => (p.1, p.2 / p.1)).map fun p => (p.1, α * p.2) := by
    simp only [List.map_map]; apply List.map_congr_left; intro p _; simp only [Function.comp]; congr 1; ring
  rw [this, trapz_smul]

/-- band integral of a spectrum flat at `a` FLAM: `a/(hc) ∫ λ P` -/
theorem std_flam (P : PhysConst K) (band : List (K × K)) (a : K) :
    trapz (band.map fun p => (p.1, flatPhotlam P .flam a p.1 * p.2)) =
      a / (P.h * P.c) * trapz (tLam band) := by
  rw [← trapz_lam_weight]; congr 1
  apply List.map_congr_left; intro p _; simp only [flatPhotlam]; congr 1; ring

/-- band integral of a spectrum flat at `a` FNU: `a c/(hc) ∫ P/λ` -/
theorem std_fnu (P : PhysConst K) (band : List (K × K)) (a : K) (hposb : ∀ p ∈ band, p.1 ≠ 0) :
    trapz (band.map fun p => (p.1, flatPhotlam P .fnu a p.1 * p.2)) =
      a * P.c / (P.h * P.c) * trapz (oLam band) := by
  rw [← trapz_invlam_weight]; congr 1
  apply List.map_congr_left; intro p hp; simp only [flatPhotlam]; congr 1
  have := hposb p hp; field_simp

/-- band integral of a spectrum flat at `a` (prefixed) Jy -/
theorem std_jy (P : PhysConst K) (band : List (K × K)) (s a : K) (hposb : ∀ p ∈ band, p.1 ≠ 0) :
    trapz (band.map fun p => (p.1, flatPhotlam P (.jy s) a p.1 * p.2)) =
      a * s * P.jyFnu * P.c / (P.h * P.c) * trapz (oLam band) := by
  rw [← trapz_invlam_weight]; congr 1
  apply List.map_congr_left; intro p hp; simp only [flatPhotlam]; congr 1
  have := hposb p hp; field_simp

/-- FLAM samples of the observation scaled by `k`: the FLAM effective stimulus in closed form -/
theorem effstimFlam_scaled (obs band : List (K × K)) (hc k : K) (hhc : 0 < hc) (hk : 0 < k)
    (hpos : ∀ p ∈ obs, p.1 ≠ 0) (htot : 0 < trapz obs) (hB : 0 < trapz (tLam band)) :
    effFlam (obs.map fun p => (p.1, k * p.2 * hc / p.1)) band =
      k * hc * trapz obs / trapz (tLam band) := by
  unfold effFlam
  have h1 : tLam (obs.map fun p => (p.1, k * p.2 * hc / p.1)) = obs.map fun p => (p.1, (k * hc) * p.2) := by
    simp only [tLam, List.map_map]; apply List.map_congr_left; intro p hp
    simp only [Function.comp]; have := hpos p hp; congr 1; field_simp
  rw [h1, trapz_smul, abs_of_pos (mul_pos (mul_pos hk hhc) htot), abs_of_pos hB]

/-! ### 4. converting a FLAM value at the pivot wavelength -/

/-- the pivot `sqrt |∫λP / ∫P/λ|` is positive and squares to the quotient -/
theorem pivot_sq {T : Transc K} (hT : T.Lawful) (A B : K) (hA : 0 < A) (hB : 0 < B) :
    0 < T.sqrt |B / A| ∧ T.sqrt |B / A| * T.sqrt |B / A| = B / A := by
  have hq : 0 < B / A := div_pos hB hA
  have hsq := hT.sqrt_mul_self |B / A| (abs_nonneg _)
  rw [abs_of_pos hq] at hsq ⊢
  refine ⟨?_, hsq⟩
  rcases (hT.sqrt_nonneg (B / A)).lt_or_eq with h | h
  · exact h
  · rw [← h] at hsq; simp at hsq; exact absurd hsq.symm (ne_of_gt hq)

theorem convert_flam_fnu (P : PhysConst K) (T : Transc K) (hP : P.Pos) (wp v : K) (hw : 0 < wp) :
    convertOne P T (plainSamp wp) .flam .fnu v = .ok (v * (wp * wp) / P.c) := by
  have h1 := ne_of_gt hP.h; have h2 := ne_of_gt hP.c; have h3 := ne_of_gt hw
  have hne : (FluxUnit.flam : FluxUnit K) ≠ .fnu := by intro h; cases h
  simp only [convertOne, if_neg hne, toPhotlam, ofPhotlam, bind, Except.bind, plainSamp]
  congr 1; field_simp

theorem convert_flam_jy (P : PhysConst K) (T : Transc K) (hP : P.Pos) (s wp v : K) (hw : 0 < wp) :
    convertOne P T (plainSamp wp) .flam (.jy s) v = .ok (v * (wp * wp) / P.c / (s * P.jyFnu)) := by
  have h1 := ne_of_gt hP.h; have h2 := ne_of_gt hP.c; have h3 := ne_of_gt hw
  have hne : (FluxUnit.flam : FluxUnit K) ≠ .jy s := by intro h; cases h
  simp only [convertOne, if_neg hne, toPhotlam, ofPhotlam, bind, Except.bind, plainSamp]
  congr 1; field_simp

theorem convert_flam_abmag (P : PhysConst K) (T : Transc K) (hP : P.Pos) (wp v : K) (hw : 0 < wp) :
    convertOne P T (plainSamp wp) .flam .abmag v = toMag T (v * (wp * wp) / P.c / P.abZero) := by
  have h1 := ne_of_gt hP.h; have h2 := ne_of_gt hP.c; have h3 := ne_of_gt hw
  have hne : (FluxUnit.flam : FluxUnit K) ≠ .abmag := by intro h; cases h
  simp only [convertOne, if_neg hne, toPhotlam, ofPhotlam, bind, Except.bind, plainSamp]
  apply toMag_congr; field_simp

/-! ### 5. count-rate sums -/

theorem mulFactors_scaled_sum (k : K) (f cf : List K) :
    (mulFactors (f.map (k * ·)) cf).sum = k * (mulFactors f cf).sum := by
  rw [mulFactors_smul, sum_map_mul_left]

/-! ### 6. `normalizeFactor` = admission, then the scalar -/

theorem ok_bind' {α β : Type} (a : α) (f : α → Except Err β) : (Except.ok a : Except Err α) >>= f = f a := rfl
theorem throw_bind' {α β : Type} (e : Err) (f : α → Except Err β) : (throw e : Except Err α) >>= f = throw e := rfl
theorem error_bind' {α β : Type} (e : Err) (f : α → Except Err β) : (Except.error e : Except Err α) >>= f = .error e := rfl
theorem ite_bind' {α β : Type} (c : Prop) [Decidable c] (a b : Except Err α) (f : α → Except Err β) :
    (if c then a else b) >>= f = if c then a >>= f else b >>= f := by split_ifs <;> rfl

/-- the admission part of `normalize`: class check, overlap verdict, switch to extrapolation -/
def normalizeAdmit (E : Env K) (P : OverlapPar K) (self band : Spec K) (wl : Option (List K)) (force : Bool) :
    Except Err (Spec K × Bool) := do
  if band.kind ≠ .bandpass then throw .synphotError
  let stat ← checkOverlap E P band self wl
  match stat with
    | .none => throw .disjointError
    | .full => pure (self, false)
    | .partialMost => pure ((self.forceExtrap).1, true)
    | .partialNotMost => if force then pure ((self.forceExtrap).1, true) else throw .partialOverlap

/-- the two band integrals `(totalflux, stdflux)` of `normalize` for the models `sm`, `bm` -/
def normalizeIntegrals (E : Env K) (P : OverlapPar K) (sm bm : Tree K) (u : FluxUnit K)
    (wl : Option (List K)) (area : Option K) (vegaModel : Option (Tree K)) : Except Err (K × K) := do
  let sp := Tree.bin .mul sm bm
  let w ← wavelengthsOr P.mergeThr sp wl
  match u with
    | .count | .obmag => do
        let yp ← sampleTree E sp w
        let y ← convertFlux E.P E.T w yp .photlam .count area none
        pure (y.sum, (1 : K))
    | _ => do
        let total ← integrateTrapz E sp w
        let stdTree : Tree K ← match u with
          | .vegamag => match vegaModel with
              | some vm => pure vm
              | none => throw .synphotError
          | .stmag => pure (.leaf (.constFlux E.P.stZero .flam))
          | .abmag => pure (.leaf (.constFlux E.P.abZero .fnu))
          | u' => pure (.leaf (.constFlux 1 u'))
        let up := Tree.bin .mul stdTree bm
        let wu ← wavelengthsOr P.mergeThr up wl
        let std ← integrateTrapz E up wu
        pure (total, std)

/-- everything after the admission: the scalar for the (possibly extrapolating) operand `self'` -/
def normalizeScalar (E : Env K) (P : OverlapPar K) (self' band : Spec K) (target : K) (u : FluxUnit K)
    (wl : Option (List K)) (area : Option K) (vegaModel : Option (Tree K)) : Except Err K := do
  let sm ← self'.model
  let bm ← band.model
  let (total, std) ← normalizeIntegrals E P sm bm u wl area vegaModel
  validateTotalflux total
  if u.isMag then do
      if total / std ≤ 0 then throw .nan
      pure (E.T.pow10 (-(2/5) * (target + (5/2) * E.T.log10 (total / std))))
    else pure (target * (std / total))

theorem normalizeFactor_eq (E : Env K) (P : OverlapPar K) (self band : Spec K) (target : K) (u : FluxUnit K)
    (wl : Option (List K)) (force : Bool) (area : Option K) (vegaModel : Option (Tree K)) :
    normalizeFactor E P self band target u wl force area vegaModel =
      (do let (s', w) ← normalizeAdmit E P self band wl force
          let k ← normalizeScalar E P s' band target u wl area vegaModel
          pure (k, s', w)) := by
  unfold normalizeFactor normalizeAdmit normalizeScalar normalizeIntegrals
  by_cases hb : band.kind = .bandpass
  · simp only [hb, ne_eq, not_true_eq_false, if_false]
    cases checkOverlap E P band self wl with
    | error e => rfl
    | ok stat =>
      cases stat <;> cases force <;> try rfl
      all_goals
        cases u <;> cases vegaModel <;>
          simp only [bind_assoc, pure_bind, ok_bind', throw_bind', ite_bind', FluxUnit.isMag, if_true, if_false,
            Bool.false_eq_true]
  · simp [hb, bind, Except.bind]

/-! ### 7. reading off what a successful call computed -/

theorem normalizeFactor_ok {E : Env K} {P : OverlapPar K} {self band : Spec K} {target : K} {u : FluxUnit K}
    {wl : Option (List K)} {force : Bool} {area : Option K} {vega : Option (Synphot.Tree K)} {k : K} {s' : Spec K} {w : Bool}
    (h : normalizeFactor E P self band target u wl force area vega = .ok (k, s', w)) :
    normalizeAdmit E P self band wl force = .ok (s', w) ∧
      normalizeScalar E P s' band target u wl area vega = .ok k := by
  rw [normalizeFactor_eq] at h
  obtain ⟨⟨s1, w1⟩, h1, h⟩ := bind_ok h
  obtain ⟨k1, h2, h⟩ := bind_ok h
  simp only [pure, Except.pure] at h
  injection h with h; injection h with ha hb; injection hb with hb hc
  subst ha; subst hb; subst hc
  exact ⟨h1, h2⟩

theorem validateTotalflux_ok {v : K} (h : validateTotalflux v = .ok ()) : 0 < v := by
  unfold validateTotalflux at h
  split_ifs at h with hv
  exact not_le.mp hv

theorem validateTotalflux_of_pos {v : K} (h : 0 < v) : validateTotalflux v = .ok () := by
  unfold validateTotalflux; rw [if_neg (not_le.mpr h)]

theorem validateTotalflux_of_nonpos {v : K} (h : v ≤ 0) : validateTotalflux v = .error .synphotError := by
  unfold validateTotalflux; rw [if_pos h]

theorem normalizeScalar_ok {E : Env K} {P : OverlapPar K} {s' band : Spec K} {target : K} {u : FluxUnit K}
    {wl : Option (List K)} {area : Option K} {vega : Option (Synphot.Tree K)} {k : K}
    (h : normalizeScalar E P s' band target u wl area vega = .ok k) :
    ∃ sm bm total std, s'.model = .ok sm ∧ band.model = .ok bm ∧
      normalizeIntegrals E P sm bm u wl area vega = .ok (total, std) ∧ 0 < total ∧
      (u.isMag = true → 0 < total / std) ∧ k = factorValue E.T u target total std := by
  unfold normalizeScalar at h
  obtain ⟨sm, h1, h⟩ := bind_ok h
  obtain ⟨bm, h2, h⟩ := bind_ok h
  obtain ⟨⟨total, std⟩, h3, h⟩ := bind_ok h
  obtain ⟨_, h4, h⟩ := bind_ok h
  refine ⟨sm, bm, total, std, h1, h2, h3, validateTotalflux_ok h4, ?_, ?_⟩
  · intro hu
    simp only [hu, if_true] at h
    by_contra hq
    simp only [not_lt] at hq
    simp [hq, bind, Except.bind, throw, throwThe, MonadExceptOf.throw] at h
  · unfold factorValue
    by_cases hu : u.isMag = true
    · simp only [hu, if_true] at h ⊢
      by_cases hq : total / std ≤ 0
      · simp [hq, bind, Except.bind, throw, throwThe, MonadExceptOf.throw] at h
      · simp only [hq, if_false, bind, Except.bind, pure, Except.pure] at h
        injection h with h; exact h.symm
    · simp only [hu, if_false, Bool.false_eq_true, pure, Except.pure] at h ⊢
      injection h with h; exact h.symm

/-- once the integrals are formed, a non-positive source integral is refused -/
theorem normalizeScalar_nonpos {E : Env K} {P : OverlapPar K} {s' band : Spec K} {target : K} {u : FluxUnit K}
    {wl : Option (List K)} {area : Option K} {vega : Option (Synphot.Tree K)} {sm bm : Synphot.Tree K} {total std : K}
    (h1 : s'.model = .ok sm) (h2 : band.model = .ok bm)
    (h3 : normalizeIntegrals E P sm bm u wl area vega = .ok (total, std)) (ht : total ≤ 0) :
    normalizeScalar E P s' band target u wl area vega = .error .synphotError := by
  unfold normalizeScalar
  simp only [h1, h2, h3, ok_bind', validateTotalflux_of_nonpos ht, error_bind']

/-! ### 8. the two kinds of band integrals -/

/-- the standard spectrum of `normalize` for a flux-density target -/
def stdTreeOf (E : Env K) (u : FluxUnit K) (vega : Option (Synphot.Tree K)) : Except Err (Synphot.Tree K) :=
  match u with
  | .vegamag => match vega with
      | some vm => pure vm
      | none => throw .synphotError
  | .stmag => pure (.leaf (.constFlux E.P.stZero .flam))
  | .abmag => pure (.leaf (.constFlux E.P.abZero .fnu))
  | u' => pure (.leaf (.constFlux 1 u'))

theorem normalizeIntegrals_count (E : Env K) (P : OverlapPar K) (sm bm : Synphot.Tree K) (u : FluxUnit K)
    (wl : Option (List K)) (area : Option K) (vega : Option (Synphot.Tree K)) (hu : u = .count ∨ u = .obmag) :
    normalizeIntegrals E P sm bm u wl area vega = (do
      let w ← wavelengthsOr P.mergeThr (.bin .mul sm bm) wl
      let yp ← sampleTree E (.bin .mul sm bm) w
      let y ← convertFlux E.P E.T w yp .photlam .count area none
      pure (y.sum, 1)) := by
  rcases hu with rfl | rfl <;> rfl

theorem normalizeIntegrals_density (E : Env K) (P : OverlapPar K) (sm bm : Synphot.Tree K) (u : FluxUnit K)
    (wl : Option (List K)) (area : Option K) (vega : Option (Synphot.Tree K)) (hu : u ≠ .count) (hu' : u ≠ .obmag) :
    normalizeIntegrals E P sm bm u wl area vega = (do
      let w ← wavelengthsOr P.mergeThr (.bin .mul sm bm) wl
      let total ← integrateTrapz E (.bin .mul sm bm) w
      let st ← stdTreeOf E u vega
      let wu ← wavelengthsOr P.mergeThr (.bin .mul st bm) wl
      let std ← integrateTrapz E (.bin .mul st bm) wu
      pure (total, std)) := by
  cases u <;> first | rfl | exact absurd rfl hu | exact absurd rfl hu' | (cases vega <;> rfl)

/-- `convert_flux(…, count)` without an area: every sample fails, so only the empty array converts -/
theorem convertAll_count_noarea (P : PhysConst K) (T : Transc K) : ∀ (w f : List K),
    convertAll P T .photlam .count (mkSamples w none none) f = .ok [] ∨
    convertAll P T .photlam .count (mkSamples w none none) f = .error .synphotError := by
  intro w f
  cases w with
  | nil => left; rfl
  | cons l ws =>
    cases f with
    | nil => left; rfl
    | cons x xs =>
      right
      have hne : (FluxUnit.photlam : FluxUnit K) ≠ .count := by intro h; cases h
      simp [mkSamples, convertAll, convertOne, hne, toPhotlam, ofPhotlam, bind, Except.bind]

theorem convertFlux_count_noarea (P : PhysConst K) (T : Transc K) (w f : List K) :
    convertFlux P T w f .photlam .count none none = .ok [] ∨
    convertFlux P T w f .photlam .count none none = .error .synphotError := by
  have hne : (FluxUnit.photlam : FluxUnit K) ≠ .count := by intro h; cases h
  have : convertFlux P T w f .photlam .count none none =
      convertAll P T .photlam .count (mkSamples w none none) f := by
    simp [convertFlux, hne, countFactorsFor, FluxUnit.needsArea, bind, Except.bind, pure, Except.pure]
  rw [this]; exact convertAll_count_noarea P T w f

/-- count / OBMAG target without an area: the scalar computation never returns -/
theorem normalizeScalar_noarea (E : Env K) (P : OverlapPar K) (s' band : Spec K) (target : K) (u : FluxUnit K)
    (wl : Option (List K)) (vega : Option (Synphot.Tree K)) (hu : u = .count ∨ u = .obmag) (k : K) :
    normalizeScalar E P s' band target u wl none vega ≠ .ok k := by
  intro h
  obtain ⟨sm, bm, total, std, h1, h2, h3, hpos, _, _⟩ := normalizeScalar_ok h
  rw [normalizeIntegrals_count E P sm bm u wl none vega hu] at h3
  obtain ⟨w, hw, h3⟩ := bind_ok h3
  obtain ⟨yp, hyp, h3⟩ := bind_ok h3
  obtain ⟨y, hy, h3⟩ := bind_ok h3
  simp only [pure, Except.pure] at h3
  injection h3 with h3; injection h3 with h3 _
  rcases convertFlux_count_noarea E.P E.T w yp with hc | hc
  · rw [hc] at hy; injection hy with hy; subst hy; subst h3; simp at hpos
  · rw [hc] at hy; cases hy

/-- … and once the product has been sampled the error is `SynphotError` -/
theorem normalizeScalar_noarea_class (E : Env K) (P : OverlapPar K) (s' band : Spec K) (target : K) (u : FluxUnit K)
    (wl : Option (List K)) (vega : Option (Synphot.Tree K)) (hu : u = .count ∨ u = .obmag)
    (sm bm : Synphot.Tree K) (w yp : List K) (h1 : s'.model = .ok sm) (h2 : band.model = .ok bm)
    (hw : wavelengthsOr P.mergeThr (.bin .mul sm bm) wl = .ok w) (hyp : sampleTree E (.bin .mul sm bm) w = .ok yp) :
    normalizeScalar E P s' band target u wl none vega = .error .synphotError := by
  unfold normalizeScalar
  rw [h1, h2]
  simp only [ok_bind', normalizeIntegrals_count E P sm bm u wl none vega hu, hw, hyp]
  rcases convertFlux_count_noarea E.P E.T w yp with hc | hc
  · rw [hc]; simp only [ok_bind', pure_bind, List.sum_nil, validateTotalflux_of_nonpos (le_refl (0:K)), error_bind']
  · rw [hc]; rfl

/-- VEGAMAG target without a Vega spectrum: never returns -/
theorem normalizeScalar_novega (E : Env K) (P : OverlapPar K) (s' band : Spec K) (target : K)
    (wl : Option (List K)) (area : Option K) (k : K) :
    normalizeScalar E P s' band target .vegamag wl area none ≠ .ok k := by
  intro h
  obtain ⟨sm, bm, total, std, h1, h2, h3, _, _, _⟩ := normalizeScalar_ok h
  rw [normalizeIntegrals_density E P sm bm .vegamag wl area none (by intro h; cases h) (by intro h; cases h)] at h3
  obtain ⟨w, hw, h3⟩ := bind_ok h3
  obtain ⟨tot, htot, h3⟩ := bind_ok h3
  obtain ⟨st, hst, h3⟩ := bind_ok h3
  cases hst

/-- … and once the source's band integral has been formed the error is `SynphotError` -/
theorem normalizeScalar_novega_class (E : Env K) (P : OverlapPar K) (s' band : Spec K) (target : K)
    (wl : Option (List K)) (area : Option K) (sm bm : Synphot.Tree K) (w : List K) (total : K)
    (h1 : s'.model = .ok sm) (h2 : band.model = .ok bm)
    (hw : wavelengthsOr P.mergeThr (.bin .mul sm bm) wl = .ok w) (ht : integrateTrapz E (.bin .mul sm bm) w = .ok total) :
    normalizeScalar E P s' band target .vegamag wl area none = .error .synphotError := by
  unfold normalizeScalar
  rw [h1, h2]
  simp only [ok_bind', normalizeIntegrals_density E P sm bm .vegamag wl area none (by intro h; cases h) (by intro h; cases h),
    hw, ht]
  rfl

/-! ### 9. the observation of the scaled source -/

/-- (source · k) × band at a wavelength = k · (source × band), including which error is raised -/
theorem eval_scaled_prod (E : Env K) (sm bm : Synphot.Tree K) (k x : K) :
    (Synphot.Tree.bin .mul (.scale sm k) bm).eval E x = ((Synphot.Tree.bin .mul sm bm).eval E x).map (k * ·) := by
  simp only [Synphot.Tree.eval]
  cases sm.eval E x with
  | error e => rfl
  | ok a =>
    cases bm.eval E x with
    | error e => rfl
    | ok b =>
      simp only [BinOp.apply, bind, Except.bind, pure, Except.pure, Except.map]
      congr 1; ring

theorem mapM_map_ok {f g : K → Except Err K} {h : K → K} (hfg : ∀ x, g x = (f x).map h) :
    ∀ (xs ys : List K), xs.mapM f = .ok ys → xs.mapM g = .ok (ys.map h) := by
  intro xs
  induction xs with
  | nil => intro ys hy; simp only [List.mapM_nil, pure, Except.pure] at hy ⊢; injection hy with hy; subst hy; rfl
  | cons a l ih =>
    intro ys hy
    simp only [List.mapM_cons, bind, Except.bind] at hy ⊢
    rw [hfg a]
    cases hfa : f a with
    | error e => rw [hfa] at hy; cases hy
    | ok b =>
      rw [hfa] at hy
      cases hl : l.mapM f with
      | error e => rw [hl] at hy; cases hy
      | ok bs =>
        rw [hl] at hy
        simp only [pure, Except.pure] at hy
        injection hy with hy; subst hy
        simp only [Except.map, ih bs hl, List.map_cons]
        rfl

theorem mapM_length {f : K → Except Err K} : ∀ (xs ys : List K), xs.mapM f = .ok ys → ys.length = xs.length := by
  intro xs
  induction xs with
  | nil => intro ys hy; simp only [List.mapM_nil, pure, Except.pure] at hy; injection hy with hy; subst hy; rfl
  | cons a l ih =>
    intro ys hy
    simp only [List.mapM_cons, bind, Except.bind] at hy
    cases hfa : f a with
    | error e => rw [hfa] at hy; cases hy
    | ok b =>
      rw [hfa] at hy
      cases hl : l.mapM f with
      | error e => rw [hl] at hy; cases hy
      | ok bs =>
        rw [hl] at hy
        simp only [pure, Except.pure] at hy
        injection hy with hy; subst hy
        simp [ih bs hl]

theorem sampleTree_scaled_prod (E : Env K) (sm bm : Synphot.Tree K) (k : K) (xs yp : List K)
    (h : sampleTree E (.bin .mul sm bm) xs = .ok yp) :
    sampleTree E (.bin .mul (.scale sm k) bm) xs = .ok (yp.map (k * ·)) :=
  mapM_map_ok (eval_scaled_prod E sm bm k) xs yp h

theorem sampleTree_length (E : Env K) (m : Synphot.Tree K) (xs ys : List K) (h : sampleTree E m xs = .ok ys) :
    ys.length = xs.length := mapM_length xs ys h

/-- the scaled source has the sampling set of the original -/
theorem wavelengthsOr_scaled (thr : K) (sm bm : Synphot.Tree K) (k : K) (wl : Option (List K)) :
    wavelengthsOr thr (.bin .mul (.scale sm k) bm) wl = wavelengthsOr thr (.bin .mul sm bm) wl := by
  cases wl with
  | some w => rfl
  | none => simp only [wavelengthsOr, wavesetOrErr, Synphot.Tree.waveset, Synphot.Tree.sampleset]

theorem convertAll_count_smul (P : PhysConst K) (T : Transc K) (k : K) :
    ∀ (S : List (Samp K)) (f y : List K), convertAll P T .photlam .count S f = .ok y →
      convertAll P T .photlam .count S (f.map (k * ·)) = .ok (y.map (k * ·)) := by
  intro S
  induction S with
  | nil =>
    intro f y h
    cases f <;> (simp only [convertAll, pure, Except.pure, List.map_nil, List.map_cons] at h ⊢; injection h with h; subst h; rfl)
  | cons s ss ih =>
    intro f y h
    cases f with
    | nil => simp only [convertAll, pure, Except.pure, List.map_nil] at h ⊢; injection h with h; subst h; rfl
    | cons x xs =>
      have hne : (FluxUnit.photlam : FluxUnit K) ≠ .count := by intro h; cases h
      simp only [List.map_cons, convertAll, convertOne, if_neg hne, toPhotlam, ofPhotlam, ok_bind'] at h ⊢
      cases hcf : s.countFactor with
      | none => rw [hcf] at h; cases h
      | some c =>
        rw [hcf] at h
        simp only [ok_bind'] at h ⊢
        cases hr : convertAll P T .photlam .count ss xs with
        | error e => rw [hr] at h; cases h
        | ok ys =>
          rw [hr] at h
          simp only [ok_bind', pure, Except.pure] at h
          injection h with h; subst h
          rw [ih xs ys hr]
          simp only [ok_bind', pure, Except.pure, List.map_cons]
          congr 2; ring

theorem convertFlux_count_smul (P : PhysConst K) (T : Transc K) (k : K) (w f y : List K) (area : Option K)
    (h : convertFlux P T w f .photlam .count area none = .ok y) :
    convertFlux P T w (f.map (k * ·)) .photlam .count area none = .ok (y.map (k * ·)) := by
  have hne : (FluxUnit.photlam : FluxUnit K) ≠ .count := by intro h; cases h
  unfold convertFlux at h ⊢
  rw [if_neg hne] at h ⊢
  cases hcf : countFactorsFor w (.photlam : FluxUnit K) .count area with
  | error e => rw [hcf] at h; cases h
  | ok cf =>
    rw [hcf] at h
    simp only [ok_bind'] at h ⊢
    exact convertAll_count_smul P T k _ f y h

theorem sum_smul (k : K) (l : List K) : (l.map (k * ·)).sum = k * l.sum := sum_map_mul_left k l

theorem trapzXY_smul (k : K) (x l : List K) : trapzXY x (l.map (k * ·)) = k * trapzXY x l := by
  unfold trapzXY
  rw [List.zip_map_right]
  exact trapz_smul k (x.zip l)

theorem integrateTrapz_scaled (E : Env K) (sm bm : Synphot.Tree K) (k : K) (hk : 0 ≤ k) (x : List K) (total : K)
    (h : integrateTrapz E (.bin .mul sm bm) x = .ok total) :
    integrateTrapz E (.bin .mul (.scale sm k) bm) x = .ok (k * total) := by
  unfold integrateTrapz at h ⊢
  obtain ⟨_, hv, h⟩ := bind_ok h
  obtain ⟨y, hy, h⟩ := bind_ok h
  simp only [pure, Except.pure] at h
  injection h with h; subst h
  rw [hv, sampleTree_scaled_prod E sm bm k x y hy]
  simp only [ok_bind', pure, Except.pure]
  congr 1
  have : (y.map (k * ·)).map (fun v => |v|) = (y.map fun v => |v|).map (k * ·) := by
    simp only [List.map_map]; apply List.map_congr_left; intro v _
    simp only [Function.comp, abs_mul, abs_of_nonneg hk]
  rw [this, trapzXY_smul, abs_mul, abs_of_nonneg hk]

/-- unbinned count rate without a wavelength range, as one pipeline -/
theorem countrate_unbinned (E : Env K) (thr atol rtol : K) (o : Obs K) (area : Option K) (wl : Option (List K)) :
    countrate E thr atol rtol o area false wl none false = (do
      let x ← wavelengthsOr thr o.model wl
      let yp ← sampleTree E o.model x
      let y ← convertFlux E.P E.T x yp .photlam .count area none
      validateTotalflux y.sum
      pure y.sum) := by
  unfold countrate
  simp only [Bool.false_eq_true, if_false, bind_assoc, pure_bind]

/-! ### 10. integrals of pointwise multiples; the standard spectrum × band -/

/-- a tree that is pointwise `k ≥ 0` times another one integrates to `k` times its integral -/
theorem integrateTrapz_smul_of_eval (E : Env K) (m m' : Synphot.Tree K) (k : K) (hk : 0 ≤ k)
    (hev : ∀ x, m'.eval E x = (m.eval E x).map (k * ·)) (x : List K) (total : K)
    (h : integrateTrapz E m x = .ok total) : integrateTrapz E m' x = .ok (k * total) := by
  unfold integrateTrapz at h ⊢
  obtain ⟨_, hv, h⟩ := bind_ok h
  obtain ⟨y, hy, h⟩ := bind_ok h
  simp only [pure, Except.pure] at h
  injection h with h; subst h
  have hy' : sampleTree E m' x = .ok (y.map (k * ·)) := mapM_map_ok hev x y hy
  rw [hv, hy']
  simp only [ok_bind', pure, Except.pure]
  congr 1
  have : (y.map (k * ·)).map (fun v => |v|) = (y.map fun v => |v|).map (k * ·) := by
    simp only [List.map_map]; apply List.map_congr_left; intro v _
    simp only [Function.comp, abs_mul, abs_of_nonneg hk]
  rw [this, trapzXY_smul, abs_mul, abs_of_nonneg hk]

/-- flat-at-`a` × band = `a` · (flat-at-1 × band), pointwise -/
theorem eval_flat_amp (E : Env K) (u : FluxUnit K) (hu : IsLinearDensity u) (a : K) (bm : Synphot.Tree K) (x : K) :
    (Synphot.Tree.bin .mul (.leaf (.constFlux a u)) bm).eval E x =
      ((Synphot.Tree.bin .mul (.leaf (.constFlux 1 u)) bm).eval E x).map (a * ·) := by
  simp only [Synphot.Tree.eval, Leaf.eval, toPhotlam_flat E.P E.T u hu]
  cases bm.eval E x with
  | error e => rfl
  | ok b =>
    simp only [BinOp.apply, bind, Except.bind, Except.map]
    congr 1; rw [flatPhotlam_amp E.P u a x]; ring

/-- the standard × band product samples the band: `flat(λ) · P(λ)` -/
theorem eval_flat_prod (E : Env K) (u : FluxUnit K) (hu : IsLinearDensity u) (a : K) (bm : Synphot.Tree K) (x : K) :
    (Synphot.Tree.bin .mul (.leaf (.constFlux a u)) bm).eval E x =
      (bm.eval E x).map (fun b => flatPhotlam E.P u a x * b) := by
  simp only [Synphot.Tree.eval, Leaf.eval, toPhotlam_flat E.P E.T u hu]
  cases bm.eval E x <;> rfl

theorem mapM_map2_ok {f g : K → Except Err K} {h : K → K → K} (hfg : ∀ x, g x = (f x).map (h x)) :
    ∀ (xs ys : List K), xs.mapM g = .ok ys →
      ∃ yb, xs.mapM f = .ok yb ∧ xs.zip ys = (xs.zip yb).map (fun p => (p.1, h p.1 p.2)) := by
  intro xs
  induction xs with
  | nil =>
    intro ys hy; exact ⟨[], rfl, by simp⟩
  | cons a l ih =>
    intro ys hy
    simp only [List.mapM_cons, bind, Except.bind] at hy
    rw [hfg a] at hy
    cases hfa : f a with
    | error e => rw [hfa] at hy; cases hy
    | ok b =>
      rw [hfa] at hy
      simp only [Except.map] at hy
      cases hl : l.mapM g with
      | error e => rw [hl] at hy; cases hy
      | ok bs =>
        rw [hl] at hy
        simp only [pure, Except.pure] at hy
        injection hy with hy; subst hy
        obtain ⟨yb, hyb, hz⟩ := ih bs hl
        refine ⟨b :: yb, ?_, ?_⟩
        · simp only [List.mapM_cons, bind, Except.bind, hfa, hyb]; rfl
        · simp only [List.zip_cons_cons, List.map_cons, hz]

theorem mapM_mem_ok {f : K → Except Err K} : ∀ (xs ys : List K), xs.mapM f = .ok ys →
    ∀ v ∈ ys, ∃ x ∈ xs, f x = .ok v := by
  intro xs
  induction xs with
  | nil =>
    intro ys hy v hv
    simp only [List.mapM_nil, pure, Except.pure] at hy; injection hy with hy; subst hy; cases hv
  | cons a l ih =>
    intro ys hy v hv
    simp only [List.mapM_cons, bind, Except.bind] at hy
    cases hfa : f a with
    | error e => rw [hfa] at hy; cases hy
    | ok b =>
      rw [hfa] at hy
      cases hl : l.mapM f with
      | error e => rw [hl] at hy; cases hy
      | ok bs =>
        rw [hl] at hy
        simp only [pure, Except.pure] at hy
        injection hy with hy; subst hy
        rcases List.mem_cons.mp hv with rfl | hv'
        · exact ⟨a, by simp, hfa⟩
        · obtain ⟨x, hx, hfx⟩ := ih bs hl v hv'
          exact ⟨x, List.mem_cons_of_mem _ hx, hfx⟩

theorem map_abs_of_nonneg (l : List K) (h : ∀ v ∈ l, 0 ≤ v) : (l.map fun v => |v|) = l := by
  have : (l.map fun v => |v|) = l.map id := List.map_congr_left (fun v hv => abs_of_nonneg (h v hv))
  rw [this, List.map_id]

/-- the standard spectrum's band integral as a sum over the bandpass samples (non-negative throughput,
positive wavelengths): `| Σ flat(λ) P(λ) |` on the grid `xb` -/
theorem integrateTrapz_flat (E : Env K) (hP : E.P.Pos) (u : FluxUnit K) (hu : IsLinearDensity u) (hup : u.Pos)
    (a : K) (ha : 0 ≤ a) (bm : Synphot.Tree K) (xb yb : List K) (sd : K)
    (hyb : sampleTree E bm xb = .ok yb) (hnn : ∀ v ∈ yb, 0 ≤ v)
    (h : integrateTrapz E (.bin .mul (.leaf (.constFlux a u)) bm) xb = .ok sd) :
    sd = |trapz ((xb.zip yb).map fun p => (p.1, flatPhotlam E.P u a p.1 * p.2))| := by
  unfold integrateTrapz at h
  obtain ⟨_, hv, h⟩ := bind_ok h
  obtain ⟨ys, hys, h⟩ := bind_ok h
  simp only [pure, Except.pure] at h
  injection h with h; subst h
  obtain ⟨yb', hyb', hz⟩ := mapM_map2_ok (eval_flat_prod E u hu a bm) xb ys hys
  have : yb = yb' := by
    have h1 : sampleTree E bm xb = .ok yb' := hyb'
    rw [hyb] at h1; injection h1 with h1
  subst this
  have hpos := ((validate_ok_iff xb).mp hv).1
  unfold trapzXY
  rw [List.zip_map_right, hz, List.map_map]
  congr 2
  apply List.map_congr_left
  intro p hp
  obtain ⟨h1, h2⟩ := List.of_mem_zip hp
  simp only [Function.comp, Prod.map, id]
  rw [abs_of_nonneg (mul_nonneg (flatPhotlam_nonneg E.P hP u hup a p.1 ha (hpos p.1 h1)) (hnn p.2 h2))]

/-! ### 11. `effstim` of the scaled observation -/

theorem convertAll_flam (P : PhysConst K) (T : Transc K) : ∀ (w f : List K),
    convertAll P T .photlam .flam (mkSamples w none none) f =
      .ok (List.zipWith (fun l p => p * (P.h * P.c) / l) w f) := by
  intro w
  induction w with
  | nil => intro f; rfl
  | cons l ws ih =>
    intro f
    cases f with
    | nil => rfl
    | cons x xs =>
      have hne : (FluxUnit.photlam : FluxUnit K) ≠ .flam := by intro h; cases h
      simp only [mkSamples, Option.map_none, convertAll, convertOne, if_neg hne, toPhotlam, ofPhotlam, ok_bind', ih xs,
        List.zipWith_cons_cons, pure, Except.pure]

theorem convertFlux_flam (P : PhysConst K) (T : Transc K) (w f : List K) :
    convertFlux P T w f .photlam .flam none none =
      .ok (List.zipWith (fun l p => p * (P.h * P.c) / l) w f) := by
  have hne : (FluxUnit.photlam : FluxUnit K) ≠ .flam := by intro h; cases h
  have : convertFlux P T w f .photlam .flam none none =
      convertAll P T .photlam .flam (mkSamples w none none) f := by
    simp [convertFlux, hne, countFactorsFor, FluxUnit.needsArea, bind, Except.bind, pure, Except.pure]
  rw [this, convertAll_flam]

theorem zip_zip_map (h : K × K → K) : ∀ (w f : List K),
    w.zip ((w.zip f).map h) = (w.zip f).map (fun p => (p.1, h p)) := by
  intro w
  induction w with
  | nil => intro f; rfl
  | cons a w ih =>
    intro f
    cases f with
    | nil => rfl
    | cons b f => simp only [List.zip_cons_cons, List.map_cons, ih f]

theorem zip_zipWith (g : K → K → K) : ∀ (w f : List K),
    w.zip (List.zipWith g w f) = (w.zip f).map (fun p => (p.1, g p.1 p.2)) := by
  intro w
  induction w with
  | nil => intro f; rfl
  | cons a w ih =>
    intro f
    cases f with
    | nil => rfl
    | cons b f => simp only [List.zip_cons_cons, List.zipWith_cons_cons, List.map_cons, ih f]

/-- `∫ λ F_λ' dλ` of the scaled observation, FLAM samples formed by `convert_flux`: `k · hc · ∫ F P` -/
theorem num_scaled (w yp : List K) (hc k : K) (hpos : ∀ x ∈ w, 0 < x) :
    trapzXY w ((w.zip (List.zipWith (fun l p => p * hc / l) w (yp.map (k * ·)))).map fun x => x.1 * x.2) =
      k * hc * trapz (w.zip yp) := by
  unfold trapzXY
  rw [zip_zip_map, zip_zipWith, List.map_map, List.zip_map_right, List.map_map, ← trapz_smul]
  congr 1
  apply List.map_congr_left
  intro p hp
  have := ne_of_gt (hpos p.1 (List.of_mem_zip hp).1)
  simp only [Function.comp, Prod.map, id]
  congr 1; field_simp

theorem den_pairs (xb yb : List K) :
    trapzXY xb ((xb.zip yb).map fun x => x.1 * x.2) = trapz ((xb.zip yb).map fun p => (p.1, p.1 * p.2)) := by
  unfold trapzXY; rw [zip_zip_map]

theorem num_scaled' (w yp : List K) (hc k : K) (hpos : ∀ x ∈ w, 0 < x) :
    trapz ((w.zip (List.zipWith (fun l p => p * hc / l) w (yp.map (k * ·)))).map fun p => (p.1, p.1 * p.2)) =
      k * hc * trapz (w.zip yp) := by
  rw [← den_pairs, num_scaled w yp hc k hpos]

/-- what `effstim` computes for the observation (source · k) × band in the FLAM-based units -/
theorem effstim_scaled (E : Env K) (thr atol rtol : K) (o : Obs K) (u : FluxUnit K)
    (hu : u ≠ .count ∧ u ≠ .obmag ∧ u ≠ .vegamag) (wl : Option (List K)) (area : Option K)
    (vega : Option (Synphot.Tree K)) (sm bm : Synphot.Tree K) (k : K) (xb yb w yp : List K)
    (hbm : o.band.model = .ok bm) (ho : o.model = .bin .mul (.scale sm k) bm)
    (hxb : wavelengthsOr thr bm wl = .ok xb) (hyb : sampleTree E bm xb = .ok yb)
    (hw : wavelengthsOr thr (.bin .mul sm bm) wl = .ok w) (hv : validateWavelengths w = .ok ())
    (hyp : sampleTree E (.bin .mul sm bm) w = .ok yp) :
    effstim E thr atol rtol o u wl area vega = (do
      let num := |k * (E.P.h * E.P.c) * trapz (w.zip yp)|
      let den := |trapz ((xb.zip yb).map fun p => (p.1, p.1 * p.2))|
      validateTotalflux num
      validateTotalflux den
      match u with
      | .flam => pure (num / den)
      | .stmag => toMag E.T (num / den / E.P.stZero)
      | u' => do
          let wp ← pivot E thr bm wl
          convertOne E.P E.T (plainSamp wp) .flam u' (num / den)) := by
  have hpos := ((validate_ok_iff w).mp hv).1
  obtain ⟨h1, h2, h3⟩ := hu
  cases u <;> first | exact absurd rfl h1 | exact absurd rfl h2 | exact absurd rfl h3 |
    simp only [effstim, hbm, hxb, hyb, ho, wavelengthsOr_scaled, hw, ok_bind',
      sampleTree_scaled_prod E sm bm k w yp hyp, convertFlux_flam, den_pairs, num_scaled' w yp _ k hpos, bind_assoc,
      pure_bind]

/-! ### 12. grids, the pivot, and the source integral -/

/-- `ConstFlux1D` has no sampling set: standard × band is integrated on the bandpass's grid -/
theorem wavelengthsOr_flat (thr : K) (a : K) (u : FluxUnit K) (bm : Synphot.Tree K) (wl : Option (List K)) :
    wavelengthsOr thr (.bin .mul (.leaf (.constFlux a u)) bm) wl = wavelengthsOr thr bm wl := by
  cases wl with
  | some w => rfl
  | none =>
    simp only [wavelengthsOr, wavesetOrErr, Synphot.Tree.waveset, Synphot.Tree.sampleset, Leaf.sampleset]
    cases bm.sampleset thr <;> rfl

theorem integrateTrapz_ok {E : Env K} {m : Synphot.Tree K} {w : List K} {tot : K}
    (h : integrateTrapz E m w = .ok tot) :
    ∃ yp, validateWavelengths w = .ok () ∧ sampleTree E m w = .ok yp ∧
      tot = |trapzXY w (yp.map fun v => |v|)| := by
  unfold integrateTrapz at h
  obtain ⟨_, hv, h⟩ := bind_ok h
  obtain ⟨y, hy, h⟩ := bind_ok h
  simp only [pure, Except.pure] at h
  injection h with h
  exact ⟨y, hv, hy, h.symm⟩

/-- pointwise non-negativity transfers to the samples -/
theorem samples_nonneg (E : Env K) (m : Synphot.Tree K) (w yp : List K) (hv : validateWavelengths w = .ok ())
    (hyp : sampleTree E m w = .ok yp) (hnn : ∀ x v, 0 < x → m.eval E x = .ok v → 0 ≤ v) : ∀ v ∈ yp, 0 ≤ v := by
  intro v hvm
  obtain ⟨x, hx, hfx⟩ := mapM_mem_ok w yp hyp v hvm
  exact hnn x v (((validate_ok_iff w).mp hv).1 x hx) hfx

/-- the bandpass pivot on the grid of the call (`wavelengths`, else its own sampling set):
`sqrt |∫λP / ∫P/λ|` (0 when `∫P/λ = 0`) -/
theorem pivot_value (E : Env K) (thr : K) (bm : Synphot.Tree K) (wl : Option (List K)) (xb yb : List K)
    (hxb : wavelengthsOr thr bm wl = .ok xb) (hyb : sampleTree E bm xb = .ok yb) :
    pivot E thr bm wl =
      .ok (if trapz ((xb.zip yb).map fun p => (p.1, p.2 / p.1)) = 0 then 0
        else E.T.sqrt |trapz ((xb.zip yb).map fun p => (p.1, p.1 * p.2)) /
          trapz ((xb.zip yb).map fun p => (p.1, p.2 / p.1))|) := by
  have e1 : trapzXY xb ((xb.zip yb).map fun x => x.2 * x.1) = trapz ((xb.zip yb).map fun p => (p.1, p.1 * p.2)) := by
    unfold trapzXY; rw [zip_zip_map]; congr 1; apply List.map_congr_left; intro p _; congr 1; ring
  have e2 : trapzXY xb ((xb.zip yb).map fun x => x.2 / x.1) = trapz ((xb.zip yb).map fun p => (p.1, p.2 / p.1)) := by
    unfold trapzXY; rw [zip_zip_map]
  simp only [pivot, hxb, hyb, ok_bind', e1, e2]
  split_ifs <;> rfl

/-- the standard spectrum's band integral, with the bandpass samples it was formed from -/
theorem integrateTrapz_flat' (E : Env K) (hP : E.P.Pos) (u : FluxUnit K) (hu : IsLinearDensity u) (hup : u.Pos)
    (a : K) (ha : 0 ≤ a) (bm : Synphot.Tree K) (xb : List K) (sd : K)
    (hband : ∀ x v, 0 < x → bm.eval E x = .ok v → 0 ≤ v)
    (h : integrateTrapz E (.bin .mul (.leaf (.constFlux a u)) bm) xb = .ok sd) :
    ∃ yb, validateWavelengths xb = .ok () ∧ sampleTree E bm xb = .ok yb ∧
      sd = |trapz ((xb.zip yb).map fun p => (p.1, flatPhotlam E.P u a p.1 * p.2))| := by
  obtain ⟨ys, hv, hys, _⟩ := integrateTrapz_ok h
  obtain ⟨yb, hyb, _⟩ := mapM_map2_ok (eval_flat_prod E u hu a bm) xb ys hys
  exact ⟨yb, hv, hyb, integrateTrapz_flat E hP u hu hup a ha bm xb yb sd hyb
    (samples_nonneg E bm xb yb hv hyb hband) h⟩

/-- the source's band integral for non-negative source × band: `|Σ F P|` on the grid `w` -/
theorem integrateTrapz_nonneg_src (E : Env K) (m : Synphot.Tree K) (w : List K) (tot : K)
    (hsrc : ∀ x v, 0 < x → m.eval E x = .ok v → 0 ≤ v) (h : integrateTrapz E m w = .ok tot) :
    ∃ yp, validateWavelengths w = .ok () ∧ sampleTree E m w = .ok yp ∧ tot = |trapz (w.zip yp)| := by
  obtain ⟨yp, hv, hyp, ht⟩ := integrateTrapz_ok h
  refine ⟨yp, hv, hyp, ?_⟩
  rw [ht, map_abs_of_nonneg yp (samples_nonneg E m w yp hv hyp hsrc)]
  rfl

theorem sqrt_zero' {T : Transc K} (hT : T.Lawful) : T.sqrt 0 = 0 := by
  have := hT.sqrt_mul_self 0 (le_refl 0)
  exact mul_self_eq_zero.mp this

/-! ### 13. the call returns when its pieces succeed -/

theorem normalizeScalar_of_pieces {E : Env K} {P : OverlapPar K} {s' band : Spec K} {target : K} {u : FluxUnit K}
    {wl : Option (List K)} {area : Option K} {vega : Option (Synphot.Tree K)} {sm bm : Synphot.Tree K} {total std : K}
    (h1 : s'.model = .ok sm) (h2 : band.model = .ok bm)
    (h3 : normalizeIntegrals E P sm bm u wl area vega = .ok (total, std)) (hpos : 0 < total)
    (hq : u.isMag = true → 0 < total / std) :
    normalizeScalar E P s' band target u wl area vega = .ok (factorValue E.T u target total std) := by
  unfold normalizeScalar factorValue
  simp only [h1, h2, h3, ok_bind', validateTotalflux_of_pos hpos]
  by_cases hu : u.isMag = true
  · simp only [hu, if_true, if_neg (not_le.mpr (hq hu))]; rfl
  · simp only [hu, if_false, Bool.false_eq_true]; rfl

theorem normalizeFactor_of_pieces {E : Env K} {P : OverlapPar K} {self band : Spec K} {target : K} {u : FluxUnit K}
    {wl : Option (List K)} {force : Bool} {area : Option K} {vega : Option (Synphot.Tree K)}
    {s' : Spec K} {wn : Bool} {sm bm : Synphot.Tree K} {total std : K}
    (hadm : normalizeAdmit E P self band wl force = .ok (s', wn))
    (h1 : s'.model = .ok sm) (h2 : band.model = .ok bm)
    (h3 : normalizeIntegrals E P sm bm u wl area vega = .ok (total, std)) (hpos : 0 < total)
    (hq : u.isMag = true → 0 < total / std) :
    normalizeFactor E P self band target u wl force area vega = .ok (factorValue E.T u target total std, s', wn) := by
  rw [normalizeFactor_eq, hadm]
  simp only [ok_bind', normalizeScalar_of_pieces h1 h2 h3 hpos hq]
  rfl

/-! ### 14. a concrete call for the non-vacuity examples -/

namespace Witness

/-- a box bandpass of height 1 on `[1, 5]`, sampled at 2 and 4 -/
def bandTree : Synphot.Tree K := .leaf (.box 1 3 4 (some [2, 4]))
/-- a source flat at `c` PHOTLAM (no sampling set of its own) -/
def flatTree (c : K) : Synphot.Tree K := .leaf (.const1 c)
def band : Spec K := Spec.ofTree .bandpass bandTree
def src (c : K) : Spec K := Spec.ofTree .source (flatTree c)
def par : OverlapPar K := ⟨0, 0, 1 / 100⟩
/-- constants all equal to 1 -/
def phys : PhysConst K := ⟨1, 1, 1, 1, 1⟩
def env (T : Transc K) : Env K := ⟨phys, T⟩
theorem phys_pos : (phys : PhysConst K).Pos := ⟨one_pos, one_pos, one_pos, one_pos, one_pos⟩

theorem band_model : (band : Spec K).model = .ok bandTree := rfl
theorem src_model (c : K) : (src c).model = .ok (flatTree c) := ofTree_model _ _

theorem valid24 : validateWavelengths ([2, 4] : List K) = .ok () := by
  rw [validate_ok_iff]
  refine ⟨?_, Or.inl ?_⟩
  · intro x hx; simp only [List.mem_cons, List.not_mem_nil, or_false] at hx
    rcases hx with rfl | rfl <;> norm_num
  · exact ⟨by norm_num, trivial⟩

/-- a source without a sampling set overlaps every bandpass fully -/
theorem overlap_full (E : Env K) (c : K) : checkOverlap E par band (src c) none = .ok .full := by
  simp [checkOverlap, band_model, src_model, flatTree, Synphot.Tree.waveset, Synphot.Tree.sampleset, Leaf.sampleset,
    bind, Except.bind, pure, Except.pure]

theorem admitOk (E : Env K) (c : K) (force : Bool) : normalizeAdmit E par (src c) band none force = .ok (src c, false) := by
  have hk : (band : Spec K).kind = .bandpass := rfl
  simp [normalizeAdmit, hk, overlap_full, bind, Except.bind, pure, Except.pure]

/-- anything without a sampling set × the box is sampled on the box's grid -/
theorem grid_of (thr : K) (m : Synphot.Tree K) (hm : m.sampleset thr = none) :
    wavelengthsOr thr (.bin .mul m bandTree) none = .ok [2, 4] := by
  simp only [wavelengthsOr, wavesetOrErr, Synphot.Tree.waveset, Synphot.Tree.sampleset, hm, bandTree, Leaf.sampleset,
    mergeWavelengths, valid24, bind, Except.bind, pure, Except.pure]

theorem band_grid (thr : K) : wavelengthsOr thr (bandTree : Synphot.Tree K) none = .ok [2, 4] := by
  simp only [wavelengthsOr, wavesetOrErr, Synphot.Tree.waveset, Synphot.Tree.sampleset, bandTree, Leaf.sampleset,
    valid24, bind, Except.bind, pure, Except.pure]

theorem band_eval (E : Env K) (x : K) (h : 1 ≤ x ∧ x ≤ 5) : (bandTree : Synphot.Tree K).eval E x = .ok 1 := by
  have : (3 : K) - 4 / 2 ≤ x ∧ x ≤ 3 + 4 / 2 := by constructor <;> [linarith [h.1]; linarith [h.2]]
  simp only [bandTree, Synphot.Tree.eval, Leaf.eval, if_pos this]

theorem band_nonneg (E : Env K) : ∀ x v, 0 < x → (bandTree : Synphot.Tree K).eval E x = .ok v → 0 ≤ v := by
  intro x v _ h
  simp only [bandTree, Synphot.Tree.eval, Leaf.eval] at h
  injection h with h; subst h; split_ifs <;> norm_num

theorem band_samples (E : Env K) : sampleTree E (bandTree : Synphot.Tree K) [2, 4] = .ok [1, 1] := by
  simp only [sampleTree, List.mapM_cons, List.mapM_nil, band_eval E 2 (by constructor <;> norm_num),
    band_eval E 4 (by constructor <;> norm_num), bind, Except.bind, pure, Except.pure]

/-- samples of `m × box` where `m` evaluates to `f` -/
theorem prod_samples (E : Env K) (m : Synphot.Tree K) (f : K → K) (hm : ∀ x, m.eval E x = .ok (f x)) :
    sampleTree E (.bin .mul m bandTree) [2, 4] = .ok [f 2 * 1, f 4 * 1] := by
  simp only [sampleTree, List.mapM_cons, List.mapM_nil, Synphot.Tree.eval, hm, band_eval E 2 (by constructor <;> norm_num),
    band_eval E 4 (by constructor <;> norm_num), BinOp.apply, bind, Except.bind, pure, Except.pure]

theorem prod_integral (E : Env K) (m : Synphot.Tree K) (f : K → K) (hm : ∀ x, m.eval E x = .ok (f x)) :
    integrateTrapz E (.bin .mul m bandTree) [2, 4] = .ok |(|f 2| + |f 4|)| := by
  simp only [integrateTrapz, valid24, prod_samples E m f hm, ok_bind', pure, Except.pure, trapzXY, List.map_cons,
    List.map_nil, List.zip_cons_cons, List.zip_nil_right, trapz, mul_one]
  congr 2; ring

theorem flat_eval (E : Env K) (c x : K) : (flatTree c).eval E x = .ok c := rfl

theorem prod_nonneg (E : Env K) (c : K) (hc : 0 ≤ c) :
    ∀ x v, 0 < x → (Synphot.Tree.bin .mul (flatTree c) bandTree).eval E x = .ok v → 0 ≤ v := by
  intro x v hx h
  obtain ⟨a, b, ha, hb, hv⟩ := eval_bin_ok h
  rw [flat_eval] at ha; injection ha with ha; subst ha
  have := band_nonneg E x b hx hb
  rw [apply_ok_mul hv]; exact mul_nonneg hc this

/-- the density integrals of the witness call: `total = 2|c|`, `std = |flat(2)| + |flat(4)|` -/
theorem integrals_density (T : Transc K) (c : K) (u : FluxUnit K) (hu : u ≠ .count) (hu' : u ≠ .obmag)
    (area : Option K) (vega : Option (Synphot.Tree K)) (a0 : K) (u0 : FluxUnit K)
    (hstd : stdTreeOf (env T) u vega = .ok (.leaf (.constFlux a0 u0))) (hu0 : IsLinearDensity u0) :
    normalizeIntegrals (env T) par (flatTree c) bandTree u none area vega =
      .ok (|(|c| + |c|)|, |(|flatPhotlam phys u0 a0 2| + |flatPhotlam phys u0 a0 4|)|) := by
  rw [normalizeIntegrals_density _ _ _ _ _ _ _ _ hu hu', grid_of _ _ rfl]
  simp only [ok_bind', prod_integral (env T) (flatTree c) (fun _ => c) (flat_eval (env T) c), hstd,
    grid_of par.mergeThr (.leaf (.constFlux a0 u0)) rfl,
    prod_integral (env T) (.leaf (.constFlux a0 u0)) (flatPhotlam phys u0 a0) (constFlux_eval (env T) u0 hu0 a0)]
  rfl

theorem integrals_vega (T : Transc K) (c v : K) (area : Option K) :
    normalizeIntegrals (env T) par (flatTree c) bandTree .vegamag none area (some (flatTree v)) =
      .ok (|(|c| + |c|)|, |(|v| + |v|)|) := by
  rw [normalizeIntegrals_density _ _ _ _ _ _ _ _ (by intro h; cases h) (by intro h; cases h), grid_of _ _ rfl]
  simp only [ok_bind', prod_integral (env T) (flatTree c) (fun _ => c) (flat_eval (env T) c), stdTreeOf, pure_bind,
    grid_of par.mergeThr (flatTree v) rfl,
    prod_integral (env T) (flatTree v) (fun _ => v) (flat_eval (env T) v)]
  rfl

theorem binEdges24 : binEdges ([2, 4] : List K) = .ok [1, 3, 5] := by
  simp only [binEdges, mids, List.getLastD, List.getLast?, List.cons_append, List.nil_append]
  norm_num

/-- count factors of the grid `[2, 4]`: bin widths 2, 2 -/
theorem count_samples (T : Transc K) (f : List K) (hf : f.length = 2) (a : K) :
    convertFlux phys T [2, 4] f .photlam .count (some a) none = .ok (mulFactors f [2 * a, 2 * a]) := by
  have := convertFlux_count phys T [2, 4] f [1, 3, 5] [2, 2] a valid24 binEdges24
    (by simp only [binWidths, absDiffs]; norm_num) rfl (by simpa using hf.symm)
  simpa using this

theorem integrals_count (T : Transc K) (c a : K) (u : FluxUnit K) (hu : u = .count ∨ u = .obmag)
    (vega : Option (Synphot.Tree K)) :
    normalizeIntegrals (env T) par (flatTree c) bandTree u none (some a) vega = .ok (c * 1 * (2 * a) + (c * 1 * (2 * a) + 0), 1) := by
  rw [normalizeIntegrals_count _ _ _ _ _ _ _ _ hu, grid_of _ _ rfl]
  simp only [ok_bind', prod_samples (env T) (flatTree c) (fun _ => c) (flat_eval (env T) c)]
  show (convertFlux phys T [2, 4] [c * 1, c * 1] .photlam .count (some a) none >>= _) = _
  rw [count_samples T _ rfl a]
  rfl

/-- the observation of (source · k) × box -/
def obs (c k : K) : Obs K :=
  { src := src c, band := band, model := .bin .mul (.scale (flatTree c) k) bandTree,
    warned := false, bins := ⟨[], [], [], [], [], [], []⟩ }

/-- the pivot of the box on its grid: `∫λP = 6`, `∫P/λ = 3/4` -/
theorem pivot_val (T : Transc K) (thr : K) : pivot (env T) thr bandTree none = .ok (T.sqrt |6 / (3 / 4)|) := by
  rw [pivot_value (env T) thr bandTree none [2, 4] [1, 1] (band_grid thr) (band_samples _)]
  simp only [List.zip_cons_cons, List.zip_nil_right, List.map_cons, List.map_nil, trapz]
  norm_num
  rfl

end Witness
namespace Witness

/-- a tabulated source on `[3, 4]` only (value 2): covers half of the box's sampled range -/
def tabSrc : Spec K := Spec.ofTree .source (.leaf (.table ⟨[3, 4], [2, 2], false, true⟩))

theorem tabSrc_model : (tabSrc : Spec K).model = .ok (.leaf (.table ⟨[3, 4], [2, 2], false, true⟩)) := ofTree_model _ _

theorem valid34 : validateWavelengths ([3, 4] : List K) = .ok () := by
  rw [validate_ok_iff]
  refine ⟨?_, Or.inl ?_⟩
  · intro x hx; simp only [List.mem_cons, List.not_mem_nil, or_false] at hx
    rcases hx with rfl | rfl <;> norm_num
  · exact ⟨by norm_num, trivial⟩

theorem valid23 : validateWavelengths ([2, 3] : List K) = .ok () := by
  rw [validate_ok_iff]
  refine ⟨?_, Or.inl ?_⟩
  · intro x hx; simp only [List.mem_cons, List.not_mem_nil, or_false] at hx
    rcases hx with rfl | rfl <;> norm_num
  · exact ⟨by norm_num, trivial⟩

theorem band_samples23 (E : Env K) : sampleTree E (bandTree : Synphot.Tree K) [2, 3] = .ok [1, 1] := by
  simp only [sampleTree, List.mapM_cons, List.mapM_nil, band_eval E 2 (by constructor <;> norm_num),
    band_eval E 3 (by constructor <;> norm_num), bind, Except.bind, pure, Except.pure]

/-- half of the box's throughput lies outside the table: `partial_notmost` -/
theorem overlap_partial (E : Env K) : checkOverlap E par band tabSrc none = .ok .partialNotMost := by
  have h1 : integrateTrapz E (bandTree : Synphot.Tree K) [2, 4] = .ok 2 := by
    simp only [integrateTrapz, valid24, band_samples, ok_bind', pure, Except.pure, trapzXY, List.map_cons, List.map_nil,
      List.zip_cons_cons, List.zip_nil_right, trapz]
    norm_num
  have h2 : integrateTrapz E (bandTree : Synphot.Tree K) [2, 3] = .ok 1 := by
    simp only [integrateTrapz, valid23, band_samples23, ok_bind', pure, Except.pure, trapzXY, List.map_cons, List.map_nil,
      List.zip_cons_cons, List.zip_nil_right, trapz]
    norm_num
  have hw : wavesetOrErr (par : OverlapPar K).mergeThr (bandTree : Synphot.Tree K) = .ok [2, 4] := band_grid _
  have hws : wavesetOrErr (par : OverlapPar K).mergeThr (Synphot.Tree.leaf (.table (⟨[3, 4], [2, 2], false, true⟩ : Table K))) = .ok [3, 4] := by
    simp only [wavesetOrErr, Synphot.Tree.waveset, Synphot.Tree.sampleset, Leaf.sampleset, valid34, bind, Except.bind, pure,
      Except.pure]
  have hwt : Synphot.Tree.waveset (par : OverlapPar K).mergeThr (bandTree : Synphot.Tree K) = .ok (some [2, 4]) := by
    simp only [Synphot.Tree.waveset, Synphot.Tree.sampleset, bandTree, Leaf.sampleset, valid24, bind, Except.bind, pure,
      Except.pure]
  have hwst : Synphot.Tree.waveset (par : OverlapPar K).mergeThr
      (Synphot.Tree.leaf (.table (⟨[3, 4], [2, 2], false, true⟩ : Table K))) = .ok (some [3, 4]) := by
    simp only [Synphot.Tree.waveset, Synphot.Tree.sampleset, Leaf.sampleset, valid34, bind, Except.bind, pure,
      Except.pure]
  have hmin24 : min (2 : K) 4 = 2 := min_eq_left (by norm_num)
  have hmax24 : max (2 : K) 4 = 4 := max_eq_right (by norm_num)
  have hmin34 : min (3 : K) 4 = 3 := min_eq_left (by norm_num)
  have hmax34 : max (3 : K) 4 = 4 := max_eq_right (by norm_num)
  have hst : overlapStatus (2 : K) 4 3 4 = .part := by
    simp only [overlapStatus]; norm_num
  have hends : sampleTree E (Synphot.Tree.leaf (.table (⟨[3, 4], [2, 2], false, true⟩ : Table K))) [2, 4] = .ok [2, 2] := by
    simp only [sampleTree, List.mapM_cons, List.mapM_nil, Synphot.Tree.eval, Leaf.eval, Table.eval, List.headD, List.getLastD,
      List.getLast?, interpAsc, bind, Except.bind, pure, Except.pure]
    norm_num
  simp only [checkOverlap, band_model, tabSrc_model, ok_bind', Option.isNone_none, if_true, hwt, hwst, hw, hws,
    Option.isNone_some, Bool.false_eq_true, if_false, band_samples, List.zip_cons_cons, List.zip_nil_right,
    gt_iff_lt, one_pos, decide_true, List.filter_cons_of_pos, List.filter_nil, List.map_cons, List.map_nil,
    listMin, listMax, List.foldl_cons, List.foldl_nil, hmin24, hmax24, hmin34, hmax34, hst, List.head?_cons,
    List.getLast?, hends, Synphot.Tree.rootTable?, Table.isTapered, endsZero]
  have h20 : ¬ ((2 : K) = 0) := by norm_num
  have h23 : (2 : K) < 3 := by norm_num
  have h44 : ¬ ((4 : K) < 4) := lt_irrefl _
  simp only [List.getLast_cons_cons, List.getLast_singleton, hends, ok_bind', h20, decide_false, Bool.false_and,
    Bool.false_eq_true, false_and, if_false, h1, validateTotalflux_of_pos (two_pos : (0 : K) < 2), h23, if_true, h2, h44,
    pure_bind, gradeVerdict, par]
  norm_num

end Witness
/-! ### 15. a non-negative bandpass on a monotone grid: `∫P/λ ≠ 0 → ∫λP ≠ 0` -/

/-- weakly descending abscissae -/
def DescX : List (K × K) → Prop
  | p :: q :: t => q.1 ≤ p.1 ∧ DescX (q :: t)
  | _ => True

theorem ascX_zip : ∀ (x y : List K), StrictAsc x → AscX (x.zip y) := by
  intro x
  induction x with
  | nil => intro y _; trivial
  | cons a x ih =>
    intro y h
    cases y with
    | nil => trivial
    | cons c y =>
      cases x with
      | nil => trivial
      | cons b x =>
        cases y with
        | nil => trivial
        | cons d y => exact ⟨le_of_lt h.1, ih (d :: y) h.2⟩

theorem descX_zip : ∀ (x y : List K), StrictDesc x → DescX (x.zip y) := by
  intro x
  induction x with
  | nil => intro y _; trivial
  | cons a x ih =>
    intro y h
    cases y with
    | nil => trivial
    | cons c y =>
      cases x with
      | nil => trivial
      | cons b x =>
        cases y with
        | nil => trivial
        | cons d y => exact ⟨le_of_lt h.1, ih (d :: y) h.2⟩

theorem ascX_map (f : K × K → K) : ∀ (l : List (K × K)), AscX l → AscX (l.map fun p => (p.1, f p)) := by
  intro l
  induction l with
  | nil => intro _; trivial
  | cons a l ih =>
    intro h
    cases l with
    | nil => trivial
    | cons b l => exact ⟨h.1, ih h.2⟩

theorem trapz_nonpos_desc (l : List (K × K)) (hx : DescX l) (hy : ∀ p ∈ l, 0 ≤ p.2) : trapz l ≤ 0 := by
  induction l with
  | nil => simp
  | cons a l ih =>
    cases l with
    | nil => simp
    | cons b l =>
      obtain ⟨hab, hx'⟩ := hx
      rw [trapz_cons_cons]
      have h1 : (b.1 - a.1) * (a.2 + b.2) / 2 ≤ 0 := by
        have := hy a (by simp); have := hy b (by simp)
        have : (b.1 - a.1) * (a.2 + b.2) ≤ 0 := mul_nonpos_of_nonpos_of_nonneg (sub_nonpos.mpr hab) (by linarith)
        linarith
      have := ih hx' (fun p hp => hy p (List.mem_cons_of_mem _ hp))
      linarith

theorem descX_map (f : K × K → K) : ∀ (l : List (K × K)), DescX l → DescX (l.map fun p => (p.1, f p)) := by
  intro l
  induction l with
  | nil => intro _; trivial
  | cons a l ih =>
    intro h
    cases l with
    | nil => trivial
    | cons b l => exact ⟨h.1, ih h.2⟩

private theorem term_zero_transfer (d fa fb ga gb : K) (hfa : 0 ≤ fa) (hfb : 0 ≤ fb)
    (ha : fa = 0 ↔ ga = 0) (hb : fb = 0 ↔ gb = 0) (h : d * (fa + fb) / 2 = 0) : d * (ga + gb) / 2 = 0 := by
  have h' : d * (fa + fb) = 0 := by linarith
  rcases mul_eq_zero.mp h' with hd | hs
  · rw [hd]; ring
  · have h1 : fa = 0 := by linarith
    have h2 : fb = 0 := by linarith
    rw [ha.mp h1, hb.mp h2]; ring

/-- on a monotone grid, two non-negative weightings with the same zeros vanish together -/
theorem trapz_zero_transfer_asc (f g : K × K → K) (l : List (K × K)) (hx : AscX l)
    (hf : ∀ p ∈ l, 0 ≤ f p) (hfg : ∀ p ∈ l, f p = 0 ↔ g p = 0)
    (h : trapz (l.map fun p => (p.1, f p)) = 0) : trapz (l.map fun p => (p.1, g p)) = 0 := by
  induction l with
  | nil => simp
  | cons a l ih =>
    cases l with
    | nil => simp
    | cons b l =>
      obtain ⟨hab, hx'⟩ := hx
      simp only [List.map_cons, trapz_cons_cons] at h ⊢
      have hfa := hf a (by simp); have hfb := hf b (by simp)
      have hterm : 0 ≤ (b.1 - a.1) * (f a + f b) / 2 := by
        have : 0 ≤ (b.1 - a.1) * (f a + f b) := mul_nonneg (sub_nonneg.mpr hab) (by linarith)
        linarith
      have htail : 0 ≤ trapz ((b :: l).map fun p => (p.1, f p)) :=
        trapz_nonneg _ (ascX_map f _ hx') (by
          intro p hp; simp only [List.mem_map] at hp; obtain ⟨q, hq, rfl⟩ := hp
          exact hf q (List.mem_cons_of_mem _ hq))
      simp only [List.map_cons] at htail
      have e1 : (b.1 - a.1) * (f a + f b) / 2 = 0 := by linarith
      have e2 : trapz ((b.1, f b) :: l.map fun p => (p.1, f p)) = 0 := by linarith
      have i1 := term_zero_transfer (b.1 - a.1) (f a) (f b) (g a) (g b) hfa hfb (hfg a (by simp)) (hfg b (by simp)) e1
      have i2 := ih hx' (fun p hp => hf p (List.mem_cons_of_mem _ hp)) (fun p hp => hfg p (List.mem_cons_of_mem _ hp))
        (by simpa only [List.map_cons] using e2)
      simp only [List.map_cons] at i2
      rw [i1, i2]; ring

theorem trapz_zero_transfer_desc (f g : K × K → K) (l : List (K × K)) (hx : DescX l)
    (hf : ∀ p ∈ l, 0 ≤ f p) (hfg : ∀ p ∈ l, f p = 0 ↔ g p = 0)
    (h : trapz (l.map fun p => (p.1, f p)) = 0) : trapz (l.map fun p => (p.1, g p)) = 0 := by
  induction l with
  | nil => simp
  | cons a l ih =>
    cases l with
    | nil => simp
    | cons b l =>
      obtain ⟨hab, hx'⟩ := hx
      simp only [List.map_cons, trapz_cons_cons] at h ⊢
      have hfa := hf a (by simp); have hfb := hf b (by simp)
      have hterm : (b.1 - a.1) * (f a + f b) / 2 ≤ 0 := by
        have : (b.1 - a.1) * (f a + f b) ≤ 0 := mul_nonpos_of_nonpos_of_nonneg (sub_nonpos.mpr hab) (by linarith)
        linarith
      have htail : trapz ((b :: l).map fun p => (p.1, f p)) ≤ 0 :=
        trapz_nonpos_desc _ (descX_map f _ hx') (by
          intro p hp; simp only [List.mem_map] at hp; obtain ⟨q, hq, rfl⟩ := hp
          exact hf q (List.mem_cons_of_mem _ hq))
      simp only [List.map_cons] at htail
      have e1 : (b.1 - a.1) * (f a + f b) / 2 = 0 := by linarith
      have e2 : trapz ((b.1, f b) :: l.map fun p => (p.1, f p)) = 0 := by linarith
      have i1 := term_zero_transfer (b.1 - a.1) (f a) (f b) (g a) (g b) hfa hfb (hfg a (by simp)) (hfg b (by simp)) e1
      have i2 := ih hx' (fun p hp => hf p (List.mem_cons_of_mem _ hp)) (fun p hp => hfg p (List.mem_cons_of_mem _ hp))
        (by simpa only [List.map_cons] using e2)
      simp only [List.map_cons] at i2
      rw [i1, i2]; ring

/-- a non-negative bandpass sampled on a validated grid: `∫ P/λ ≠ 0` forces `∫ λP ≠ 0` -/
theorem band_B_ne_zero (xb yb : List K) (hv : validateWavelengths xb = .ok ()) (hnn : ∀ v ∈ yb, 0 ≤ v)
    (hA : trapz ((xb.zip yb).map fun p => (p.1, p.2 / p.1)) ≠ 0) :
    trapz ((xb.zip yb).map fun p => (p.1, p.1 * p.2)) ≠ 0 := by
  obtain ⟨hpos, hmono⟩ := (validate_ok_iff xb).mp hv
  intro hB
  apply hA
  have hf : ∀ p ∈ xb.zip yb, 0 ≤ p.1 * p.2 := fun p hp =>
    mul_nonneg (hpos p.1 (List.of_mem_zip hp).1).le (hnn p.2 (List.of_mem_zip hp).2)
  have hfg : ∀ p ∈ xb.zip yb, p.1 * p.2 = 0 ↔ p.2 / p.1 = 0 := by
    intro p hp
    have := ne_of_gt (hpos p.1 (List.of_mem_zip hp).1)
    constructor
    · intro h; rcases mul_eq_zero.mp h with h | h
      · exact absurd h this
      · rw [h, zero_div]
    · intro h; rcases div_eq_zero_iff.mp h with h | h
      · rw [h, mul_zero]
      · exact absurd h this
  rcases hmono with ha | hd
  · exact trapz_zero_transfer_asc (fun p => p.1 * p.2) (fun p => p.2 / p.1) _ (ascX_zip xb yb ha) hf hfg hB
  · exact trapz_zero_transfer_desc (fun p => p.1 * p.2) (fun p => p.2 / p.1) _ (descX_zip xb yb hd) hf hfg hB

/-- … hence a positive pivot wavelength -/
theorem pivot_pos_of_band (E : Env K) (hT : E.T.Lawful) (thr : K) (bm : Synphot.Tree K) (wl : Option (List K))
    (xb yb : List K)
    (hxb : wavelengthsOr thr bm wl = .ok xb) (hv : validateWavelengths xb = .ok ())
    (hyb : sampleTree E bm xb = .ok yb) (hnn : ∀ v ∈ yb, 0 ≤ v)
    (hA : trapz ((xb.zip yb).map fun p => (p.1, p.2 / p.1)) ≠ 0) :
    ∃ wp, pivot E thr bm wl = .ok wp ∧ 0 < wp := by
  have hB := band_B_ne_zero xb yb hv hnn hA
  refine ⟨_, pivot_value E thr bm wl xb yb hxb hyb, ?_⟩
  rw [if_neg hA]
  have hq : 0 < |trapz ((xb.zip yb).map fun p => (p.1, p.1 * p.2)) /
      trapz ((xb.zip yb).map fun p => (p.1, p.2 / p.1))| := abs_pos.mpr (div_ne_zero hB hA)
  have hsq := hT.sqrt_mul_self _ hq.le
  rcases (hT.sqrt_nonneg |trapz ((xb.zip yb).map fun p => (p.1, p.1 * p.2)) /
      trapz ((xb.zip yb).map fun p => (p.1, p.2 / p.1))|).lt_or_eq with h | h
  · exact h
  · rw [← h] at hsq; simp at hsq; exact absurd hsq.symm (ne_of_gt hq)

namespace Witness

/-! the same call with explicit wavelengths `[2, 3, 4]` (finer than the box's own sampling set) -/

theorem valid234 : validateWavelengths ([2, 3, 4] : List K) = .ok () := by
  rw [validate_ok_iff]
  refine ⟨?_, Or.inl ?_⟩
  · intro x hx; simp only [List.mem_cons, List.not_mem_nil, or_false] at hx
    rcases hx with rfl | rfl | rfl <;> norm_num
  · exact ⟨by norm_num, by norm_num, trivial⟩

theorem grid234 (thr : K) (m : Synphot.Tree K) : wavelengthsOr thr m (some [2, 3, 4]) = .ok [2, 3, 4] := by
  simp only [wavelengthsOr, valid234, bind, Except.bind, pure, Except.pure]

theorem band_samples234 (E : Env K) : sampleTree E (bandTree : Synphot.Tree K) [2, 3, 4] = .ok [1, 1, 1] := by
  simp only [sampleTree, List.mapM_cons, List.mapM_nil, band_eval E 2 (by constructor <;> norm_num),
    band_eval E 3 (by constructor <;> norm_num), band_eval E 4 (by constructor <;> norm_num), bind, Except.bind, pure,
    Except.pure]

theorem overlap_full234 (E : Env K) (c : K) : checkOverlap E par band (src c) (some [2, 3, 4]) = .ok .full := by
  have hmin : min (min (2 : K) 3) 4 = 2 := by
    rw [min_eq_left (by norm_num : (2 : K) ≤ 3), min_eq_left (by norm_num : (2 : K) ≤ 4)]
  have hmax : max (max (2 : K) 3) 4 = 4 := by
    rw [max_eq_right (by norm_num : (2 : K) ≤ 3), max_eq_right (by norm_num : (3 : K) ≤ 4)]
  have hst : overlapStatus (2 : K) 4 2 4 = .full := by simp only [overlapStatus]; norm_num
  simp only [checkOverlap, band_model, src_model, ok_bind', Option.isNone_some, Bool.false_eq_true, if_false, valid234,
    band_samples234, pure_bind, List.zip_cons_cons, List.zip_nil_right, gt_iff_lt, one_pos, decide_true,
    List.filter_cons_of_pos, List.filter_nil, List.map_cons, List.map_nil, listMin, listMax, List.foldl_cons,
    List.foldl_nil, hmin, hmax, hst, gradeVerdict]
  rfl

theorem admitOk234 (E : Env K) (c : K) (force : Bool) :
    normalizeAdmit E par (src c) band (some [2, 3, 4]) force = .ok (src c, false) := by
  have hk : (band : Spec K).kind = .bandpass := rfl
  simp [normalizeAdmit, hk, overlap_full234, bind, Except.bind, pure, Except.pure]

theorem prod_samples234 (E : Env K) (m : Synphot.Tree K) (f : K → K) (hm : ∀ x, m.eval E x = .ok (f x)) :
    sampleTree E (.bin .mul m bandTree) [2, 3, 4] = .ok [f 2 * 1, f 3 * 1, f 4 * 1] := by
  simp only [sampleTree, List.mapM_cons, List.mapM_nil, Synphot.Tree.eval, hm, band_eval E 2 (by constructor <;> norm_num),
    band_eval E 3 (by constructor <;> norm_num), band_eval E 4 (by constructor <;> norm_num), BinOp.apply, bind,
    Except.bind, pure, Except.pure]

theorem prod_integral234 (E : Env K) (m : Synphot.Tree K) (f : K → K) (hm : ∀ x, m.eval E x = .ok (f x)) :
    integrateTrapz E (.bin .mul m bandTree) [2, 3, 4] = .ok |(|f 2| + |f 3|) / 2 + (|f 3| + |f 4|) / 2| := by
  simp only [integrateTrapz, valid234, prod_samples234 E m f hm, ok_bind', pure, Except.pure, trapzXY, List.map_cons,
    List.map_nil, List.zip_cons_cons, List.zip_nil_right, trapz, mul_one]
  congr 2; ring

theorem integrals_density234 (T : Transc K) (c : K) (u : FluxUnit K) (hu : u ≠ .count) (hu' : u ≠ .obmag)
    (area : Option K) (vega : Option (Synphot.Tree K)) (a0 : K) (u0 : FluxUnit K)
    (hstd : stdTreeOf (env T) u vega = .ok (.leaf (.constFlux a0 u0))) (hu0 : IsLinearDensity u0) :
    normalizeIntegrals (env T) par (flatTree c) bandTree u (some [2, 3, 4]) area vega =
      .ok (|(|c| + |c|) / 2 + (|c| + |c|) / 2|,
        |(|flatPhotlam phys u0 a0 2| + |flatPhotlam phys u0 a0 3|) / 2 +
          (|flatPhotlam phys u0 a0 3| + |flatPhotlam phys u0 a0 4|) / 2|) := by
  rw [normalizeIntegrals_density _ _ _ _ _ _ _ _ hu hu', grid234]
  simp only [ok_bind', prod_integral234 (env T) (flatTree c) (fun _ => c) (flat_eval (env T) c), hstd, grid234,
    prod_integral234 (env T) (.leaf (.constFlux a0 u0)) (flatPhotlam phys u0 a0) (constFlux_eval (env T) u0 hu0 a0)]
  rfl

theorem integrals_vega234 (T : Transc K) (c v : K) (area : Option K) :
    normalizeIntegrals (env T) par (flatTree c) bandTree .vegamag (some [2, 3, 4]) area (some (flatTree v)) =
      .ok (|(|c| + |c|) / 2 + (|c| + |c|) / 2|, |(|v| + |v|) / 2 + (|v| + |v|) / 2|) := by
  rw [normalizeIntegrals_density _ _ _ _ _ _ _ _ (by intro h; cases h) (by intro h; cases h), grid234]
  simp only [ok_bind', prod_integral234 (env T) (flatTree c) (fun _ => c) (flat_eval (env T) c), stdTreeOf, pure_bind,
    grid234, prod_integral234 (env T) (flatTree v) (fun _ => v) (flat_eval (env T) v)]
  rfl

end Witness
end Synphot.C10x
