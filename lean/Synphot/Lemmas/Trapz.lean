import Mathlib.Tactic.Ring
import Mathlib.Tactic.FieldSimp
import Mathlib.Tactic.Linarith
import Mathlib.Tactic.Positivity
import Synphot.Core.Trapz

set_option linter.unusedSectionVars false
set_option linter.unusedSimpArgs false

namespace Synphot
variable {K : Type} [Field K] [LinearOrder K] [IsStrictOrderedRing K]

@[simp] theorem trapz_nil : trapz ([] : List (K × K)) = 0 := rfl
@[simp] theorem trapz_single (p : K × K) : trapz [p] = 0 := rfl
theorem trapz_cons_cons (p q : K × K) (t : List (K × K)) :
    trapz (p :: q :: t) = (q.1 - p.1) * (p.2 + q.2) / 2 + trapz (q :: t) := rfl

/-- appending one sample at the end -/
theorem trapz_append_single (l : List (K × K)) (p q : K × K) :
    trapz (l ++ [p, q]) = trapz (l ++ [p]) + (q.1 - p.1) * (p.2 + q.2) / 2 := by
  induction l with
  | nil => simp [trapz]
  | cons a l ih =>
    cases l with
    | nil => simp [trapz]
    | cons b l =>
      simp only [List.cons_append, trapz_cons_cons] at ih ⊢
      rw [ih]; ring

/-- reversing the sampling order flips the sign -/
theorem trapz_reverse (l : List (K × K)) : trapz l.reverse = - trapz l := by
  induction l with
  | nil => simp
  | cons a l ih =>
    cases l with
    | nil => simp
    | cons b l =>
      have : (a :: b :: l).reverse = (l.reverse ++ [b, a]) := by simp
      rw [this, trapz_append_single, trapz_cons_cons]
      have h2 : l.reverse ++ [b] = (b :: l).reverse := by simp
      rw [h2, ih]; ring

/-- the unsigned trapezoid sum does not depend on the sampling order -/
theorem abs_trapz_reverse (l : List (K × K)) : |trapz l.reverse| = |trapz l| := by
  rw [trapz_reverse, abs_neg]

/-- homogeneity in the sampled values -/
theorem trapz_smul (k : K) (l : List (K × K)) :
    trapz (l.map fun p => (p.1, k * p.2)) = k * trapz l := by
  induction l with
  | nil => simp
  | cons a l ih =>
    cases l with
    | nil => simp
    | cons b l =>
      simp only [List.map_cons, trapz_cons_cons] at ih ⊢
      rw [ih]; ring

/-- additivity in the sampled values (same grid) -/
theorem trapz_add (l : List (K × K × K)) :
    trapz (l.map fun p => (p.1, p.2.1 + p.2.2)) =
      trapz (l.map fun p => (p.1, p.2.1)) + trapz (l.map fun p => (p.1, p.2.2)) := by
  induction l with
  | nil => simp
  | cons a l ih =>
    cases l with
    | nil => simp
    | cons b l =>
      simp only [List.map_cons, trapz_cons_cons] at ih ⊢
      rw [ih]; ring

/-- weakly ascending abscissae -/
def AscX : List (K × K) → Prop
  | p :: q :: t => p.1 ≤ q.1 ∧ AscX (q :: t)
  | _ => True

/-- last abscissa minus first abscissa -/
def spanX : List (K × K) → K
  | [] => 0
  | p :: t => ((p :: t).getLast (List.cons_ne_nil _ _)).1 - p.1

theorem spanX_cons_cons (p q : K × K) (t : List (K × K)) :
    spanX (p :: q :: t) = (q.1 - p.1) + spanX (q :: t) := by
  simp [spanX, List.getLast_cons]

/-- a trapezoid sum over an ascending grid is a non-negatively weighted sum: it lies between
`m · span` and `M · span` whenever all samples lie between `m` and `M` -/
theorem trapz_bounds (m M : K) (l : List (K × K)) (hx : AscX l)
    (hy : ∀ p ∈ l, m ≤ p.2 ∧ p.2 ≤ M) :
    m * spanX l ≤ trapz l ∧ trapz l ≤ M * spanX l := by
  induction l with
  | nil => simp [spanX]
  | cons a l ih =>
    cases l with
    | nil => simp [spanX]
    | cons b l =>
      obtain ⟨hab, hx'⟩ := hx
      have hya := hy a (by simp)
      have hyb := hy b (by simp)
      have ih' := ih hx' (fun p hp => hy p (List.mem_cons_of_mem _ hp))
      rw [trapz_cons_cons, spanX_cons_cons]
      have hd : 0 ≤ b.1 - a.1 := sub_nonneg.mpr hab
      constructor
      · have : m * (b.1 - a.1) ≤ (b.1 - a.1) * (a.2 + b.2) / 2 := by
          have h1 : (b.1 - a.1) * (2 * m) ≤ (b.1 - a.1) * (a.2 + b.2) :=
            mul_le_mul_of_nonneg_left (by linarith [hya.1, hyb.1]) hd
          linarith
        linarith [ih'.1]
      · have : (b.1 - a.1) * (a.2 + b.2) / 2 ≤ M * (b.1 - a.1) := by
          have h1 : (b.1 - a.1) * (a.2 + b.2) ≤ (b.1 - a.1) * (2 * M) :=
            mul_le_mul_of_nonneg_left (by linarith [hya.2, hyb.2]) hd
          linarith
        linarith [ih'.2]

theorem trapz_nonneg (l : List (K × K)) (hx : AscX l) (hy : ∀ p ∈ l, 0 ≤ p.2) : 0 ≤ trapz l := by
  induction l with
  | nil => simp
  | cons a l ih =>
    cases l with
    | nil => simp
    | cons b l =>
      obtain ⟨hab, hx'⟩ := hx
      rw [trapz_cons_cons]
      have h1 : 0 ≤ (b.1 - a.1) * (a.2 + b.2) / 2 := by
        have := hy a (by simp); have := hy b (by simp)
        have : 0 ≤ (b.1 - a.1) * (a.2 + b.2) := mul_nonneg (sub_nonneg.mpr hab) (by linarith)
        linarith
      have := ih hx' (fun p hp => hy p (List.mem_cons_of_mem _ hp))
      linarith

end Synphot

namespace Synphot
variable {K : Type} [Field K] [LinearOrder K] [IsStrictOrderedRing K]

/-- scaling abscissae by `a` and ordinates by `b` scales the trapezoid sum by `a·b`
(the discrete change of variables behind flux-conserving redshift) -/
theorem trapz_scale_xy (a b : K) (l : List (K × K)) :
    trapz (l.map fun p => (a * p.1, b * p.2)) = a * b * trapz l := by
  induction l with
  | nil => simp
  | cons p l ih =>
    cases l with
    | nil => simp
    | cons q l =>
      simp only [List.map_cons, trapz_cons_cons] at ih ⊢
      rw [ih]; ring

end Synphot

namespace Synphot
variable {K : Type} [Field K] [LinearOrder K] [IsStrictOrderedRing K]

/-- a trapezoid sum whose ordinates are `w·g` with `m ≤ w ≤ M` and `g ≥ 0` on an ascending grid lies
between `m` and `M` times the trapezoid sum of `g` (weighted-mean bound; triples are `(x, g, w)`) -/
theorem trapz_weighted_bounds (m M : K) (l : List (K × K × K))
    (hx : AscX (l.map fun p => (p.1, p.2.1)))
    (hg : ∀ p ∈ l, 0 ≤ p.2.1) (hw : ∀ p ∈ l, m ≤ p.2.2 ∧ p.2.2 ≤ M) :
    m * trapz (l.map fun p => (p.1, p.2.1)) ≤ trapz (l.map fun p => (p.1, p.2.2 * p.2.1)) ∧
    trapz (l.map fun p => (p.1, p.2.2 * p.2.1)) ≤ M * trapz (l.map fun p => (p.1, p.2.1)) := by
  induction l with
  | nil => simp
  | cons a l ih =>
    cases l with
    | nil => simp
    | cons b l =>
      simp only [List.map_cons, AscX] at hx
      obtain ⟨hab, hx'⟩ := hx
      have ih' := ih (by simpa [List.map_cons] using hx')
        (fun p hp => hg p (List.mem_cons_of_mem _ hp)) (fun p hp => hw p (List.mem_cons_of_mem _ hp))
      simp only [List.map_cons, trapz_cons_cons] at ih' ⊢
      have hd : 0 ≤ b.1 - a.1 := sub_nonneg.mpr hab
      have hga := hg a (by simp); have hgb := hg b (by simp)
      have hwa := hw a (by simp); have hwb := hw b (by simp)
      have e1 : m * a.2.1 ≤ a.2.2 * a.2.1 := mul_le_mul_of_nonneg_right hwa.1 hga
      have e2 : m * b.2.1 ≤ b.2.2 * b.2.1 := mul_le_mul_of_nonneg_right hwb.1 hgb
      have e3 : a.2.2 * a.2.1 ≤ M * a.2.1 := mul_le_mul_of_nonneg_right hwa.2 hga
      have e4 : b.2.2 * b.2.1 ≤ M * b.2.1 := mul_le_mul_of_nonneg_right hwb.2 hgb
      constructor
      · have : m * ((b.1 - a.1) * (a.2.1 + b.2.1) / 2) ≤ (b.1 - a.1) * (a.2.2 * a.2.1 + b.2.2 * b.2.1) / 2 := by
          have := mul_le_mul_of_nonneg_left (add_le_add e1 e2) hd
          linarith
        linarith [ih'.1]
      · have : (b.1 - a.1) * (a.2.2 * a.2.1 + b.2.2 * b.2.1) / 2 ≤ M * ((b.1 - a.1) * (a.2.1 + b.2.1) / 2) := by
          have := mul_le_mul_of_nonneg_left (add_le_add e3 e4) hd
          linarith
        linarith [ih'.2]

end Synphot
